"""Fact generation: run the kfacts driver over /repo's current working tree (cached by content hash)."""
import hashlib
import json
import os
import shutil
import subprocess
import sys
import tempfile
import time

VERIF = os.path.dirname(os.path.dirname(os.path.abspath(__file__)))
REPO = os.environ.get("KANATA_REPO", "/repo")
DRIVER = os.path.join(VERIF, "kfacts", "target", "debug", "kfacts")
# scratch copies (self-test mutants, tools/mutrun) get their own cache so they never evict /repo's facts
CACHE = os.path.join(VERIF, ".cache", "mutfacts" if os.environ.get("KANATA_REPO") else "facts")

# configuration name -> cargo arguments
CONFIGS = {
    "default": ["-p", "kanata"],
    "workspace": ["--workspace"],
    "cmd": ["-p", "kanata", "--features", "cmd"],
    "nodefault": ["-p", "kanata", "--no-default-features"],
}
REQUIRED = ["kanata_keyberon.json", "kanata_parser.json", "kanata_state_machine.json"]


class Broken(Exception):
    """machinery failure (exit 2), never a verdict"""


def tree_hash(repo=REPO):
    h = hashlib.sha256()
    skip_dirs = {"target", ".git", "node_modules"}
    paths = []
    for root, dirs, files in os.walk(repo):
        dirs[:] = sorted(d for d in dirs if d not in skip_dirs)
        for f in sorted(files):
            if f.endswith(".rs") or f in ("Cargo.toml", "Cargo.lock", "build.rs"):
                paths.append(os.path.join(root, f))
    for p in paths:
        h.update(os.path.relpath(p, repo).encode())
        h.update(b"\0")
        with open(p, "rb") as fh:
            h.update(fh.read())
        h.update(b"\0")
    # the driver itself is part of the key
    try:
        with open(os.path.join(VERIF, "kfacts", "src", "main.rs"), "rb") as fh:
            h.update(fh.read())
    except OSError:
        pass
    return h.hexdigest()[:24]


def ensure_driver():
    src = os.path.join(VERIF, "kfacts", "src", "main.rs")
    if os.path.exists(DRIVER) and os.path.getmtime(DRIVER) >= os.path.getmtime(src):
        return
    env = dict(os.environ, CARGO_NET_OFFLINE="true")
    r = subprocess.run(
        ["cargo", "+nightly", "build", "--offline"],
        cwd=os.path.join(VERIF, "kfacts"),
        env=env,
        stdout=subprocess.PIPE,
        stderr=subprocess.STDOUT,
        text=True,
    )
    if r.returncode != 0 or not os.path.exists(DRIVER):
        raise Broken("kfacts driver failed to build:\n" + r.stdout[-3000:])


def _sysroot_lib():
    r = subprocess.run(
        ["rustc", "+nightly", "--print", "sysroot"], stdout=subprocess.PIPE, text=True, check=True
    )
    return os.path.join(r.stdout.strip(), "lib")


def generate(config="default", repo=REPO, outdir=None):
    """Run the driver; returns the directory with the json fact files."""
    ensure_driver()
    if outdir is None:
        outdir = os.path.join(CACHE, tree_hash(repo), config)
    if all(os.path.exists(os.path.join(outdir, f)) for f in REQUIRED) and os.path.exists(
        os.path.join(outdir, "DONE")
    ):
        # mark the cache entry as in use: pruning (by a parallel run) only removes entries untouched for 30 minutes
        for d_ in (outdir, os.path.dirname(outdir)):
            try:
                os.utime(d_, None)
            except OSError:
                pass
        return outdir
    os.makedirs(outdir, exist_ok=True)
    lock = os.path.join(outdir, ".lock")
    # simple cross-process lock: 20 checks may start at once on one tree
    t0 = time.time()
    while True:
        try:
            fd = os.open(lock, os.O_CREAT | os.O_EXCL | os.O_WRONLY)
            os.close(fd)
            break
        except FileExistsError:
            if os.path.exists(os.path.join(outdir, "DONE")):
                return outdir
            try:
                if time.time() - os.path.getmtime(lock) > 600:
                    os.unlink(lock)
                    continue
            except OSError:
                continue
            if time.time() - t0 > 900:
                raise Broken("timeout waiting for fact generation lock " + lock)
            time.sleep(0.5)
    try:
        if os.path.exists(os.path.join(outdir, "DONE")):
            return outdir
        tgt = tempfile.mkdtemp(prefix="kfacts-tgt-", dir=os.environ.get("KFACTS_TMP", "/tmp"))
        try:
            env = dict(os.environ)
            env.update(
                KFACTS_OUT=outdir,
                LD_LIBRARY_PATH=_sysroot_lib() + ":" + env.get("LD_LIBRARY_PATH", ""),
                RUSTFLAGS="-Zmir-opt-level=0 -Awarnings",
                RUSTC_WORKSPACE_WRAPPER=DRIVER,
                CARGO_TARGET_DIR=tgt,
                CARGO_NET_OFFLINE="true",
            )
            env.pop("RUSTC_WRAPPER", None)
            cmd = ["cargo", "+nightly", "check", "--offline"] + CONFIGS[config]
            r = subprocess.run(
                cmd, cwd=repo, env=env, stdout=subprocess.PIPE, stderr=subprocess.STDOUT, text=True
            )
            if r.returncode != 0:
                raise Broken(
                    "cargo check failed for config %s (does /repo compile?):\n%s"
                    % (config, r.stdout[-4000:])
                )
        finally:
            shutil.rmtree(tgt, ignore_errors=True)
        for f in REQUIRED:
            if not os.path.exists(os.path.join(outdir, f)):
                raise Broken("fact file missing after extraction: " + f)
        with open(os.path.join(outdir, "DONE"), "w") as fh:
            fh.write(time.strftime("%Y-%m-%dT%H:%M:%S"))
        _prune_cache(keep=os.path.dirname(outdir))
        return outdir
    finally:
        try:
            os.unlink(lock)
        except OSError:
            pass


def _prune_cache(keep, maxn=4):
    try:
        ents = [os.path.join(CACHE, d) for d in os.listdir(CACHE)]
        # never touch a directory another process may still be writing to / reading from (parallel mutant runs)
        now = time.time()
        ents = [e for e in ents if os.path.isdir(e) and e != keep and now - os.path.getmtime(e) > 1800]
        ents.sort(key=os.path.getmtime)
        while len(ents) >= maxn:
            shutil.rmtree(ents.pop(0), ignore_errors=True)
    except OSError:
        pass


def load(config="default", repo=REPO, outdir=None):
    d = generate(config, repo, outdir)
    out = {}
    for f in sorted(os.listdir(d)):
        if f.endswith(".json"):
            with open(os.path.join(d, f)) as fh:
                out[f[:-5]] = json.load(fh)
    return out


if __name__ == "__main__":
    cfg = sys.argv[1] if len(sys.argv) > 1 else "default"
    t = time.time()
    print(generate(cfg), "%.1fs" % (time.time() - t))
