"""kq core: program model over kfacts JSON — functions, CFG, dominators, call graph, def-use."""
import re
from collections import defaultdict, deque

from .facts import Broken


def norm_name(name):
    """strip turbofish-like generic groups `::<...>` (balanced) so names are stable:
    kanata_keyberon::layout::State::<'a, T>::release -> kanata_keyberon::layout::State::release"""
    out = []
    i = 0
    n = len(name)
    while i < n:
        if name.startswith("::<", i):
            depth = 0
            j = i + 2
            while j < n:
                c = name[j]
                if c == "<":
                    depth += 1
                elif c == ">":
                    # skip `->`
                    if j > 0 and name[j - 1] == "-":
                        j += 1
                        continue
                    depth -= 1
                    if depth == 0:
                        break
                j += 1
            i = j + 1
            continue
        out.append(name[i])
        i += 1
    return "".join(out)


def place_local(p):
    return p.get("l") if isinstance(p, dict) else None


def is_const(o):
    return isinstance(o, dict) and "c" in o


def is_place(o):
    return isinstance(o, dict) and "l" in o


def const_val(o):
    if is_const(o):
        return o["c"].get("v")
    return None


def const_def(o):
    if is_const(o):
        return o["c"].get("def")
    return None


def proj(p):
    return p.get("pr", []) if isinstance(p, dict) else []


def proj_fields(p):
    """list of (adt, variant, field) for field projections with ADT info"""
    out = []
    for e in proj(p):
        if isinstance(e, dict) and "f" in e and "adt" in e:
            out.append((e["adt"], e.get("v"), e["f"]))
    return out


def place_str(p):
    s = "_%d" % p["l"]
    for e in proj(p):
        if e == "*":
            s = "(*%s)" % s
        elif isinstance(e, dict):
            if "f" in e:
                s += "." + str(e["f"])
            elif "ix" in e:
                s += "[_%d]" % e["ix"]
            elif "cix" in e:
                s += "[%s%d]" % ("-" if e.get("fe") else "", e["cix"])
            elif "sub" in e:
                s += "[%d..%s%d]" % (e["sub"], "-" if e.get("fe") else "", e["to"])
            elif "dc" in e:
                s += " as %s" % e["dc"]
            else:
                s += "?"
    return s


def place_key(p):
    return place_str(p)


class Fn:
    def __init__(self, prog, crate, name, j):
        self.prog = prog
        self.crate = crate
        self.name = name
        self.norm = norm_name(name)
        self.j = j
        self.kind = j["kind"]
        self.file = j["file"]
        self.lo = j["lo"]
        self.hi = j["hi"]
        self.nargs = j["nargs"]
        self.locals = j["locals"]
        self.blocks = j["blocks"]
        self.parent = j.get("parent")
        self.iparent = j.get("iparent")
        self.caps = j.get("caps", [])
        self.self_adt = j.get("self_adt")
        self.trait = j.get("trait")
        self.derive = j.get("derive", False)
        self.mac = j.get("mac")
        self.ret = j.get("ret")
        self._succ = None
        self._pred = None
        self._dom = None
        self._defs = None
        self._reach = None

    def __repr__(self):
        return "<Fn %s>" % self.norm

    @property
    def loc(self):
        return "%s:%d" % (self.file, self.lo)

    # ------------------------------------------------------------------ CFG
    def term(self, bb):
        return self.blocks[bb]["t"]

    def stmts(self, bb):
        return self.blocks[bb]["s"]

    def is_cleanup(self, bb):
        return self.blocks[bb].get("c", False)

    def origin(self, bb):
        """normalised name of the function the block was written in: this function, or the helper it was inlined from
        (kq/inline.py)"""
        return self.blocks[bb].get("of") or self.norm

    def succs(self, bb):
        if self._succ is None:
            self._succ = []
            for b in self.blocks:
                t = b["t"]
                k = t["k"]
                if k in ("goto", "drop", "assert"):
                    s = [t["t"]]
                elif k == "call":
                    s = [t["t"]] if t["t"] is not None else []
                elif k == "switch":
                    s = []
                    for _, tb in t["ts"]:
                        if tb not in s:
                            s.append(tb)
                    if t["o"] not in s:
                        s.append(t["o"])
                elif k == "other":
                    s = [x for x in t.get("succ", []) if not self.blocks[x].get("c")]
                else:
                    s = []
                self._succ.append(s)
        return self._succ[bb]

    def preds(self, bb):
        if self._pred is None:
            self._pred = [[] for _ in self.blocks]
            for i in range(len(self.blocks)):
                for s in self.succs(i):
                    self._pred[s].append(i)
        return self._pred[bb]

    def reachable(self):
        if self._reach is None:
            seen = {0}
            st = [0]
            while st:
                b = st.pop()
                for s in self.succs(b):
                    if s not in seen:
                        seen.add(s)
                        st.append(s)
            self._reach = seen
        return self._reach

    def rpo(self):
        seen = set()
        order = []
        # iterative DFS postorder
        stack = [(0, iter(self.succs(0)))]
        seen.add(0)
        while stack:
            b, it = stack[-1]
            adv = False
            for s in it:
                if s not in seen:
                    seen.add(s)
                    stack.append((s, iter(self.succs(s))))
                    adv = True
                    break
            if not adv:
                order.append(b)
                stack.pop()
        order.reverse()
        return order

    def dominators(self):
        """idom dict (entry maps to itself)"""
        if self._dom is None:
            self._dom = _idoms([0], self.rpo(), self.preds)
        return self._dom

    def dominates(self, a, b):
        """block a dominates block b"""
        idom = self.dominators()
        if b not in idom:
            return False
        while True:
            if a == b:
                return True
            nb = idom.get(b)
            if nb is None or nb == b:
                return False
            b = nb

    def return_blocks(self):
        return [i for i in self.reachable() if self.term(i)["k"] == "return"]

    def exit_blocks(self):
        """blocks with no normal successor (return, diverging call, unreachable, resume)"""
        return [i for i in self.reachable() if not self.succs(i)]

    def postdominators(self, exits=None):
        """ipdom dict relative to a virtual exit (-1) joined to `exits` (default: return blocks)."""
        if exits is None:
            exits = self.return_blocks()
        exits = list(exits)
        n = len(self.blocks)
        # reversed graph from virtual exit -1
        rsucc = lambda b: exits if b == -1 else self.preds(b)  # noqa: E731
        rpred = lambda b: ([-1] if b in exits else []) + [  # noqa: E731
            s for s in self.succs(b)
        ]
        # rpo on reversed graph
        seen = {-1}
        order = []
        stack = [(-1, iter(rsucc(-1)))]
        while stack:
            b, it = stack[-1]
            adv = False
            for s in it:
                if s not in seen:
                    seen.add(s)
                    stack.append((s, iter(rsucc(s))))
                    adv = True
                    break
            if not adv:
                order.append(b)
                stack.pop()
        order.reverse()
        pd = _idoms([-1], order, lambda b: [p for p in rpred(b) if p in seen])
        return pd

    def postdominates(self, a, b, pd=None):
        """a post-dominates b w.r.t. return exits"""
        if pd is None:
            pd = self.postdominators()
        if b not in pd:
            return False
        while True:
            if a == b:
                return True
            nb = pd.get(b)
            if nb is None or nb == b or nb == -1:
                return a == nb
            b = nb

    def reach_from(self, start, avoid=()):
        """blocks reachable from block `start` (inclusive) without entering `avoid` blocks"""
        avoid = set(avoid)
        seen = set()
        st = [start]
        while st:
            b = st.pop()
            if b in seen or b in avoid:
                continue
            seen.add(b)
            st.extend(self.succs(b))
        return seen

    def dominated_by(self, a):
        return {b for b in self.reachable() if self.dominates(a, b)}

    def loops_headers(self):
        """back edge targets"""
        hs = set()
        for b in self.reachable():
            for s in self.succs(b):
                if self.dominates(s, b):
                    hs.add(s)
        return hs

    # ------------------------------------------------------------------ def-use
    def defs(self):
        """local -> list of (bb, idx|'t', kind, payload) for whole-local definitions
        (assign with empty projection, call destination with empty projection)."""
        if self._defs is None:
            d = defaultdict(list)
            for bi, b in enumerate(self.blocks):
                for si, st in enumerate(b["s"]):
                    if st["k"] == "assign":
                        p = st["p"]
                        if not proj(p):
                            d[p["l"]].append((bi, si, "assign", st["rv"]))
                        else:
                            d[p["l"]].append((bi, si, "partial", st))
                    elif st["k"] == "setdiscr":
                        d[st["p"]["l"]].append((bi, si, "partial", st))
                t = b["t"]
                if t["k"] == "call":
                    p = t["dest"]
                    if not proj(p):
                        d[p["l"]].append((bi, "t", "call", t))
                    else:
                        d[p["l"]].append((bi, "t", "partial", t))
            self._defs = d
        return self._defs

    def single_def(self, local):
        ds = [x for x in self.defs().get(local, []) if x[2] != "partial"]
        if len(ds) == 1:
            return ds[0]
        return None

    def calls(self):
        for bi in sorted(self.reachable()):
            t = self.blocks[bi]["t"]
            if t["k"] == "call":
                yield bi, t

    def all_rvalues(self):
        for bi in sorted(self.reachable()):
            for si, st in enumerate(self.blocks[bi]["s"]):
                if st["k"] == "assign":
                    yield bi, si, st

    def local_ty(self, l):
        return self.locals[l]["ty"]

    def local_adt(self, l):
        return self.locals[l].get("adt")

    def local_name(self, l):
        return self.locals[l].get("n")

    def place_ty(self, p):
        """best-effort type string of a place: type of the last field projection (deref peels one `&`),
        or the local's type"""
        pr = proj(p)
        ty = self.local_ty(p["l"])
        for e in pr:
            if e == "*":
                if ty is None:
                    continue
                t = ty.strip()
                if t.startswith("&mut "):
                    ty = t[5:]
                elif t.startswith("&"):
                    # strip a lifetime if present
                    t = t[1:].lstrip()
                    if t.startswith("'"):
                        t = t.split(" ", 1)[1] if " " in t else t
                    ty = t
                elif t.startswith("alloc::boxed::Box<"):
                    ty = t[len("alloc::boxed::Box<"):-1]
                else:
                    ty = None
            elif isinstance(e, dict) and "ty" in e:
                ty = e["ty"]
            elif isinstance(e, dict) and "dc" in e:
                continue
            else:
                ty = None
        return ty

    def line_of(self, bb, idx="t"):
        if idx == "t":
            return self.blocks[bb]["t"].get("ln")
        return self.blocks[bb]["s"][idx].get("ln")


def _idoms(roots, order, preds_fn):
    """Cooper–Harvey–Kennedy; `order` is reverse post-order starting with root."""
    idx = {b: i for i, b in enumerate(order)}
    idom = {}
    for r in roots:
        idom[r] = r
    changed = True
    while changed:
        changed = False
        for b in order:
            if b in roots:
                continue
            new = None
            for p in preds_fn(b):
                if p in idom and p in idx:
                    if new is None:
                        new = p
                    else:
                        # intersect
                        f1, f2 = p, new
                        while f1 != f2:
                            while idx[f1] > idx[f2]:
                                f1 = idom[f1]
                            while idx[f2] > idx[f1]:
                                f2 = idom[f2]
                        new = f1
            if new is not None and idom.get(b) != new:
                idom[b] = new
                changed = True
    return idom


def callee_name(t):
    """resolved callee if available, else as written; normalised"""
    r = t.get("r") or t.get("f")
    return norm_name(r) if r else None


def callee_written(t):
    f = t.get("f")
    return norm_name(f) if f else None


class Program:
    def __init__(self, crates, config="default"):
        self.config = config
        self.crates = crates
        self.fns = {}
        self.by_norm = defaultdict(list)
        self.adts = {}
        self.ext_adts = {}
        self.consts = {}
        self.statics = {}
        for cname, c in crates.items():
            for name, j in c["fns"].items():
                f = Fn(self, c["crate"], name, j)
                self.fns[name] = f
                self.by_norm[f.norm].append(f)
            self.adts.update(c["adts"])
            for k, v in c.get("ext_adts", {}).items():
                self.ext_adts.setdefault(k, v)
            self.consts.update(c["consts"])
            self.statics.update(c.get("statics", {}))
        self._cg = None
        self._rcg = None
        self._children = None
        self.transparent = []
        self.adopted = {}
        # functions that the reviewed tree does not have are analysed inlined into their callers (kq/inline.py)
        from .inline import normalise
        normalise(self)

    # ---------------------------------------------------------------- lookup
    def fn(self, norm):
        """exactly one function with this normalised name; Broken if the anchor is missing"""
        l = self.by_norm.get(norm)
        if not l:
            raise Broken("anchor function not found in facts: %s (config %s)" % (norm, self.config))
        if len(l) > 1:
            # bin + lib duplicates etc.: prefer library crate
            l2 = [f for f in l if f.crate != "kanata"]
            if len(l2) == 1:
                return l2[0]
            raise Broken("anchor function ambiguous: %s (%d defs)" % (norm, len(l)))
        return l[0]

    def fn_opt(self, norm):
        l = self.by_norm.get(norm)
        if not l:
            return None
        return l[0]

    def fns_matching(self, regex):
        r = re.compile(regex)
        return [f for f in self.fns.values() if r.search(f.norm)]

    def adt(self, name):
        a = self.adts.get(name)
        if a is None:
            raise Broken("anchor ADT not found in facts: %s" % name)
        return a

    def enum_variants(self, name):
        a = self.adts.get(name) or self.ext_adts.get(name)
        if a is None:
            raise Broken("enum not found: %s" % name)
        return {v["discr"]: v["name"] for v in a["variants"]}

    def variant_by_discr(self, adt, d):
        a = self.adts.get(adt) or self.ext_adts.get(adt)
        if a is None:
            return None
        for v in a["variants"]:
            if v["discr"] == d:
                return v["name"]
        return None

    def const(self, name):
        c = self.consts.get(name)
        if c is None or "v" not in c:
            raise Broken("anchor const not found / not scalar: %s" % name)
        return c["v"]

    def closures_of(self, fn, transitive=True):
        """closures whose typeck root (transitive) or immediate parent is fn"""
        if self._children is None:
            self._children = defaultdict(list)
            self._ichildren = defaultdict(list)
            for f in self.fns.values():
                if f.kind == "closure":
                    self._children[norm_name(f.parent)].append(f)
                    self._ichildren[norm_name(f.iparent)].append(f)
        table = self._children if transitive else self._ichildren
        out = list(table.get(fn.norm, []))
        for g in self.adopted.get(fn.norm, ()):      # closures of helpers that were inlined into fn
            out.extend(self._children.get(g, []))
        return out

    # ---------------------------------------------------------------- call graph
    def callgraph(self):
        """norm name -> set of norm names (only functions present in facts). Edges: resolved
        calls, closure creation, fn items mentioned as constants (passed as values)."""
        if self._cg is None:
            cg = defaultdict(set)
            for f in self.fns.values():
                outs = cg[f.norm]
                for b in f.blocks:
                    t = b["t"]
                    if t["k"] == "call":
                        for nm in (t.get("r"), t.get("f")):
                            if nm:
                                n = norm_name(nm)
                                if n in self.by_norm:
                                    outs.add(n)
                        for a in t["args"]:
                            self._fn_const_edges(a, outs)
                    for st in b["s"]:
                        if st["k"] == "assign":
                            rv = st["rv"]
                            if rv["k"] == "agg" and "clo" in rv:
                                n = norm_name(rv["clo"])
                                if n in self.by_norm:
                                    outs.add(n)
                            for o in rvalue_operands(rv):
                                self._fn_const_edges(o, outs)
            self._cg = cg
        return self._cg

    def _fn_const_edges(self, o, outs):
        if is_const(o):
            for key in ("rfn", "fn"):
                nm = o["c"].get(key)
                if nm:
                    n = norm_name(nm)
                    if n in self.by_norm:
                        outs.add(n)

    def reachable_from(self, roots, stop=()):
        cg = self.callgraph()
        stop = set(stop)
        seen = set()
        dq = deque(roots)
        while dq:
            n = dq.popleft()
            if n in seen or n in stop:
                continue
            seen.add(n)
            for m in cg.get(n, ()):
                if m not in seen:
                    dq.append(m)
        return seen

    def callers_of(self, norm):
        if self._rcg is None:
            r = defaultdict(set)
            for a, outs in self.callgraph().items():
                for b in outs:
                    r[b].add(a)
            self._rcg = r
        return self._rcg.get(norm, set())

    def call_sites(self, callee_norm, within=None):
        """(fn, bb, term) for every call whose resolved-or-written callee == callee_norm"""
        out = []
        fns = within if within is not None else self.fns.values()
        for f in fns:
            for bi, t in f.calls():
                if callee_name(t) == callee_norm or callee_written(t) == callee_norm:
                    out.append((f, bi, t))
        return out


def rvalue_operands(rv):
    k = rv["k"]
    if k in ("use", "cast", "un", "repeat"):
        return [rv["a"]]
    if k == "bin":
        return [rv["a"], rv["b"]]
    if k == "agg":
        return rv["ops"]
    if k in ("ref", "rawptr", "discr"):
        return [rv["p"]]
    return []


IDENTITY_CALLS = (
    # trait methods as written (callee "f") — value-preserving / same-object conversions
    "core::clone::Clone::clone",
    "core::clone::impls::clone",
    "core::convert::Into::into",
    "core::convert::From::from",
    "core::convert::num::from",
    "core::convert::AsRef::as_ref",
    "core::borrow::Borrow::borrow",
    "core::ops::deref::Deref::deref",
    "core::ops::deref::DerefMut::deref_mut",
    "core::option::Option::as_ref",
    "core::option::Option::as_mut",
    "core::option::Option::as_deref",
    "core::option::Option::copied",
    "core::option::Option::cloned",
    "core::iter::traits::collect::IntoIterator::into_iter",
)


class Resolver:
    """Follow single-assignment temporaries back to a root operand within one function.

    root(op) returns a *trace*: list of steps; the last step is the root:
      ('param', local) | ('const', operand) | ('call', bb, term) | ('place', place) | ('multi', local)
      | ('agg', rv) | ('bin', rv) | ('cast', rv) ...
    Accumulated projections (fields read on the way) are kept in `fields`.
    """

    def __init__(self, fn, identity_calls=IDENTITY_CALLS, through_casts=True):
        self.fn = fn
        self.identity = set(norm_name(x) for x in identity_calls)
        self.through_casts = through_casts

    def root(self, op, depth=0):
        """returns (kind, payload, fields) where fields = list of (adt,variant,field) projections seen"""
        fields = []
        seen = set()
        while True:
            if is_const(op):
                return ("const", op, fields)
            if not is_place(op):
                return ("unknown", op, fields)
            fields = proj_fields(op) + fields
            l = op["l"]
            if l in seen:
                return ("multi", l, fields)
            seen.add(l)
            if 1 <= l <= self.fn.nargs:
                whole = [x for x in self.fn.defs().get(l, []) if x[2] != "partial"]
                if not whole:
                    return ("param", l, fields)
            d = self.fn.single_def(l)
            if d is None:
                if not [x for x in self.fn.defs().get(l, []) if x[2] != "partial"]:
                    return ("undef", l, fields)
                return ("multi", l, fields)
            bb, idx, kind, payload = d
            if kind == "assign":
                rv = payload
                k = rv["k"]
                if k == "use":
                    op = rv["a"]
                    continue
                if k == "ref" or k == "rawptr":
                    op = rv["p"]
                    continue
                if k == "cast" and self.through_casts:
                    op = rv["a"]
                    continue
                return (k, (bb, idx, rv), fields)
            if kind == "call":
                t = payload
                cn = callee_written(t) or ""
                rn = callee_name(t) or ""
                if (cn in self.identity or rn in self.identity) and t["args"]:
                    op = t["args"][0]
                    continue
                return ("call", (bb, t), fields)
            return ("unknown", op, fields)
