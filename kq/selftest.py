"""Checker self-validation (thorough tier): every rule must fire on its seeded mutants, and the property's check must stay
silent on the behaviour-preserving refactorings kept under refactorings/ (entries whose `expect` is "SILENT").
A mutant = a patch that compiles, passes kanata's own tests and breaks one rule instance. For each mutant
of the property under check: copy /repo to a scratch directory outside /repo and /verif, apply the patch,
extract facts, run the property's quick check, and require a violation whose key contains the expected
text. A mutant that is not detected is a *machinery failure* (exit 2), never a property verdict."""
import concurrent.futures as cf
import json
import os
import re
import shutil
import subprocess
import tempfile

from .facts import VERIF, REPO, Broken


def load_expect():
    with open(os.path.join(VERIF, "selftest", "expect.json")) as fh:
        return json.load(fh)


def _one(m, pid):
    d = tempfile.mkdtemp(prefix="kself-", dir=os.environ.get("KFACTS_TMP", "/tmp"))
    try:
        subprocess.run(["rsync", "-a", "--exclude", "target", "--exclude", ".git", REPO.rstrip("/") + "/", d + "/"], check=True)
        patch = os.path.join(VERIF, m["patch"])
        r = subprocess.run(["patch", "-p1", "-s", "-i", patch], cwd=d, stdout=subprocess.PIPE, stderr=subprocess.STDOUT, text=True)
        if r.returncode != 0:
            return m["id"], "patch-failed", r.stdout[-300:]
        env = dict(os.environ, KANATA_REPO=d, KQ_EVIDENCE_DIR=os.path.join(d, ".evid"), VERIF_TIER="quick")
        r = subprocess.run([os.path.join(VERIF, "check"), pid, "--tier", "quick"], env=env, cwd=VERIF,
                           stdout=subprocess.PIPE, stderr=subprocess.STDOUT, text=True)
        keys = re.findall(r"^\s+key=(\S.*)$", r.stdout, re.M)
        if m["expect"] == "SILENT":
            # a behaviour-preserving refactoring: any violation or lost anchor is a false alarm of the checker
            if r.returncode == 0 and not keys and "BROKEN" not in r.stdout:
                return m["id"], "silent", ""
            return m["id"], "false-alarm", "rc=%d keys=%s %s" % (r.returncode, keys[:3], (re.findall(r"BROKEN.*", r.stdout) or [""])[0][:160])
        if "BROKEN" in r.stdout:
            return m["id"], "broken", r.stdout[-400:]
        hit = [k for k in keys if m["expect"] in k]
        if r.returncode == 1 and hit:
            return m["id"], "detected", hit[0]
        return m["id"], "missed", "rc=%d keys=%s" % (r.returncode, keys[:3])
    finally:
        shutil.rmtree(d, ignore_errors=True)


def run(pid, workers=4):
    ms = [m for m in load_expect() if m["property"] == pid]
    out = {"selftest_mutants": len(ms), "selftest_detected": 0, "selftest_results": []}
    if not ms:
        return out
    with cf.ThreadPoolExecutor(max_workers=workers) as ex:
        for mid, status, info in ex.map(lambda m: _one(m, pid), ms):
            out["selftest_results"].append({"mutant": mid, "status": status, "info": info[:200]})
            if status == "detected":
                out["selftest_detected"] += 1
            if status == "silent":
                out["selftest_silent_on_refactorings"] = out.get("selftest_silent_on_refactorings", 0) + 1
    bad = [r for r in out["selftest_results"] if r["status"] not in ("detected", "silent")]
    if bad:
        raise Broken("checker self-test failed for %s: %s" % (pid, bad))
    return out
