"""Transparent helpers: functions that are not in the reviewed inventory are analysed in the context of their callers.

Every rule of this checker was written against, and reviewed on, a named set of functions (kq/known_fns.json: every
function of the kanata crates in the four build configurations of the reviewed tree). A later change that moves part of
such a function into a new helper (`extract function`, by far the commonest refactoring) does not change behaviour, but
it would hide the moved code from every rule that reads the original function: the loop, the guard or the call the rule
looks for is now one call away. Rules are not taught about each possible helper; instead the program model is
normalised before any rule runs:

  a function of the kanata crates whose name is not in the inventory is a *transparent helper*; every direct call of it
  is replaced by its body (MIR inlining on the fact level: callee locals and blocks are appended with renumbering, the
  arguments become assignments to the callee's parameter locals, each `return` becomes an assignment of the callee's
  return local to the call's destination followed by a jump to the call's target). The helper itself then no longer
  appears as a function of its own when every call of it was inlined.

Inlining is semantics-preserving, so a rule that holds / fails on the inlined body holds / fails for the program. Source
lines of inlined statements are the helper's own, so reports still point at the right place. Recursive helpers, helpers
used as function values, closures and helpers reached only through dynamic dispatch are left as they are.

On the reviewed tree the set of transparent helpers is empty and the model is exactly what the driver exported.
"""
import copy
import json
import os

from .core import Fn, norm_name

INVENTORY = os.path.join(os.path.dirname(os.path.abspath(__file__)), "known_fns.json")
MAX_BLOCKS = 6000


_INV = {}


def load_inventory():
    try:
        with open(INVENTORY) as fh:
            j = json.load(fh)
    except FileNotFoundError:
        return None
    _INV["signatures"] = j.get("signatures", {})
    _INV["configs"] = j.get("configs", {})
    return set(j["functions"])


def _rename_all(o, old, new):
    """replace the function name `old` by `new` wherever a fact names a function (callee as written / resolved, fn items,
    closure parents)"""
    if isinstance(o, dict):
        for k, v in o.items():
            if isinstance(v, str):
                if k in ("f", "r", "fn", "rfn", "parent", "iparent", "clo") and v.startswith(old) and (len(v) == len(old) or v[len(old)] == ":"):
                    o[k] = new + v[len(old):]
            elif isinstance(v, (dict, list)):
                _rename_all(v, old, new)
    elif isinstance(o, list):
        for v in o:
            if isinstance(v, (dict, list)):
                _rename_all(v, old, new)


def resolve_renames(prog, known):
    """A reviewed function that is gone while a function unknown to the inventory with the *same signature* exists in the
    *same impl / module* - and there is exactly one such pair there - has been renamed. The facts are rewritten to the
    reviewed name, so that rules that address the function by name still find it (reports show the reviewed name and
    the new source lines). Anything less clear-cut is left alone: the missing anchor is then reported as such."""
    sigs, cfgs = _INV.get("signatures", {}), _INV.get("configs", {})
    if not sigs:
        return {}
    present = set(prog.by_norm)
    missing = [k for k in known if k not in present and prog.config in cfgs.get(k, ()) and "{closure" not in k]
    if not missing:
        return {}
    unknown = [f for f in prog.fns.values() if f.kind != "closure" and f.crate.startswith("kanata") and f.norm not in known
               and len(prog.by_norm[f.norm]) == 1]
    renamed = {}
    for k in missing:
        parent = k.rsplit("::", 1)[0]
        same_parent_missing = [m for m in missing if m.rsplit("::", 1)[0] == parent and sigs.get(m) == sigs.get(k)]
        cands = [f for f in unknown if f.norm.rsplit("::", 1)[0] == parent
                 and [f.locals[0]["ty"], [f.locals[i]["ty"] for i in range(1, f.nargs + 1)]] == sigs.get(k)]
        if len(cands) == 1 and len(same_parent_missing) == 1:
            renamed[cands[0].norm] = k
    for new_norm, old_norm in renamed.items():
        f = prog.by_norm[new_norm][0]
        old_full = f.name
        # the reviewed name with the generic arguments of the new one: replace the last path segment
        new_full = old_full.rsplit("::", 1)[0] + "::" + old_norm.rsplit("::", 1)[1]
        for g in prog.fns.values():
            _rename_all(g.j["blocks"], old_full, new_full)
            for pb in g.j.get("promoted", []) or []:
                _rename_all(pb.get("blocks", []), old_full, new_full)
            for key in ("parent", "iparent"):
                v = g.j.get(key)
                if isinstance(v, str) and v.startswith(old_full) and (len(v) == len(old_full) or v[len(old_full)] == ":"):
                    g.j[key] = new_full + v[len(old_full):]
        # re-key the function and its closures
        for name in [n for n in list(prog.fns) if n == old_full or n.startswith(old_full + "::")]:
            g = prog.fns.pop(name)
            nn = new_full + name[len(old_full):]
            ng = Fn(prog, g.crate, nn, g.j)
            prog.fns[nn] = ng
            lst = prog.by_norm.get(g.norm, [])
            if g in lst:
                lst.remove(g)
                if not lst:
                    del prog.by_norm[g.norm]
            prog.by_norm[ng.norm].append(ng)
    prog._cg = prog._rcg = prog._children = None
    return renamed


def _shift(o, loff, poff):
    """renumber locals (`l`, `ix`) and promoted indices in a statement / terminator tree, in place"""
    if isinstance(o, dict):
        if "l" in o and isinstance(o["l"], int):
            o["l"] += loff
        if "ix" in o and isinstance(o["ix"], int):
            o["ix"] += loff
        if "promoted" in o and isinstance(o["promoted"], int):
            o["promoted"] += poff
        for k, v in o.items():
            if isinstance(v, (dict, list)):
                _shift(v, loff, poff)
    elif isinstance(o, list):
        for v in o:
            if isinstance(v, (dict, list)):
                _shift(v, loff, poff)


def _shift_targets(t, boff):
    k = t["k"]
    if k in ("goto", "drop", "assert"):
        t["t"] += boff
    elif k == "call":
        if t["t"] is not None:
            t["t"] += boff
    elif k == "switch":
        t["ts"] = [[v, tb + boff] for v, tb in t["ts"]]
        t["o"] += boff
    elif k == "other":
        t["succ"] = [x + boff for x in t.get("succ", [])]


def _callee(prog, t, helpers):
    for nm in (t.get("r"), t.get("f")):
        if nm:
            n = norm_name(nm)
            if n in helpers:
                return n
    return None


def inline_json(prog, f, helpers, memo, stack=()):
    """JSON body of f with every direct call of a transparent helper replaced by the helper's body; returns
    (json, [names inlined]) - the original json object when nothing was inlined"""
    if f.name in memo:
        return memo[f.name]
    sites = [(bi, _callee(prog, b["t"], helpers)) for bi, b in enumerate(f.j["blocks"]) if b["t"]["k"] == "call"]
    sites = [(bi, g) for bi, g in sites if g is not None and g not in stack and g != f.norm]
    if not sites:
        memo[f.name] = (f.j, [])
        return memo[f.name]
    j = copy.deepcopy(f.j)
    inl = []
    for bi, g in sites:
        gf = helpers[g]
        gj, sub = inline_json(prog, gf, helpers, memo, stack + (f.norm,))
        blk = j["blocks"][bi]
        t = blk["t"]
        if len(t["args"]) != gj["nargs"] or len(j["blocks"]) + len(gj["blocks"]) > MAX_BLOCKS:
            continue
        loff, boff, poff = len(j["locals"]), len(j["blocks"]), len(j.get("promoted", []))
        j["locals"].extend(copy.deepcopy(gj["locals"]))
        if gj.get("promoted"):
            j.setdefault("promoted", []).extend(copy.deepcopy(gj["promoted"]))
        src = {kk: t[kk] for kk in ("ln", "mac", "file") if kk in t}
        for i, a in enumerate(t["args"]):
            st = {"k": "assign", "p": {"l": loff + i + 1}, "rv": {"k": "use", "a": a}, "inl": g}
            st.update(src)
            blk["s"].append(st)
        dest, target = t["dest"], t["t"]
        for gb in copy.deepcopy(gj["blocks"]):
            _shift(gb["s"], loff, poff)
            gt = gb["t"]
            _shift(gt, loff, poff)
            if gt["k"] == "return":
                st = {"k": "assign", "p": copy.deepcopy(dest), "rv": {"k": "use", "a": {"l": loff, "mv": True}}, "inl": g}
                st.update({kk: gt[kk] for kk in ("ln", "mac", "file") if kk in gt})
                gb["s"].append(st)
                if target is None:
                    gb["t"] = dict(gt, k="unreachable")
                else:
                    gb["t"] = dict({kk: gt[kk] for kk in ("ln", "mac", "file") if kk in gt}, k="goto", t=target)
            else:
                _shift_targets(gt, boff)
            if blk.get("c"):
                gb["c"] = True
            gb.setdefault("of", g)       # the function this block was written in (innermost helper for nested inlining)
            j["blocks"].append(gb)
        nt = {"k": "goto", "t": boff, "inl": g}
        nt.update(src)
        blk["t"] = nt
        _thread_const_returns(prog, j, loff, range(boff, len(j["blocks"])))
        inl.append(g)
        inl.extend(sub)
    memo[f.name] = (j, inl)
    return memo[f.name]


def _thread_const_returns(prog, j, ret_local, callee_blocks):
    """`if helper() { A } else { B }` with `fn helper() -> bool { x && y }`: the helper's `return false` reaches the caller's
    test through a join (`_ret = false; dest = _ret; switch dest`), where the un-extracted code jumped straight to B. A
    path-insensitive rule sees a path `x is false -> A` that does not exist. The join is undone by tail duplication with
    constant propagation: a callee block that ends by storing a *constant* (a bool, or `Ok(c)` / `Some(c)` / `Err(..)` /
    `None`) into the return local gets its own copy of the caller's continuation for as long as the switches there are
    decided by that constant (through moves, `Try::branch`, discriminant reads and payload reads)."""
    blocks = j["blocks"]

    def discr_of(adt, variant):
        a = prog.adts.get(adt) or prog.ext_adts.get(adt)
        if a:
            for v in a["variants"]:
                if v["name"] == variant:
                    return v["discr"]
        return {"Ok": 0, "Err": 1, "None": 0, "Some": 1, "Continue": 0, "Break": 1}.get(variant)

    def const_of(o, env):
        if isinstance(o, dict) and "c" in o and isinstance(o["c"].get("v"), int) and o["c"].get("ty") == "bool":
            return ("bool", o["c"]["v"])
        if isinstance(o, dict) and "l" in o and not o.get("pr") and o["l"] in env:
            return env[o["l"]]
        return None

    for bi in list(callee_blocks):
        b = blocks[bi]
        if b["t"]["k"] == "call" and (b["t"].get("f") or "").endswith("FromResidual::from_residual") and b["t"].get("t") is not None \
                and not b["t"]["dest"].get("pr") and b["t"]["dest"].get("l") == ret_local:
            # `expr?` inside the helper: what from_residual writes into the return local is always the failure variant
            rty = (j["locals"][ret_local].get("ty") or "")
            adt, var = ("core::result::Result", "Err") if rty.startswith("core::result::Result<") else \
                       (("core::option::Option", "None") if rty.startswith("core::option::Option<") else (None, None))
            if adt is None:
                continue
            start_env = {ret_local: ("enum", adt, var, None)}
        elif b["t"]["k"] not in ("goto", "drop") or not b["s"]:
            continue
        else:
            start_env = None
        env = {}
        for st in b["s"]:           # values known at the end of the returning block
            if st["k"] != "assign" or st["p"].get("pr"):
                continue
            rv, l = st["rv"], st["p"]["l"]
            env.pop(l, None)
            if rv["k"] == "use":
                v = const_of(rv["a"], env)
                if v is not None:
                    env[l] = v
            elif rv["k"] == "agg" and rv.get("adt") in ("core::result::Result", "core::option::Option"):
                pay = const_of(rv["ops"][0], env) if rv["ops"] else None
                env[l] = ("enum", rv["adt"], rv["v"], pay)
        if start_env is not None:
            env = dict(start_env)
        if ret_local not in env:
            continue
        env = {ret_local: env[ret_local]}
        first_new = None
        prev = None          # (block json, key) whose jump is to be pointed at the next copy
        cur = b["t"]["t"]
        resolved = 0
        made = []
        final_target = None
        for _ in range(24):
            nb = blocks[cur]
            cp = {"s": [], "t": None}
            if nb.get("c"):
                cp["c"] = True
            if nb.get("of"):
                cp["of"] = nb["of"]
            okb = True
            for st in nb["s"]:
                cp["s"].append(copy.deepcopy(st))
                if st["k"] != "assign":
                    continue
                pl = st["p"]
                rv = st["rv"]
                if pl.get("pr"):
                    if pl["l"] in env:
                        env.pop(pl["l"])
                    continue
                l = pl["l"]
                env.pop(l, None)
                if rv["k"] == "use":
                    a = rv["a"]
                    v = const_of(a, env)
                    if v is None and isinstance(a, dict) and a.get("l") in env and env[a["l"]][0] == "enum":
                        # payload read: ((x as Variant).0)
                        pr = a.get("pr") or []
                        e = env[a["l"]]
                        if len(pr) == 2 and isinstance(pr[0], dict) and pr[0].get("dc") == e[2] and isinstance(pr[1], dict) and pr[1].get("i") == 0:
                            v = e[3]
                    if v is not None:
                        env[l] = v
                elif rv["k"] == "discr" and isinstance(rv["p"], dict) and not rv["p"].get("pr") and rv["p"]["l"] in env and env[rv["p"]["l"]][0] == "enum":
                    e = env[rv["p"]["l"]]
                    d = discr_of(e[1], e[2])
                    if d is not None:
                        env[l] = ("int", d)
            t = nb["t"]
            nxt = None
            if t["k"] == "goto" or (t["k"] == "drop" and not (isinstance(t.get("p"), dict) and t["p"].get("l") in env)):
                cp["t"] = copy.deepcopy(t)
                nxt = t["t"]
            elif t["k"] == "call" and t.get("t") is not None and (t.get("f") or "").endswith("Try::branch") and len(t["args"]) == 1 \
                    and isinstance(t["args"][0], dict) and t["args"][0].get("l") in env and not t["args"][0].get("pr") \
                    and env[t["args"][0]["l"]][0] == "enum" and not t["dest"].get("pr"):
                e = env[t["args"][0]["l"]]
                cp["t"] = copy.deepcopy(t)
                nxt = t["t"]
                if e[2] in ("Ok", "Some"):
                    env[t["dest"]["l"]] = ("enum", "core::ops::control_flow::ControlFlow", "Continue", e[3])
                else:
                    env[t["dest"]["l"]] = ("enum", "core::ops::control_flow::ControlFlow", "Break", None)
            elif t["k"] == "switch" and isinstance(t["d"], dict) and not t["d"].get("pr") and t["d"].get("l") in env \
                    and env[t["d"]["l"]][0] in ("bool", "int"):
                val = env[t["d"]["l"]][1]
                hit = [tb for v, tb in t["ts"] if v == val]
                tgt = hit[0] if hit else t["o"]
                cp["t"] = dict({kk: t[kk] for kk in ("ln", "mac", "file") if kk in t}, k="goto", t=tgt)
                nxt = tgt
                resolved += 1
                final_target = tgt
            else:
                okb = False
            if not okb:
                break
            made.append((cp, cur))
            cur = nxt
            if not any(v for v in env.values()):
                break
        # keep the copies up to and including the last resolved switch
        while made and not (made[-1][0]["t"]["k"] == "goto" and blocks[made[-1][1]]["t"]["k"] == "switch"):
            made.pop()
        if not made or not resolved:
            continue
        base = len(blocks)
        for i, (cp, orig) in enumerate(made):
            if i + 1 < len(made):
                # point this copy at the next copy instead of the original successor
                tt = cp["t"]
                tt["t"] = base + i + 1
            blocks.append(cp)
        b["t"] = dict(b["t"], t=base)


def normalise(prog):
    """replace, in prog, every caller of a transparent helper by its inlined view; hide helpers that were inlined
    everywhere. Returns the sorted list of helper names (empty on the reviewed tree)."""
    known = load_inventory()
    prog.transparent = []
    prog.renamed = {}
    prog.inventory_missing = known is None
    if known is None:
        return []
    prog.renamed = resolve_renames(prog, known)
    helpers = {}
    for f in prog.fns.values():
        if f.kind == "closure" or not f.crate.startswith("kanata") or f.derive or f.norm in known:
            continue
        if "::tests::" in f.norm or f.norm.endswith("::tests"):
            continue
        if len(prog.by_norm[f.norm]) != 1:
            continue
        helpers[f.norm] = f
    if not helpers:
        return []
    # helpers used as values (fn items passed around) cannot be inlined at their use: keep those visible
    as_value = set()
    for f in prog.fns.values():
        for b in f.j["blocks"]:
            for o in _consts(b):
                for key in ("rfn", "fn"):
                    nm = o.get(key)
                    if nm and norm_name(nm) in helpers:
                        as_value.add(norm_name(nm))
    memo = {}
    remaining_calls = set()
    for name in list(prog.fns):
        f = prog.fns[name]
        j, inl = inline_json(prog, f, helpers, memo)
        if inl:
            nf = Fn(prog, f.crate, f.name, j)
            nf.inlined = sorted(set(inl))
            prog.fns[name] = nf
            lst = prog.by_norm[f.norm]
            lst[lst.index(f)] = nf
        for b in j["blocks"]:
            if b["t"]["k"] == "call":
                g = _callee(prog, b["t"], helpers)
                if g and f.norm not in helpers:
                    remaining_calls.add(g)
    hidden = []
    for g, gf in helpers.items():
        if g in as_value or g in remaining_calls:
            continue
        callers = [f for f in prog.fns.values() if g in getattr(f, "inlined", ())]
        if not callers:
            continue          # never called directly (entry point, trait method called dynamically): stays a function
        hidden.append(g)
        del prog.fns[gf.name]
        del prog.by_norm[g]
        # closures defined in the helper now belong to the callers
        prog.adopted = getattr(prog, "adopted", {})
        for c in callers:
            prog.adopted.setdefault(c.norm, set()).add(g)
    prog._cg = prog._rcg = prog._children = None
    prog.transparent = sorted(hidden)
    return prog.transparent


def _consts(b):
    st = [b]
    while st:
        o = st.pop()
        if isinstance(o, dict):
            c = o.get("c")
            if isinstance(c, dict):
                yield c
            st.extend(v for v in o.values() if isinstance(v, (dict, list)))
        elif isinstance(o, list):
            st.extend(v for v in o if isinstance(v, (dict, list)))
