"""Rule results, known-findings matching, evidence writing, verdict lines."""
import hashlib
import json
import re
import os
import time

from .facts import VERIF, Broken

EVID = os.environ.get("KQ_EVIDENCE_DIR") or os.path.join(VERIF, "evidence")
KNOWN = os.path.join(VERIF, "known_findings.jsonl")


def norm_key(k):
    """closure ordinals are positional: `f::{closure#3}` -> `f::{closure}` so that an unrelated closure added
    earlier in the same function does not turn a listed finding into a new one"""
    return re.sub(r"\{closure#\d+\}", "{closure}", k)


class RuleResult:
    """One rule run. instances: what was examined (list of dicts with 'key' and free fields),
    violations: list of dicts {key, where, explain, rule}; floor: minimum #instances."""

    def __init__(self, rule, clause, floor=1):
        self.rule = rule
        self.clause = clause
        self.floor = floor
        self.instances = []
        self.violations = []
        self.notes = []
        self.functions = set()
        self.obligations = 0
        self.discharged = 0

    def inst(self, key, **kw):
        d = {"key": key}
        d.update(kw)
        self.instances.append(d)
        return d

    def viol(self, key, where, explain, **kw):
        d = {"rule": self.rule, "key": norm_key("%s|%s" % (self.rule, key)), "where": where, "explain": explain}
        d.update(kw)
        self.violations.append(d)
        return d

    def oblige(self, ok):
        self.obligations += 1
        if ok:
            self.discharged += 1

    def fn(self, f):
        self.functions.add(f.norm if hasattr(f, "norm") else str(f))

    def check_floor(self):
        if len(self.instances) < self.floor:
            raise Broken(
                "rule %s examined %d instances, below its floor %d — the analysis lost sight of "
                "the code it is meant to check" % (self.rule, len(self.instances), self.floor)
            )


def load_known():
    out = []
    if os.path.exists(KNOWN):
        with open(KNOWN) as fh:
            for line in fh:
                line = line.strip()
                if line and not line.startswith("#"):
                    out.append(json.loads(line))
    return out


def finish(prop, tier, results, t0, explanation, not_decided, level="other", configs=("default",),
           extra_cov=None, assumptions=None, seed=0):
    """Write evidence, print verdict lines, return exit code."""
    known = [k for k in load_known() if k.get("property") == prop]
    known_keys = {norm_key(k["key"]): k for k in known if k.get("status") == "known"}
    for r in results:
        r.check_floor()
    all_v = []
    seen_keys = set()
    for r in results:
        for v in r.violations:
            if v["key"] in seen_keys:
                continue
            seen_keys.add(v["key"])
            all_v.append(v)
    unlisted = [v for v in all_v if v["key"] not in known_keys]
    listed = [v for v in all_v if v["key"] in known_keys]
    os.makedirs(os.path.join(EVID, "violations"), exist_ok=True)
    for old in os.listdir(os.path.join(EVID, "violations")):
        if old.startswith(prop + "-") and old.endswith(".json"):
            os.remove(os.path.join(EVID, "violations", old))     # replay files describe the latest run only
    lines = []
    for v in listed:
        lines.append("KNOWN-FINDING: property=%s %s [%s]" % (prop, known_keys[v["key"]]["what"], v["key"]))
    for v in unlisted:
        h = hashlib.sha1(v["key"].encode()).hexdigest()[:10]
        path = os.path.join(EVID, "violations", "%s-%s.json" % (prop, h))
        with open(path, "w") as fh:
            json.dump(dict(v, property=prop, tier=tier), fh, indent=1)
        print("  violation: rule=%s at %s\n    key=%s\n    %s" % (v["rule"], v["where"], v["key"], v["explain"]))
        lines.append("VIOLATION property=%s replay=%s" % (prop, path))
    n_inst = sum(len(r.instances) for r in results)
    keys = set()
    for r in results:
        for i in r.instances:
            keys.add(r.rule + "|" + str(i["key"]))
    samples = []
    for r in results:
        for i in r.instances[:3]:
            samples.append(dict(i, rule=r.rule))
    obligations = sum(r.obligations for r in results)
    discharged = sum(r.discharged for r in results)
    funcs = set()
    for r in results:
        funcs |= r.functions
    cov = {
        "explanation": explanation,
        "not_decided": not_decided,
        "evaluations": max(n_inst, 1),
        "distinct_nontrivial": len(keys),
        "rule": "one evaluation = one rule instance (a construct of /repo's type-checked program "
                "examined by a rule); distinct = distinct stable instance keys; an instance is "
                "non-trivial because every rule only enumerates constructs that bear on its clause",
        "samples": samples[:40],
        "rules": [
            {
                "rule": r.rule,
                "clause": r.clause,
                "instances": len(r.instances),
                "floor": r.floor,
                "violations": len(r.violations),
                "obligations": r.obligations,
                "discharged": r.discharged,
                "notes": r.notes[:20],
            }
            for r in results
        ],
        "functions_analysed": sorted(funcs)[:400],
        "functions_analysed_count": len(funcs),
        "configs": list(configs),
        "known_findings_matched": [v["key"] for v in listed],
        "trusted_base": [
            "rustc (nightly) type checking and MIR construction at -Zmir-opt-level=0",
            "kfacts serialisation of MIR/ADT/const facts",
            "semantics of the std/arraydeque/heapless methods named in the rules",
        ],
    }
    if obligations:
        cov["obligations"] = obligations
        cov["discharged"] = discharged
        cov["checker_cmd"] = "./check %s --tier %s" % (prop, tier)
    if extra_cov:
        cov.update(extra_cov)
    ev = {
        "property_id": prop,
        "tier": tier,
        "seed": seed,
        "level": level,
        "coverage": cov,
        "assumptions": assumptions or [],
        "wall_s": round(time.time() - t0, 2),
        "violations": len(unlisted),
    }
    os.makedirs(EVID, exist_ok=True)
    with open(os.path.join(EVID, prop + ".json"), "w") as fh:
        json.dump(ev, fh, indent=1, sort_keys=False)
    for r in results:
        print("  rule %-22s instances=%-4d floor=%-3d violations=%d%s" % (
            r.rule, len(r.instances), r.floor, len(r.violations),
            (" obligations=%d discharged=%d" % (r.obligations, r.discharged)) if r.obligations else ""))
    for ln in lines:
        print(ln)
    if unlisted:
        return 1
    print("OK property=%s tier=%s instances=%d" % (prop, tier, n_inst))
    return 0
