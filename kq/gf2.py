"""gf2: forward data-flow used to discharge partial operations (index, subtraction, division, shift).

Abstract state at a program point:
   iv  : key -> IS (interval set of integers), absent = unconstrained
   rel : set of ('LT', a, b)  value(a) <  value(b)
                ('LE', a, b)  value(a) <= value(b)
                ('EQLEN', k, lenkey)   k holds the length denoted by lenkey
                ('RANGE', k, startkey|None, endkey|None, start_iv, end_iv)  k is a Range{start,end} value
                ('ITER', k, lenkey)    k iterates (possibly enumerated) over the container lenkey
   keys: ('L', n) whole local; ('P', 'placestr') projected place; ('LEN', desc) length of container `desc`.
Container descriptions come from root_desc(): a canonical string for the place an operand denotes after
following single-assignment temporaries, borrows, derefs and identity-like calls.
"""
import re

from .core import (
    callee_name, callee_written, const_val, is_const, is_place, norm_name, place_str, proj,
)
from .guardflow import CMP, INF, IS, NEG, SWAP, ty_range

LEN_CALLS = {
    "core::slice::len", "alloc::vec::Vec::len", "core::str::len", "heapless::vec::Vec::len",
    "arraydeque::ArrayDeque::len", "alloc::string::String::len",
    "core::iter::traits::exact_size::ExactSizeIterator::len",
}
EMPTY_CALLS = {
    "core::slice::is_empty", "alloc::vec::Vec::is_empty", "core::str::is_empty", "alloc::string::String::is_empty",
    "heapless::vec::Vec::is_empty", "arraydeque::ArrayDeque::is_empty",
}
# calls whose result denotes the same container / value as their first argument
SAME_OBJECT = {
    "core::ops::deref::Deref::deref", "core::ops::deref::DerefMut::deref_mut", "core::convert::AsRef::as_ref",
    "core::borrow::Borrow::borrow", "core::clone::Clone::clone", "core::clone::impls::clone",
    "alloc::vec::Vec::as_slice", "alloc::vec::Vec::as_mut_slice", "core::convert::Into::into",
    "core::convert::From::from", "core::convert::num::from", "alloc::slice::to_vec",
    "core::iter::traits::collect::IntoIterator::into_iter",
}
ITER_CALLS = {"core::slice::iter", "core::slice::iter_mut", "arraydeque::ArrayDeque::iter", "heapless::vec::Vec::iter"}
ITER_ADAPT_KEEP = {  # adaptors that keep "index < len(source)" for enumerate, or element count
    "core::iter::traits::iterator::Iterator::enumerate", "core::iter::traits::iterator::Iterator::copied",
    "core::iter::traits::iterator::Iterator::cloned", "core::iter::traits::iterator::Iterator::rev",
    "core::iter::traits::iterator::Iterator::skip", "core::iter::traits::iterator::Iterator::peekable",
}
MUTATING_METHODS = {
    "push", "push_back", "push_front", "pop", "pop_back", "pop_front", "insert", "remove", "retain", "clear",
    "drain", "extend", "extend_from_slice", "truncate", "append", "swap_remove", "resize", "dedup", "sort",
    "sort_by", "sort_unstable", "reverse", "split_off", "take", "replace", "retain_mut", "dedup_by_key",
}


def root_desc(fn, op, depth=0):
    """canonical description of the object an operand denotes, or None"""
    if depth > 40 or not is_place(op):
        return None
    l = op["l"]
    suffix = ""
    for e in proj(op):
        if e == "*":
            continue
        if isinstance(e, dict):
            if "f" in e:
                suffix += "." + str(e["f"])
            elif "dc" in e:
                suffix += "@" + str(e["dc"])
            elif "ix" in e:
                suffix += "[_%d]" % e["ix"]
            elif "cix" in e:
                suffix += "[%s%d]" % ("-" if e.get("fe") else "", e["cix"])
            elif "sub" in e:
                suffix += "[%d..%s%d]" % (e["sub"], "-" if e.get("fe") else "", e["to"])
            else:
                suffix += "?"
    ds = [x for x in fn.defs().get(l, []) if x[2] != "partial"]
    if 1 <= l <= fn.nargs and not ds:
        return "_%d%s" % (l, suffix)
    if len(ds) != 1:
        return "_%d%s" % (l, suffix)
    bb, idx, kind, payload = ds[0]
    if kind == "assign":
        rv = payload
        if rv["k"] in ("use",) and is_place(rv["a"]):
            b = root_desc(fn, rv["a"], depth + 1)
            return None if b is None else b + suffix
        if rv["k"] in ("ref", "rawptr"):
            b = root_desc(fn, rv["p"], depth + 1)
            return None if b is None else b + suffix
        if rv["k"] == "cast" and is_place(rv["a"]) and rv.get("ck", "").startswith(("PointerCoercion", "Transmute", "PtrToPtr")):
            b = root_desc(fn, rv["a"], depth + 1)
            return None if b is None else b + suffix
        return "_%d%s" % (l, suffix)
    if kind == "call":
        t = payload
        cw, cn = callee_written(t) or "", callee_name(t) or ""
        if (cw in SAME_OBJECT or cn in SAME_OBJECT) and t["args"]:
            b = root_desc(fn, t["args"][0], depth + 1)
            return None if b is None else b + suffix
        return "_%d%s" % (l, suffix)
    return "_%d%s" % (l, suffix)


_SYM_ARR = re.compile(r"^&?(?:mut )?\[.*; ([A-Za-z_][A-Za-z0-9_]*)\]$")


def sym_len(fn, op, depth=0):
    """name of the generic const parameter that is the length of the array `op` denotes (all arrays
    `[_; C]` inside one generic function have the same, unknown, length C), or None"""
    if depth > 12:
        return None
    if is_const(op):
        return op["c"].get("gp")
    if not is_place(op):
        return None
    if proj(op):
        ty = fn.place_ty(op) or ""
        m = _SYM_ARR.match(ty)
        return m.group(1) if m else None
    m = _SYM_ARR.match(fn.local_ty(op["l"]) or "")
    if m:
        return m.group(1)
    d = fn.single_def(op["l"])
    if d is None or d[2] != "assign":
        return None
    rv = d[3]
    if rv["k"] == "cast" and rv.get("ck", "").startswith("PointerCoercion(Unsize"):
        m = _SYM_ARR.match(rv.get("from", ""))
        if m:
            return m.group(1)
        return sym_len(fn, rv["a"], depth + 1) if is_place(rv["a"]) else None
    if rv["k"] == "use" and is_place(rv["a"]):
        return sym_len(fn, rv["a"], depth + 1)
    if rv["k"] in ("ref", "rawptr"):
        return sym_len(fn, rv["p"], depth + 1)
    return None


class St:
    __slots__ = ("iv", "rel", "dead")

    def __init__(self, iv=None, rel=None, dead=False):
        self.iv = iv if iv is not None else {}
        self.rel = rel if rel is not None else set()
        self.dead = dead

    def copy(self):
        return St(dict(self.iv), set(self.rel), self.dead)

    def get(self, k):
        return self.iv.get(k, IS.top())

    def refine(self, k, s):
        cur = self.iv.get(k)
        n = s if cur is None else cur.inter(s)
        if n.is_empty():
            self.dead = True
        if n.is_top():
            self.iv.pop(k, None)
        else:
            self.iv[k] = n

    def kill_key(self, k):
        self.iv.pop(k, None)
        if self.rel:
            self.rel = {r for r in self.rel if k not in r[1:4]}

    def kill_len_prefix(self, desc):
        def hit(x):
            return isinstance(x, tuple) and len(x) == 2 and x[0] == "LEN" and isinstance(x[1], str) and (
                x[1] == desc or x[1].startswith(desc + ".") or x[1].startswith(desc + "[") or x[1].startswith(desc + "@"))
        for k in list(self.iv):
            if hit(k):
                del self.iv[k]
        newrel = set()
        for r in self.rel:
            if any(hit(x) for x in r[1:4]):
                continue
            if r[0] in ("RANGE", "SOMEIDX"):
                # bounds of a range that alias the length of a container that just changed are stale
                lst = list(r)
                changed = False
                for i, x in enumerate(lst):
                    if isinstance(x, tuple) and x and isinstance(x[0], tuple):
                        kept = tuple(y for y in x if not hit(y))
                        if kept != x:
                            # also drop plain locals that were EQLEN-aliases of it: conservative -> drop all aliases
                            lst[i] = ()
                            changed = True
                if changed:
                    # the numeric end bound came from the stale length as well
                    if r[0] == "RANGE" and len(lst) >= 6:
                        lst[5] = IS.top()
                    if r[0] == "SOMEIDX" and len(lst) >= 7:
                        lst[6] = IS.top()
                    r = tuple(lst)
            newrel.add(r)
        self.rel = newrel

    def kill_p_prefix(self, desc):
        for k in list(self.iv):
            if k[0] == "P" and (k[1].startswith(desc + ".") or k[1].startswith(desc + "[") or k[1].startswith(desc + "@")):
                del self.iv[k]
        self.rel = {r for r in self.rel if not any(isinstance(x, tuple) and len(x) == 2 and x[0] == "P" and isinstance(x[1], str) and (
            x[1] == desc or x[1].startswith(desc + ".") or x[1].startswith(desc + "[") or x[1].startswith(desc + "@")) for x in r[1:4])}

    def join(self, o):
        if self.dead:
            return o.copy()
        if o.dead:
            return self.copy()
        iv = {}
        for k, v in self.iv.items():
            if k in o.iv:
                u = v.union(o.iv[k])
                if not u.is_top():
                    iv[k] = u
        return St(iv, self.rel & o.rel, False)

    def same(self, o):
        return self.dead == o.dead and self.iv == o.iv and self.rel == o.rel


class GF2:
    def __init__(self, fn, entry=None, max_pass=5, summaries=None, oklen=None):
        self.fn = fn
        self.entry = entry
        self.summaries = summaries  # callable(call_terminator, gf, state) -> IS | None
        self.oklen = oklen          # callable(call_terminator) -> {param_no: IS} | None ("Ok implies len(param) in IS")
        self.max_pass = max_pass
        self._nr = {}
        self._mut_roots = None
        self.block_in = {}
        self.out = {}
        self._run()

    # ---------------------------------------------------------------- helpers
    def never_redefined(self, l):
        r = self._nr.get(l)
        if r is None:
            ds = [x for x in self.fn.defs().get(l, []) if x[2] != "partial"]
            r = (len(ds) == 0) if 1 <= l <= self.fn.nargs else (len(ds) <= 1)
            self._nr[l] = r
        return r

    def key_of(self, op):
        if is_place(op):
            if not proj(op):
                return ("L", op["l"])
            d = root_desc(self.fn, op)
            return ("P", d if d is not None else place_str(op))
        return None

    def src_keys(self, op):
        """('L', n) keys of the locals an operand is a (re)borrow / copy of: `_a = &mut (*_b)`, `_b = &mut _c`"""
        out, seen = [], set()
        fn = self.fn
        while is_place(op) and op["l"] not in seen:
            seen.add(op["l"])
            out.append(("L", op["l"]))
            d = fn.single_def(op["l"])
            if not d or d[2] != "assign":
                break
            rv = d[3]
            nxt = None
            if rv["k"] == "ref" and all(e == "*" for e in proj(rv["p"])):
                nxt = rv["p"]
            elif rv["k"] == "use" and is_place(rv["a"]) and all(e == "*" for e in proj(rv["a"])):
                nxt = rv["a"]
            if nxt is None:
                break
            op = {"l": nxt["l"]}
        return out

    def len_key(self, op):
        sym = sym_len(self.fn, op)
        if sym is not None:
            return ("LEN", "$" + sym)
        d = root_desc(self.fn, op)
        return None if d is None else ("LEN", d)

    def alias_chain(self, op):
        """keys holding the same integer value as op (copies / widening casts / int conversions)"""
        out, seen = [], set()
        fn = self.fn
        while is_place(op):
            k = self.key_of(op)
            if k in seen:
                break
            seen.add(k)
            out.append(k)
            if proj(op):
                break
            l = op["l"]
            d = fn.single_def(l)
            if d is None or not self.never_redefined(l):
                break
            _, _, kind, payload = d
            nxt = None
            if kind == "assign":
                rv = payload
                if rv["k"] == "use":
                    nxt = rv["a"]
                elif rv["k"] == "cast" and rv.get("ck", "").startswith("IntToInt"):
                    fr, to = ty_range(rv.get("from")), ty_range(rv.get("ty"))
                    if fr and to and to[0] <= fr[0] and fr[1] <= to[1]:
                        nxt = rv["a"]
            elif kind == "call":
                t = payload
                cw, cn = callee_written(t) or "", callee_name(t) or ""
                if cw in ("core::convert::From::from", "core::convert::Into::into") or cn == "core::convert::num::from":
                    if t["args"] and is_place(t["args"][0]):
                        fr = ty_range(fn.place_ty(t["args"][0]) or "")
                        to = ty_range(fn.local_ty(l))
                        if fr and to and to[0] <= fr[0] and fr[1] <= to[1]:
                            nxt = t["args"][0]
            if nxt is None:
                break
            if is_place(nxt) and not proj(nxt) and not self.never_redefined(nxt["l"]):
                # a copy of a mutable variable taken in the same block stays valid until that variable changes;
                # accept only when the copy and its use are in one block with no redefinition in between
                out.append(("L", nxt["l"]) if self._copy_still_valid(l, nxt["l"]) else None)
                break
            op = nxt
        return [k for k in out if k is not None]

    def _copy_still_valid(self, tmp, var):
        """tmp = copy var (single def). Valid alias iff var is not redefined between that def and every
        use of tmp — approximated: def and all uses of tmp lie in one block and var has no def later in
        that block before the block's terminator."""
        fn = self.fn
        d = fn.single_def(tmp)
        if d is None:
            return False
        bb = d[0]
        idx = d[1]
        for (b2, i2, kind, payload) in fn.defs().get(var, []):
            if b2 == bb and (i2 == "t" or (idx != "t" and i2 > idx)):
                # redefined later in the same block: uses of tmp after that would be stale
                return False
        return True

    def _val(self, st, op):
        if is_const(op):
            v = const_val(op)
            return IS.exact(v) if v is not None else IS.top()
        k = self.key_of(op)
        if k is None:
            return IS.top()
        s = st.get(k)
        tr = None
        if is_place(op):
            tr = ty_range(self.fn.place_ty(op) or "")
        if tr:
            s = s.inter(IS.range(*tr))
        return s

    def value(self, st, op):
        """best value set for operand (through alias chain and EQLEN)"""
        best = self._val(st, op)
        if is_const(op) and op["c"].get("gp") and "v" not in op["c"]:
            return best.inter(st.get(("LEN", "$" + op["c"]["gp"]))).inter(IS.range(0, 2**63))
        if is_place(op):
            pr = proj(op)
            if len(pr) == 2 and isinstance(pr[0], dict) and pr[0].get("dc") in ("Ok", "Some", "Continue") and isinstance(pr[1], dict) and str(pr[1].get("f")) == "0":
                for r in st.rel:
                    if r[0] == "PAYLOAD" and r[1] == ("L", op["l"]):
                        best = best.inter(r[2])
        for k in self.alias_chain(op):
            best = best.inter(st.get(k))
            for r in st.rel:
                if r[0] == "EQLEN" and r[1] == k:
                    best = best.inter(st.get(r[2]))
        return best

    def len_aliases(self, st, op):
        """LEN keys whose length operand `op` holds"""
        out = set()
        if is_const(op):
            if op["c"].get("gp") and "v" not in op["c"]:
                out.add(("LEN", "$" + op["c"]["gp"]))
            return out
        for k in self.alias_chain(op):
            for r in st.rel:
                if r[0] == "EQLEN" and r[1] == k:
                    out.add(r[2])
        return out

    def lt_holds(self, st, a, b):
        """value(a) < value(b) provable?"""
        va, vb = self.value(st, a), self.value(st, b)
        if not va.is_empty() and not vb.is_empty() and va.hi() < vb.lo():
            return True
        ka = set(self.alias_chain(a))
        kb = set(self.alias_chain(b)) | self.len_aliases(st, b)
        for r in st.rel:
            if r[0] == "LT" and r[1] in ka and r[2] in kb:
                return True
        # one step of transitivity: a < x <= b   or   a <= x < b
        for r in st.rel:
            if r[0] in ("LT", "LE") and r[1] in ka:
                for r2 in st.rel:
                    if r2[0] in ("LT", "LE") and r2[1] == r[2] and r2[2] in kb and (r[0] == "LT" or r2[0] == "LT"):
                        return True
        return False

    def lt_key(self, st, a, key, strict=True):
        """value(a) < (<=) the quantity denoted by `key` (e.g. a LEN key), with one step of transitivity"""
        ka = set(self.alias_chain(a)) | (set() if strict else self.len_aliases(st, a))
        if not strict and key in ka:
            return True
        ok_rel = ("LT",) if strict else ("LT", "LE")
        for r in st.rel:
            if r[0] in ok_rel and r[1] in ka and r[2] == key:
                return True
        for r in st.rel:
            if r[0] in ("LT", "LE") and r[1] in ka:
                for r2 in st.rel:
                    if r2[0] in ("LT", "LE") and r2[1] == r[2] and r2[2] == key and (not strict or r[0] == "LT" or r2[0] == "LT"):
                        return True
        return False

    def le_holds(self, st, a, b):
        va, vb = self.value(st, a), self.value(st, b)
        if not va.is_empty() and not vb.is_empty() and va.hi() <= vb.lo():
            return True
        ka = set(self.alias_chain(a)) | self.len_aliases(st, a)
        kb = set(self.alias_chain(b)) | self.len_aliases(st, b)
        if ka & kb:
            return True
        for r in st.rel:
            if r[0] in ("LT", "LE") and r[1] in ka and r[2] in kb:
                return True
        return False

    # ---------------------------------------------------------------- transfer
    def _assign(self, st, stm):
        fn = self.fn
        p = stm["p"]
        rv = stm["rv"]
        if proj(p):
            d = root_desc(fn, p)
            st.kill_key(("P", d if d is not None else place_str(p)))
            # store into a container element / field of a root: lengths of vec-typed fields may change only by calls;
            # a whole-field overwrite invalidates the facts below that field
            if d is not None:
                st.kill_len_prefix(d)
                st.kill_p_prefix(d)
                # and remember a constant / known value just stored into an integer place
                v = None
                if rv["k"] == "use":
                    v = self._val(st, rv["a"])
                if v is not None and not v.is_top():
                    st.iv[("P", d)] = v
            return
        l = p["l"]
        k = ("L", l)
        st.kill_key(k)
        # redefining a local also invalidates facts about its projections and about containers rooted at it
        st.kill_p_prefix("_%d" % l)
        st.kill_len_prefix("_%d" % l)
        newv = None
        kind = rv["k"]
        if kind == "use":
            a = rv["a"]
            newv = self._val(st, a)
            if is_place(a):
                ak = self.key_of(a)
                for r in list(st.rel):
                    if r[0] in ("LT", "LE"):
                        if r[1] == ak:
                            st.rel.add((r[0], k, r[2]))
                        if r[2] == ak:
                            st.rel.add((r[0], r[1], k))
                    elif r[0] in ("EQLEN", "ITER") and r[1] == ak:
                        st.rel.add((r[0], k) + r[2:])
                    elif r[0] == "RANGE" and r[1] == ak:
                        st.rel.add(("RANGE", k) + r[2:])
                    elif r[0] in ("SOMEIDX", "PAYLOAD", "CHUNKS", "BSEARCH", "POSITION", "OKLEN") and r[1] == ak:
                        st.rel.add((r[0], k) + r[2:])
                # payload of an Option produced by an iterator: `_i = ((_d as Some).0)` [.0]
                self._from_some(st, k, a)
        elif kind == "cast":
            a = rv["a"]
            v = self._val(st, a)
            to = ty_range(rv.get("ty"))
            if to and not v.is_empty() and v.lo() >= to[0] and v.hi() <= to[1]:
                newv = v
                if is_place(a):
                    ak = self.key_of(a)
                    for r in list(st.rel):
                        if r[0] in ("LT", "LE") and r[1] == ak:
                            st.rel.add((r[0], k, r[2]))
                        if r[0] == "EQLEN" and r[1] == ak:
                            st.rel.add(("EQLEN", k, r[2]))
        elif kind == "bin":
            op = rv["op"]
            base = op.replace("WithOverflow", "").replace("Unchecked", "")
            a, b = self._val(st, rv["a"]), self._val(st, rv["b"])
            res = None
            if not a.is_empty() and not b.is_empty():
                fin = lambda x: x not in (INF, -INF)  # noqa: E731
                if base == "Add" and fin(a.lo()) and fin(b.lo()):
                    res = IS.range(a.lo() + b.lo(), a.hi() + b.hi())
                elif base == "Sub" and fin(a.lo()) and fin(b.hi()):
                    res = IS.range(a.lo() - b.hi(), a.hi() - b.lo())
                elif base == "Mul" and a.lo() >= 0 and b.lo() >= 0:
                    res = IS.range(a.lo() * b.lo(), a.hi() * b.hi() if fin(a.hi()) and fin(b.hi()) else INF)
                elif base == "BitAnd" and b.lo() >= 0 and fin(b.hi()):
                    res = IS.range(0, b.hi())
                elif base == "BitAnd" and a.lo() >= 0 and fin(a.hi()):
                    res = IS.range(0, a.hi())
                elif base == "Rem" and b.lo() > 0 and fin(b.hi()) and a.lo() >= 0:
                    res = IS.range(0, b.hi() - 1)
                elif base == "Div" and b.lo() > 0 and a.lo() >= 0:
                    res = IS.range(0, a.hi())
                elif base == "Shr" and a.lo() >= 0:
                    res = IS.range(0, a.hi())
                elif base == "Shl" and a.lo() >= 0 and fin(a.hi()) and b.lo() >= 0 and fin(b.hi()) and b.hi() < 128:
                    res = IS.range(a.lo() << int(b.lo()), a.hi() << int(b.hi()))
                elif base == "BitOr" and a.lo() >= 0 and b.lo() >= 0 and fin(a.hi()) and fin(b.hi()):
                    res = IS.range(max(a.lo(), b.lo()), (1 << max(int(a.hi()).bit_length(), int(b.hi()).bit_length())) - 1)
            if "WithOverflow" in op:
                if res is not None and not res.is_top():
                    st.iv[("P", "_%d.0" % l)] = res
                # x - c < x relations: (a - const>0) < a  when no overflow (assert follows)
                if base == "Sub" and is_place(rv["a"]) and not b.is_empty() and b.lo() >= 1:
                    for ka in self.alias_chain(rv["a"]) + list(self.len_aliases(st, rv["a"])):
                        st.rel.add(("LT", ("P", "_%d.0" % l), ka))
                elif base == "Sub" and is_place(rv["a"]) and not b.is_empty() and b.lo() >= 0:
                    for ka in self.alias_chain(rv["a"]) + list(self.len_aliases(st, rv["a"])):
                        st.rel.add(("LE", ("P", "_%d.0" % l), ka))
                return
            newv = res
            if base == "Sub" and is_place(rv["a"]) and not b.is_empty() and b.lo() >= 1:
                for ka in self.alias_chain(rv["a"]) + list(self.len_aliases(st, rv["a"])):
                    st.rel.add(("LT", k, ka))
            if base in ("Rem",) and is_place(rv["b"]):
                for kb in self.alias_chain(rv["b"]) + list(self.len_aliases(st, rv["b"])):
                    st.rel.add(("LT", k, kb))
        elif kind == "un" and rv["op"] == "PtrMetadata":
            lk = self.len_key(rv["a"])
            if lk is not None:
                v = st.get(lk)
                st.iv[k] = v.inter(IS.range(0, 2**63)) if not v.is_top() else IS.range(0, 2**63)
                st.rel.add(("EQLEN", k, lk))
            return
        elif kind == "agg":
            adt = rv.get("adt", "")
            if adt in ("core::ops::range::Range", "core::ops::range::RangeInclusive") and len(rv["ops"]) >= 2:
                s_op, e_op = rv["ops"][0], rv["ops"][1]
                incl = adt.endswith("RangeInclusive")
                sk = tuple(self.alias_chain(s_op)) if is_place(s_op) else ()
                ek = tuple(self.alias_chain(e_op) + list(self.len_aliases(st, e_op))) if is_place(e_op) else ()
                st.rel.add(("RANGE", k, sk, ek, self._val(st, s_op), self._val(st, e_op), incl))
            elif rv.get("tup"):
                # `let (list, start) = match .. { .. => (l, 1), .. => (m, 2) }`: the fields of the tuple keep their values
                for i, o in enumerate(rv["ops"]):
                    v = self._val(st, o)
                    if v is not None and not v.is_top():
                        st.iv[("P", "_%d.%d" % (l, i))] = v
            return
        if newv is not None and not newv.is_top():
            cur = st.iv.get(k)
            st.iv[k] = newv if cur is None else cur.inter(newv)

    def _from_some(self, st, k, a):
        """k = (_d as Some).0[.0]  where _d came from next() on a tracked range / iterator"""
        pr = proj(a)
        if len(pr) == 2 and isinstance(pr[0], dict) and pr[0].get("dc") in ("Ok", "Some", "Continue") and isinstance(pr[1], dict) and str(pr[1].get("f")) == "0":
            dkey0 = ("L", a["l"])
            for r in list(st.rel):
                if r[0] == "PAYLOAD" and r[1] == dkey0:
                    st.refine(k, r[2])
        if len(pr) == 2 and isinstance(pr[0], dict) and pr[0].get("dc") in ("Ok", "Err"):
            dkey = ("L", a["l"])
            for r in list(st.rel):
                if r[0] == "BSEARCH" and r[1] == dkey:
                    st.refine(k, IS.range(0, 2**63))
                    st.rel.add(("LT" if pr[0]["dc"] == "Ok" else "LE", k, r[2]))
            return
        if len(pr) < 2 or not (isinstance(pr[0], dict) and pr[0].get("dc") == "Some"):
            return
        dkey = ("L", a["l"])
        tail = pr[2:]
        for r in list(st.rel):
            if r[0] == "POSITION" and r[1] == dkey and not tail:
                st.refine(k, IS.range(0, 2**63))
                st.rel.add(("LT", k, r[2]))
            if r[0] == "SOMEIDX" and r[1] == dkey:
                # r = ('SOMEIDX', d, mode, startkeys, endkeys, start_iv, end_iv, incl, lenkey)
                mode = r[2]
                if mode == "range" and not tail:
                    self._apply_range_elem(st, k, r)
                elif mode == "enum" and len(tail) == 1 and isinstance(tail[0], dict) and str(tail[0].get("f")) == "0":
                    lk = r[8]
                    st.refine(k, IS.range(0, 2**63))
                    st.rel.add(("LT", k, lk))

    def _apply_range_elem(self, st, k, r):
        s_iv, e_iv, incl = r[5], r[6], r[7]
        lo = s_iv.lo() if not s_iv.is_empty() else -INF
        hi = INF
        if not e_iv.is_empty() and e_iv.hi() != INF:
            hi = e_iv.hi() if incl else e_iv.hi() - 1
        st.refine(k, IS.range(lo, hi))
        for ek in r[4]:
            st.rel.add(("LE" if incl else "LT", k, ek))

    def _call(self, st, t):
        fn = self.fn
        d = t["dest"]
        cw, cn = callee_written(t) or "", callee_name(t) or ""
        meth = cn.split("::")[-1]
        # mutation through &mut receiver: kill length facts of that container
        if t["args"] and meth in MUTATING_METHODS:
            rd = root_desc(fn, t["args"][0])
            if rd is not None:
                old = st.iv.get(("LEN", rd))
                st.kill_len_prefix(rd)
                if meth in ("push", "push_back", "push_front") and (cn.startswith("alloc::vec::Vec") or cn.startswith("alloc::collections")):
                    # an unbounded Vec grows by exactly one
                    if old is not None and not old.is_empty() and old.lo() != -INF:
                        st.iv[("LEN", rd)] = IS.range(old.lo() + 1, old.hi() + 1 if old.hi() != INF else INF)
                    else:
                        st.iv[("LEN", rd)] = IS.range(1, INF)
        # any call receiving a `&mut` reference to a local container we track may change its length:
        for a in t["args"]:
            if is_place(a) and not proj(a):
                dd = fn.single_def(a["l"])
                if dd and dd[2] == "assign" and dd[3]["k"] == "ref" and dd[3].get("mut") and meth not in ("next", "len", "is_empty", "iter", "iter_mut", "get", "first", "last", "push", "push_back", "push_front", "binary_search", "binary_search_by", "binary_search_by_key", "contains", "get_mut", "last_mut", "first_mut"):
                    rd = root_desc(fn, dd[3]["p"])
                    if rd is not None and not (cw in LEN_CALLS or cn in LEN_CALLS):
                        st.kill_len_prefix(rd)
                        st.kill_p_prefix(rd)
                        st.kill_key(("P", rd))
        if proj(d):
            return
        k = ("L", d["l"])
        st.kill_key(k)
        st.kill_len_prefix("_%d" % d["l"])
        if (cw in LEN_CALLS or cn in LEN_CALLS) and t["args"]:
            lk = self.len_key(t["args"][0])
            if lk is not None:
                v = st.get(lk)
                st.iv[k] = v.inter(IS.range(0, 2**63))
                st.rel.add(("EQLEN", k, lk))
            else:
                st.iv[k] = IS.range(0, 2**63)
            return
        if cw in ("core::convert::From::from", "core::convert::Into::into") or cn == "core::convert::num::from":
            if t["args"]:
                v = self._val(st, t["args"][0])
                to = ty_range(fn.local_ty(d["l"]))
                if to and not v.is_empty() and v.lo() >= to[0] and v.hi() <= to[1]:
                    st.iv[k] = v
                    ak = self.key_of(t["args"][0])
                    for r in list(st.rel):
                        if r[0] in ("LT", "LE") and r[1] == ak:
                            st.rel.add((r[0], k, r[2]))
            return
        if cn in ("core::num::saturating_sub",) and len(t["args"]) == 2:
            a, b = self._val(st, t["args"][0]), self._val(st, t["args"][1])
            if not a.is_empty() and a.hi() != INF:
                st.iv[k] = IS.range(0, a.hi())
            if is_place(t["args"][0]):
                for ka in self.alias_chain(t["args"][0]) + list(self.len_aliases(st, t["args"][0])):
                    st.rel.add(("LE", k, ka))
                if not b.is_empty() and b.lo() >= 1 and not a.is_empty() and a.lo() >= 1:
                    for ka in self.alias_chain(t["args"][0]) + list(self.len_aliases(st, t["args"][0])):
                        st.rel.add(("LT", k, ka))
            return
        if cn in ("core::cmp::min", "core::cmp::Ord::min") and len(t["args"]) == 2:
            a, b = self._val(st, t["args"][0]), self._val(st, t["args"][1])
            if not a.is_empty() and not b.is_empty():
                st.iv[k] = IS.range(min(a.lo(), b.lo()), min(a.hi(), b.hi()))
            for x in t["args"]:
                if is_place(x):
                    for kx in self.alias_chain(x) + list(self.len_aliases(st, x)):
                        st.rel.add(("LE", k, kx))
            return
        if cn in ("core::cmp::max", "core::cmp::Ord::max") and len(t["args"]) == 2:
            a, b = self._val(st, t["args"][0]), self._val(st, t["args"][1])
            if not a.is_empty() and not b.is_empty():
                st.iv[k] = IS.range(max(a.lo(), b.lo()), max(a.hi(), b.hi()))
            return
        # chunks_exact(n): every element has length n
        if cn in ("core::slice::chunks_exact", "core::slice::chunks_exact_mut", "core::slice::windows") and len(t["args"]) == 2:
            n = self._val(st, t["args"][1])
            if len(n.iv) == 1 and n.iv[0][0] == n.iv[0][1]:
                st.rel.add(("CHUNKS", k, int(n.iv[0][0])))
            return
        if cw in ("core::iter::traits::iterator::Iterator::by_ref", "core::iter::traits::collect::IntoIterator::into_iter") and t["args"]:
            a0 = t["args"][0]
            srcs = self.src_keys(a0)
            for r in list(st.rel):
                if r[0] == "CHUNKS" and r[1] in srcs:
                    st.rel.add(("CHUNKS", k, r[2]))
            if cw.endswith("by_ref"):
                return
        # integer payload summaries of kanata functions (validators) and propagation through `?`
        if self.summaries is not None and (cn.startswith("kanata") or cn in (
                "core::option::Option::and_then", "core::option::Option::map", "core::result::Result::and_then", "core::result::Result::map")):
            iv = self.summaries(t, self, st)
            if iv is not None and not iv.is_top():
                st.rel.add(("PAYLOAD", k, iv))
        if getattr(self, "oklen", None) is not None and cn.startswith("kanata"):
            sm = self.oklen(t)
            if sm:
                for j, iv in sm.items():
                    if j - 1 < len(t["args"]):
                        lk = self.len_key(t["args"][j - 1])
                        if lk is not None:
                            st.rel.add(("OKLEN", k, lk, iv))
        if cw in ("core::ops::try_trait::Try::branch",) and t["args"]:
            ak0 = self.key_of(t["args"][0])
            for r in list(st.rel):
                if r[0] == "OKLEN" and r[1] == ak0:
                    st.rel.add(("OKLEN", k, r[2], r[3]))
        if cw in ("core::ops::try_trait::Try::branch", "core::option::Option::ok_or_else", "core::option::Option::ok_or",
                  "core::result::Result::ok", "core::result::Result::map_err", "core::option::Option::copied") and t["args"]:
            ak = self.key_of(t["args"][0])
            for r in list(st.rel):
                if r[0] == "PAYLOAD" and r[1] == ak:
                    st.rel.add(("PAYLOAD", k, r[2]))
        if cn in ("core::option::Option::unwrap", "core::option::Option::expect", "core::result::Result::unwrap", "core::result::Result::expect",
                  "core::option::Option::unwrap_or", "core::result::Result::unwrap_or") and t["args"]:
            ak = self.key_of(t["args"][0])
            for r in list(st.rel):
                if r[0] == "PAYLOAD" and r[1] == ak:
                    v = r[2]
                    if cn.endswith("unwrap_or") and len(t["args"]) > 1:
                        v = v.union(self._val(st, t["args"][1]))
                    st.iv[k] = v
            return
        # iterators
        if (cn in ITER_CALLS or cw in ITER_CALLS) and t["args"]:
            lk = self.len_key(t["args"][0])
            if lk is not None:
                st.rel.add(("ITER", k, lk, "plain"))
            return
        if cw == "core::iter::traits::iterator::Iterator::enumerate" and t["args"]:
            ak = self.key_of(t["args"][0])
            for r in list(st.rel):
                if r[0] == "ITER" and r[1] == ak and r[3] == "plain":
                    st.rel.add(("ITER", k, r[2], "enum"))
            return
        if cw in ("core::iter::traits::iterator::Iterator::rev",) and t["args"]:
            ak = self.key_of(t["args"][0])
            for r in list(st.rel):
                if r[0] == "RANGE" and r[1] == ak:
                    st.rel.add(("RANGE", k) + r[2:])
                if r[0] == "ITER" and r[1] == ak:
                    st.rel.add(("ITER", k) + r[2:])
            return
        if meth in ("binary_search", "binary_search_by", "binary_search_by_key") and t["args"]:
            lk = self.len_key(t["args"][0])
            if lk is not None:
                st.rel.add(("BSEARCH", k, lk))
            return
        if cw == "core::iter::traits::iterator::Iterator::position" and t["args"]:
            ak = self.key_of(t["args"][0])
            for r in list(st.rel):
                if r[0] == "ITER" and r[1] == ak and r[3] == "plain":
                    st.rel.add(("POSITION", k, r[2]))
            return
        if cw in ("core::iter::traits::collect::IntoIterator::into_iter",) and t["args"]:
            ak = self.key_of(t["args"][0])
            for r in list(st.rel):
                if r[0] == "ITER" and r[1] == ak:
                    st.rel.add(("ITER", k, r[2], r[3]))
                if r[0] == "RANGE" and r[1] == ak:
                    st.rel.add(("RANGE", k) + r[2:])
            return
        if meth == "next" and t["args"]:
            # receiver is `&mut iter_local`
            a0 = t["args"][0]
            src = None
            if is_place(a0) and not proj(a0):
                dd = fn.single_def(a0["l"])
                if dd and dd[2] == "assign" and dd[3]["k"] == "ref" and not proj(dd[3]["p"]):
                    src = ("L", dd[3]["p"]["l"])
                    # `&mut *(&mut it)` double borrow
                elif dd and dd[2] == "assign" and dd[3]["k"] == "ref" and proj(dd[3]["p"]) == ["*"]:
                    d2 = fn.single_def(dd[3]["p"]["l"])
                    if d2 and d2[2] == "assign" and d2[3]["k"] == "ref" and not proj(d2[3]["p"]):
                        src = ("L", d2[3]["p"]["l"])
            if src is None and is_place(a0) and not proj(a0):
                src = ("L", a0["l"])
            allsrc = self.src_keys(a0)
            for r in list(st.rel):
                if r[0] == "CHUNKS" and r[1] in allsrc:
                    st.iv[("LEN", "_%d@Some.0" % d["l"])] = IS.exact(r[2])
            if src is not None:
                for r in list(st.rel):
                    if r[0] == "CHUNKS" and r[1] == src and src not in allsrc:
                        st.iv[("LEN", "_%d@Some.0" % d["l"])] = IS.exact(r[2])
                    if r[0] == "RANGE" and r[1] == src:
                        st.rel.add(("SOMEIDX", k, "range", r[2], r[3], r[4], r[5], r[6], None))
                    if r[0] == "ITER" and r[1] == src and r[3] == "enum":
                        st.rel.add(("SOMEIDX", k, "enum", (), (), IS.top(), IS.top(), False, r[2]))
            return

    def _cond_def(self, l):
        ds = [x for x in self.fn.defs().get(l, []) if x[2] != "partial"]
        if len(ds) != 1:
            return None
        _, _, kind, payload = ds[0]
        if kind == "assign":
            rv = payload
            if rv["k"] == "bin" and rv["op"] in CMP:
                return ("cmp", rv["op"], rv["a"], rv["b"])
            if rv["k"] == "un" and rv["op"] == "Not":
                return ("not", rv["a"])
            if rv["k"] == "use" and is_place(rv["a"]) and not proj(rv["a"]):
                return self._cond_def(rv["a"]["l"])
        elif kind == "call":
            return ("call", payload)
        return None

    def _refine_cmp(self, st, op, a, b):
        va, vb = self.value(st, a), self.value(st, b)
        for (x, y, vy, o) in ((a, b, vb, op), (b, a, va, SWAP[op])):
            if not (is_place(x) or (is_const(x) and x["c"].get("gp") and "v" not in x["c"])) or vy.is_empty():
                continue
            s = IS.top()
            if o == "Lt" and vy.hi() != INF:
                s = IS.range(-INF, vy.hi() - 1)
            elif o == "Le" and vy.hi() != INF:
                s = IS.range(-INF, vy.hi())
            elif o == "Gt" and vy.lo() != -INF:
                s = IS.range(vy.lo() + 1, INF)
            elif o == "Ge" and vy.lo() != -INF:
                s = IS.range(vy.lo(), INF)
            elif o == "Eq":
                s = vy
            elif o == "Ne" and len(vy.iv) == 1 and vy.iv[0][0] == vy.iv[0][1]:
                s = IS.top().minus_point(vy.iv[0][0])
            if s.is_top():
                continue
            keys = self.alias_chain(x)
            for k in keys:
                st.refine(k, s)
            for lk in self.len_aliases(st, x):
                st.refine(lk, s)
        def _symc(o):
            return is_const(o) and o["c"].get("gp") and "v" not in o["c"]
        if (is_place(a) or _symc(a)) and (is_place(b) or _symc(b)):
            ka = self.alias_chain(a) + list(self.len_aliases(st, a))
            kb = self.alias_chain(b) + list(self.len_aliases(st, b))
            rel = None
            if op == "Lt":
                rel = ("LT", ka, kb)
            elif op == "Le":
                rel = ("LE", ka, kb)
            elif op == "Gt":
                rel = ("LT", kb, ka)
            elif op == "Ge":
                rel = ("LE", kb, ka)
            elif op == "Eq":
                for x in ka:
                    for y in kb:
                        st.rel.add(("LE", x, y))
                        st.rel.add(("LE", y, x))
            if rel:
                for x in rel[1]:
                    for y in rel[2]:
                        st.rel.add((rel[0], x, y))

    def _assume_bool(self, st, l, truth, depth=0):
        if depth > 6:
            return
        st.refine(("L", l), IS.exact(1 if truth else 0))
        cd = self._cond_def(l)
        if cd is None:
            return
        if cd[0] == "cmp":
            self._refine_cmp(st, cd[1] if truth else NEG[cd[1]], cd[2], cd[3])
        elif cd[0] == "not":
            a = cd[1]
            if is_place(a) and not proj(a):
                self._assume_bool(st, a["l"], not truth, depth + 1)
        elif cd[0] == "call":
            t = cd[1]
            cw, cn = callee_written(t) or "", callee_name(t) or ""
            if (cw in EMPTY_CALLS or cn in EMPTY_CALLS) and t["args"]:
                lk = self.len_key(t["args"][0])
                if lk is not None:
                    st.refine(lk, IS.exact(0) if truth else IS.range(1, INF))
            elif cn in ("core::option::Option::is_some", "core::option::Option::is_none") and t["args"]:
                pass

    def _assume_discr(self, st, t, succ):
        """switch on Discriminant(place): Option<..> results of first()/last()/get(k)/split_first() imply lengths"""
        fn = self.fn
        d = t["d"]
        if not is_place(d) or proj(d):
            return
        df = fn.single_def(d["l"])
        if df and df[2] == "assign" and df[3]["k"] == "discr" and not proj(df[3]["p"]):
            # success edge of a Result / ControlFlow / Option that carries an "Ok implies len" postcondition
            adt_ = df[3].get("adt") or ""
            okv = {"core::result::Result": 0, "core::ops::control_flow::ControlFlow": 0, "core::option::Option": 1}.get(adt_)
            if okv is not None:
                vs = [v for v, tb in t["ts"] if tb == succ]
                listed = {v for v, _ in t["ts"]}
                on_ok = vs == [okv] or (t["o"] == succ and not vs and listed == {1 - okv})
                if on_ok:
                    sk = ("L", df[3]["p"]["l"])
                    for r in list(st.rel):
                        if r[0] == "OKLEN" and r[1] == sk:
                            st.refine(r[2], r[3])
        if not df or df[2] != "assign" or df[3]["k"] != "discr" or df[3].get("adt") != "core::option::Option":
            return
        vals = [v for v, tb in t["ts"] if tb == succ]
        is_some = (vals == [1]) or (t["o"] == succ and not vals and {v for v, _ in t["ts"]} == {0})
        is_none = (vals == [0]) or (t["o"] == succ and not vals and {v for v, _ in t["ts"]} == {1})
        src = df[3]["p"]
        if proj(src):
            return
        cd = fn.single_def(src["l"])
        if not cd or cd[2] != "call":
            return
        ct = cd[3]
        cn = callee_name(ct) or ""
        if not ct["args"]:
            return
        lk = self.len_key(ct["args"][0])
        if lk is None:
            return
        if cn in ("core::slice::first", "core::slice::last", "core::slice::split_first", "core::slice::split_last",
                  "core::slice::first_mut", "core::slice::last_mut"):
            if is_some:
                st.refine(lk, IS.range(1, INF))
            elif is_none:
                st.refine(lk, IS.exact(0))
        elif cn in ("core::slice::get", "alloc::vec::Vec::get") and len(ct["args"]) > 1:
            kv = self._val(st, ct["args"][1])
            if is_some and not kv.is_empty() and kv.lo() != -INF:
                st.refine(lk, IS.range(kv.lo() + 1, INF))

    def edge_state(self, bb, st_out, succ):
        t = self.fn.term(bb)
        st = st_out.copy()
        if t["k"] == "switch":
            d = t["d"]
            vals = [v for v, tb in t["ts"] if tb == succ]
            is_other = t["o"] == succ
            if is_place(d):
                if t.get("dty") == "bool" and not proj(d):
                    l = d["l"]
                    if vals and not is_other:
                        self._assume_bool(st, l, bool(vals[0]))
                    elif is_other and not vals:
                        listed = {v for v, _ in t["ts"]}
                        if listed == {0}:
                            self._assume_bool(st, l, True)
                        elif listed == {1}:
                            self._assume_bool(st, l, False)
                else:
                    allv = [v for v, _ in t["ts"]]
                    s = None
                    if vals and not is_other:
                        s = IS([])
                        for v in vals:
                            s = s.union(IS.exact(v))
                    elif is_other:
                        s = IS.top()
                        for v in allv:
                            if v not in vals:
                                s = s.minus_point(v)
                    if s is not None and not s.is_top():
                        # only integer-valued switches refine values; discriminant switches handled separately
                        df = self.fn.single_def(d["l"]) if not proj(d) else None
                        if not (df and df[2] == "assign" and df[3]["k"] == "discr"):
                            for k in self.alias_chain(d):
                                st.refine(k, s)
                            for lk in self.len_aliases(st, d):
                                st.refine(lk, s)
                    self._assume_discr(st, t, succ)
        elif t["k"] == "assert":
            c = t["c"]
            if is_place(c) and not proj(c):
                self._assume_bool(st, c["l"], bool(t["exp"]))
            m = t["msg"]
            if m.get("kind") == "BoundsCheck":
                # after the check: index < len
                self._refine_cmp(st, "Lt", m["index"], m["len"])
        elif t["k"] == "call":
            st = st  # call effects already applied to st_out
        return st

    def _run(self):
        fn = self.fn
        order = fn.rpo()
        init = self.entry.copy() if self.entry is not None else St()
        self.block_in = {0: init}
        out = {}
        passes = 0
        changed = True
        while changed:
            passes += 1
            if passes > 60:
                from .facts import Broken
                raise Broken("gf2 did not converge in %s" % fn.norm)
            changed = False
            for b in order:
                if b == 0:
                    s_in = init
                else:
                    s_in = None
                    for p in fn.preds(b):
                        if p in out:
                            e = self.edge_state(p, out[p], b)
                            if e.dead:
                                continue
                            s_in = e if s_in is None else s_in.join(e)
                    if s_in is None:
                        continue
                old = self.block_in.get(b)
                if old is not None and b != 0:
                    if passes > self.max_pass:
                        for k in list(s_in.iv):
                            if old.iv.get(k) != s_in.iv[k]:
                                del s_in.iv[k]
                    s_in = old.join(s_in) if not old.dead else s_in
                if old is None or not old.same(s_in):
                    self.block_in[b] = s_in
                    changed = True
                st = self.block_in[b].copy()
                for stm in fn.stmts(b):
                    if stm["k"] == "assign":
                        self._assign(st, stm)
                t = fn.term(b)
                if t["k"] == "call":
                    self._call(st, t)
                out[b] = st
        self.out = out

    def before_term(self, bb):
        st = self.block_in.get(bb)
        if st is None:
            return None
        st = st.copy()
        for stm in self.fn.stmts(bb):
            if stm["k"] == "assign":
                self._assign(st, stm)
        return st
