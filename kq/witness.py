"""Compile-fail witnesses (thorough tier): run the doc-tests of /verif/witness with nightly (error codes
are checked) and report one instance per witness test; a failing witness is a violation of the
encapsulation fact it states."""
import os
import re
import shutil
import subprocess

from .facts import VERIF, REPO, Broken
from .report import RuleResult

NEED = {
    "C10": ["W1"],
    "C13": ["W2", "W5"],
    "C09": ["W4"],
    "C01": ["W4"],
}


def run(pid):
    want = NEED.get(pid)
    if not want:
        return None
    res = RuleResult("W-WITNESS", "encapsulation facts enforced by the type system (compile-fail witnesses with compiling twins)", floor=2)
    wdir = os.path.join(VERIF, "witness")
    try:
        shutil.copy(os.path.join(REPO, "Cargo.lock"), os.path.join(wdir, "Cargo.lock"))
    except OSError:
        pass
    env = dict(os.environ, CARGO_NET_OFFLINE="true")
    env.pop("RUSTC_WORKSPACE_WRAPPER", None)
    r = subprocess.run(["cargo", "+nightly", "test", "--doc", "--offline"], cwd=wdir, env=env,
                       stdout=subprocess.PIPE, stderr=subprocess.STDOUT, text=True)
    tests = re.findall(r"^test src/lib.rs - (\w+) \(line (\d+)\)( - compile fail)? \.\.\. (\w+)", r.stdout, re.M)
    if not tests:
        raise Broken("witness crate did not run: " + r.stdout[-1500:])
    for (w, line, cf, status) in tests:
        if w not in want:
            continue
        key = "%s@%s%s" % (w, line, "/compile_fail" if cf else "/twin")
        res.inst(key, status=status)
        res.oblige(status == "ok")
        if status != "ok":
            res.viol(key, "witness/src/lib.rs:%s" % line,
                     ("witness %s no longer fails to compile with its error code: the encapsulation it states is gone" % w) if cf else
                     ("the compiling twin of witness %s no longer compiles: the witness would pass vacuously" % w))
    return res
