"""GuardFlow: forward intraprocedural data-flow of constant bounds.

State: dict key -> IntervalSet (absent = unconstrained), keys:
   ('L', n)            value of integer/bool local n
   ('LEN', placekey)   length of the slice/Vec/str denoted by a root place (see len_key)
plus relational facts  ('LT', a_key, b_key) -> True  meaning value(a) < value(b)   (kept in a set)

Facts come only from branch edges over comparisons with constants / between tracked values,
`is_empty()`, integer switches, and simple arithmetic on constants. Join = union of interval sets
(weakest), relational facts are intersected. Loops: a bounded number of passes then widening to
'unconstrained' for keys that keep changing.
"""
from .core import (
    Resolver,
    callee_name,
    callee_written,
    const_val,
    is_const,
    is_place,
    norm_name,
    place_str,
    proj,
)

INF = float("inf")


class IS:
    """interval set over integers: sorted disjoint inclusive (lo, hi) pairs"""

    __slots__ = ("iv",)

    def __init__(self, iv):
        self.iv = tuple(iv)

    @staticmethod
    def top():
        return IS([(-INF, INF)])

    @staticmethod
    def exact(v):
        return IS([(v, v)])

    @staticmethod
    def range(lo, hi):
        if lo > hi:
            return IS([])
        return IS([(lo, hi)])

    def is_top(self):
        return self.iv == ((-INF, INF),)

    def is_empty(self):
        return not self.iv

    def lo(self):
        return self.iv[0][0] if self.iv else INF

    def hi(self):
        return self.iv[-1][1] if self.iv else -INF

    def union(self, o):
        ivs = sorted(self.iv + o.iv)
        out = []
        for lo, hi in ivs:
            if out and lo <= out[-1][1] + 1:
                out[-1] = (out[-1][0], max(out[-1][1], hi))
            else:
                out.append((lo, hi))
        return IS(out)

    def inter(self, o):
        out = []
        for a, b in self.iv:
            for c, d in o.iv:
                lo, hi = max(a, c), min(b, d)
                if lo <= hi:
                    out.append((lo, hi))
        return IS(sorted(out))

    def minus_point(self, v):
        return self.inter(IS([(-INF, v - 1), (v + 1, INF)]))

    def shift(self, c):
        return IS([(a + c, b + c) for a, b in self.iv])

    def contains(self, v):
        return any(a <= v <= b for a, b in self.iv)

    def disjoint_from(self, lo, hi):
        return self.inter(IS([(lo, hi)])).is_empty()

    def __eq__(self, o):
        return isinstance(o, IS) and self.iv == o.iv

    def __hash__(self):
        return hash(self.iv)

    def __repr__(self):
        def f(x):
            return "-inf" if x == -INF else "inf" if x == INF else str(int(x))
        return "{" + ",".join("%s..%s" % (f(a), f(b)) if a != b else f(a) for a, b in self.iv) + "}"


def ty_range(ty):
    m = {
        "u8": (0, 255), "u16": (0, 65535), "u32": (0, 2**32 - 1), "u64": (0, 2**64 - 1),
        "usize": (0, 2**64 - 1), "u128": (0, 2**128 - 1), "bool": (0, 1),
        "i8": (-128, 127), "i16": (-32768, 32767), "i32": (-2**31, 2**31 - 1),
        "i64": (-2**63, 2**63 - 1), "isize": (-2**63, 2**63 - 1),
    }
    return m.get(ty)


CMP = {"Lt", "Le", "Gt", "Ge", "Eq", "Ne"}
NEG = {"Lt": "Ge", "Le": "Gt", "Gt": "Le", "Ge": "Lt", "Eq": "Ne", "Ne": "Eq"}
SWAP = {"Lt": "Gt", "Le": "Ge", "Gt": "Lt", "Ge": "Le", "Eq": "Eq", "Ne": "Ne"}

LEN_CALLS = {
    "core::slice::len", "alloc::vec::Vec::len", "core::str::len", "heapless::vec::Vec::len",
    "arraydeque::ArrayDeque::len", "alloc::string::String::len",
    "core::iter::traits::exact_size::ExactSizeIterator::len",
}
EMPTY_CALLS = {
    "core::slice::is_empty", "alloc::vec::Vec::is_empty", "core::str::is_empty", "alloc::string::String::is_empty",
    "heapless::vec::Vec::is_empty", "arraydeque::ArrayDeque::is_empty",
}


class State:
    __slots__ = ("iv", "rel", "dead")

    def __init__(self, iv=None, rel=None, dead=False):
        self.iv = iv if iv is not None else {}
        self.rel = rel if rel is not None else set()
        self.dead = dead

    def copy(self):
        return State(dict(self.iv), set(self.rel), self.dead)

    def get(self, k):
        return self.iv.get(k, IS.top())

    def refine(self, k, s):
        cur = self.iv.get(k)
        n = s if cur is None else cur.inter(s)
        if n.is_empty():
            self.dead = True
        if n.is_top():
            self.iv.pop(k, None)
        else:
            self.iv[k] = n

    def kill(self, k):
        self.iv.pop(k, None)
        self.rel = {r for r in self.rel if r[1] != k and r[2] != k}

    def join(self, o):
        if self.dead:
            return o.copy()
        if o.dead:
            return self.copy()
        iv = {}
        for k, v in self.iv.items():
            if k in o.iv:
                u = v.union(o.iv[k])
                if not u.is_top():
                    iv[k] = u
        return State(iv, self.rel & o.rel, False)

    def same(self, o):
        return self.dead == o.dead and self.iv == o.iv and self.rel == o.rel


class GuardFlow:
    def __init__(self, fn, identity_calls=(), entry_facts=None, max_pass=6):
        self.fn = fn
        self.res = Resolver(fn)
        for c in identity_calls:
            self.res.identity.add(norm_name(c))
        self.entry_facts = entry_facts or {}
        self.max_pass = max_pass
        self._never_redef = {}
        self.block_in = {}
        self.block_out_edges = {}
        self._run()

    # ------------------------------------------------------------- keys
    def never_redefined(self, l):
        r = self._never_redef.get(l)
        if r is None:
            ds = [x for x in self.fn.defs().get(l, []) if x[2] != "partial"]
            if 1 <= l <= self.fn.nargs:
                r = len(ds) == 0
            else:
                r = len(ds) <= 1
            self._never_redef[l] = r
        return r

    def key_of(self, op):
        """key for an operand: integer local (whole) -> ('L', n); constants -> None"""
        if is_place(op) and not proj(op):
            return ("L", op["l"])
        if is_place(op):
            return ("P", place_str(op))
        return None

    def alias_chain(self, op):
        """keys of every stable value this operand was copied/converted from (incl. itself)"""
        out = []
        seen = set()
        while is_place(op):
            k = self.key_of(op)
            if k in seen:
                break
            seen.add(k)
            out.append(k)
            if proj(op):
                break
            l = op["l"]
            d = self.fn.single_def(l)
            if d is None or not self.never_redefined(l):
                break
            _, _, kind, payload = d
            nxt = None
            if kind == "assign":
                rv = payload
                if rv["k"] == "use":
                    nxt = rv["a"]
                elif rv["k"] == "cast" and rv.get("ck", "").startswith("IntToInt"):
                    # widening casts preserve value; narrowing ones do not — only follow when
                    # the target range contains the source range
                    fr, to = ty_range(rv.get("from")), ty_range(rv.get("ty"))
                    if fr and to and to[0] <= fr[0] and fr[1] <= to[1]:
                        nxt = rv["a"]
            elif kind == "call":
                t = payload
                cn, rn = callee_written(t) or "", callee_name(t) or ""
                if (cn in self.res.identity or rn in self.res.identity) and t["args"]:
                    nxt = t["args"][0]
            if nxt is None:
                break
            # the source must be stable (never redefined) or a projection-free temp
            if is_place(nxt) and not proj(nxt) and not self.never_redefined(nxt["l"]):
                break
            op = nxt
        return out

    def len_key(self, op):
        """('LEN', root place string) for the receiver operand of a len()/is_empty() call"""
        kind, payload, fields = self.res.root(op)
        if kind == "param":
            base = "_%d" % payload
        elif kind in ("multi", "undef"):
            base = "_%d" % payload
        elif kind == "call":
            bb, t = payload
            base = "call@%d" % bb
        else:
            return None
        return ("LEN", base + "".join("." + f[2] for f in fields))

    # ------------------------------------------------------------- transfer
    def _val(self, st, op):
        if is_const(op):
            v = const_val(op)
            return IS.exact(v) if v is not None else IS.top()
        k = self.key_of(op)
        if k is None:
            return IS.top()
        s = st.get(k)
        if s.is_top() and is_place(op) and not proj(op):
            r = ty_range(self.fn.local_ty(op["l"]))
            if r:
                return IS.range(*r)
        return s

    def _apply_stmt(self, st, stm):
        if stm["k"] != "assign":
            return
        p = stm["p"]
        if proj(p):
            # store through projection: kill facts about that exact place string
            st.kill(("P", place_str(p)))
            return
        l = p["l"]
        k = ("L", l)
        rv = stm["rv"]
        newv = None
        if rv["k"] == "use":
            a = rv["a"]
            newv = self._val(st, a)
            ak = self.key_of(a) if is_place(a) else None
        elif rv["k"] == "cast":
            a = rv["a"]
            v = self._val(st, a)
            to = ty_range(rv.get("ty"))
            if to and not v.is_top() and v.lo() >= to[0] and v.hi() <= to[1]:
                newv = v
        elif rv["k"] == "bin":
            op = rv["op"]
            a, b = self._val(st, rv["a"]), self._val(st, rv["b"])
            base = op.replace("WithOverflow", "").replace("Unchecked", "")
            if base == "Add" and not a.is_top() and not b.is_top() and a.iv and b.iv:
                newv = IS.range(a.lo() + b.lo(), a.hi() + b.hi())
            elif base == "Sub" and not a.is_top() and not b.is_top() and a.iv and b.iv:
                newv = IS.range(a.lo() - b.hi(), a.hi() - b.lo())
            elif base == "BitAnd" and not b.is_top() and b.iv and b.lo() >= 0:
                newv = IS.range(0, b.hi())
            elif base == "Rem" and not b.is_top() and b.iv and b.lo() > 0:
                newv = IS.range(0, b.hi() - 1)
            if "WithOverflow" in op:
                # result is a (value, overflowed) tuple: facts live on field .0
                st.kill(k)
                if newv is not None and not newv.is_top():
                    st.iv[("P", "_%d.0" % l)] = newv
                else:
                    st.kill(("P", "_%d.0" % l))
                return
        elif rv["k"] == "un" and rv["op"] == "PtrMetadata":
            # slice length: `_n = PtrMetadata(copy _s)`
            lk = self.len_key(rv["a"])
            st.kill(k)
            if lk is not None:
                v = st.get(lk)
                if not v.is_top():
                    st.iv[k] = v
                st.rel.add(("EQLEN", k, lk))
            return
        st.kill(k)
        if newv is not None and not newv.is_top():
            st.iv[k] = newv
        # relational facts copy: if a < X held for source, holds for the copy too
        if rv["k"] == "use" and is_place(rv["a"]):
            ak = self.key_of(rv["a"])
            for r in list(st.rel):
                if r[0] == "LT" and r[1] == ak:
                    st.rel.add(("LT", k, r[2]))
                if r[0] == "LT" and r[2] == ak:
                    st.rel.add(("LT", r[1], k))
                if r[0] == "EQLEN" and r[1] == ak:
                    st.rel.add(("EQLEN", k, r[2]))

    def _apply_call(self, st, t):
        d = t["dest"]
        if proj(d):
            return
        k = ("L", d["l"])
        st.kill(k)
        cn = callee_written(t) or ""
        rn = callee_name(t) or ""
        if (cn in LEN_CALLS or rn in LEN_CALLS) and t["args"]:
            lk = self.len_key(t["args"][0])
            if lk is not None:
                v = st.get(lk)
                st.iv[k] = v if not v.is_top() else IS.range(0, 2**64 - 1)
                st.rel.add(("EQLEN", k, lk))
            return
        if (cn in self.res.identity or rn in self.res.identity) and t["args"]:
            v = self._val(st, t["args"][0])
            if not v.is_top():
                st.iv[k] = v

    def _refine_cmp(self, st, op, a, b):
        """assume `a op b` holds"""
        va, vb = self._val(st, a), self._val(st, b)
        # value vs bounds of the other side
        for (x, vx, y, vy, o) in ((a, va, b, vb, op), (b, vb, a, va, SWAP[op])):
            if not is_place(x) or vy.is_empty():
                continue
            if o == "Lt":
                s = IS.range(-INF, vy.hi() - 1)
            elif o == "Le":
                s = IS.range(-INF, vy.hi())
            elif o == "Gt":
                s = IS.range(vy.lo() + 1, INF)
            elif o == "Ge":
                s = IS.range(vy.lo(), INF)
            elif o == "Eq":
                s = vy
            elif o == "Ne":
                if len(vy.iv) == 1 and vy.iv[0][0] == vy.iv[0][1]:
                    s = IS.top().minus_point(vy.iv[0][0])
                else:
                    s = IS.top()
            if s.is_top():
                continue
            for k in self.alias_chain(x):
                st.refine(k, s)
            # propagate to the length key if x aliases a len
            kx = self.key_of(x)
            for r in list(st.rel):
                if r[0] == "EQLEN" and r[1] in self.alias_chain(x):
                    st.refine(r[2], s)
        # relational: a < b between two places
        if is_place(a) and is_place(b):
            if op == "Lt":
                for ka in self.alias_chain(a):
                    for kb in self.alias_chain(b):
                        st.rel.add(("LT", ka, kb))
            elif op == "Gt":
                for ka in self.alias_chain(a):
                    for kb in self.alias_chain(b):
                        st.rel.add(("LT", kb, ka))

    def _cond_def(self, l):
        """definition of a bool local used in a switch: ('cmp', op, a, b) | ('call', t) | ('not', operand) | None"""
        ds = [x for x in self.fn.defs().get(l, []) if x[2] != "partial"]
        if len(ds) != 1:
            return None
        _, _, kind, payload = ds[0]
        if kind == "assign":
            rv = payload
            if rv["k"] == "bin" and rv["op"] in CMP:
                return ("cmp", rv["op"], rv["a"], rv["b"])
            if rv["k"] == "un" and rv["op"] == "Not":
                return ("not", rv["a"])
            if rv["k"] == "use" and is_place(rv["a"]) and not proj(rv["a"]):
                return self._cond_def(rv["a"]["l"])
        elif kind == "call":
            return ("call", payload)
        return None

    def _assume_bool(self, st, l, truth, depth=0):
        if depth > 4:
            return
        cd = self._cond_def(l)
        st.refine(("L", l), IS.exact(1 if truth else 0))
        if cd is None:
            return
        if cd[0] == "cmp":
            op = cd[1] if truth else NEG[cd[1]]
            self._refine_cmp(st, op, cd[2], cd[3])
        elif cd[0] == "not":
            a = cd[1]
            if is_place(a) and not proj(a):
                self._assume_bool(st, a["l"], not truth, depth + 1)
        elif cd[0] == "call":
            t = cd[1]
            cn, rn = callee_written(t) or "", callee_name(t) or ""
            if (cn in EMPTY_CALLS or rn in EMPTY_CALLS) and t["args"]:
                lk = self.len_key(t["args"][0])
                if lk is not None:
                    st.refine(lk, IS.exact(0) if truth else IS.range(1, INF))
            elif rn.split("::")[-1] == "contains" and "core::ops::range::Range" in rn and len(t["args"]) == 2:
                # `(LO..=HI).contains(&x)` is the range pattern `LO..=HI` written as a call
                rng = self._const_range(t["args"][0])
                item = t["args"][1]
                # &x, possibly reborrowed: `_a = &(*_b); _b = &_x`
                tgt = None
                for _ in range(4):
                    d = self.fn.single_def(item["l"]) if is_place(item) and not proj(item) else None
                    if not (d and d[2] == "assign" and d[3]["k"] == "ref"):
                        break
                    pp = d[3]["p"]
                    if not proj(pp):
                        tgt = pp
                        break
                    if proj(pp) != ["*"]:
                        break
                    item = {"l": pp["l"]}
                if rng is not None and tgt is not None:
                    lo, hi = rng
                    s = IS.range(lo, hi) if truth else IS.range(-INF, lo - 1).union(IS.range(hi + 1, INF))
                    for k in self.alias_chain(tgt):
                        st.refine(k, s)

    def _const_range(self, op):
        """(lo, hi) inclusive when op is (a reference to) a range with constant bounds: RangeInclusive::new(a, b),
        Range { start, end }"""
        kind, payload, _ = self.res.root(op)
        if kind == "const" and "promoted" in payload["c"]:
            # `&(LO..=HI)` with constant bounds is promoted to a constant: read the promoted body
            try:
                pb = self.fn.j.get("promoted", [])[payload["c"]["promoted"]]
            except IndexError:
                pb = None
            for b in (pb or {}).get("blocks", []):
                t = b["t"]
                if t["k"] == "call" and norm_name(callee_name(t) or "").endswith("RangeInclusive::new") and len(t["args"]) == 2 \
                        and all(is_const(a) and const_val(a) is not None for a in t["args"]):
                    return (const_val(t["args"][0]), const_val(t["args"][1]))
                for st in b["s"]:
                    rv = st.get("rv") or {}
                    if rv.get("k") == "agg" and (rv.get("adt") or "").endswith("ops::range::Range") and len(rv["ops"]) == 2 \
                            and all(is_const(o) and const_val(o) is not None for o in rv["ops"]):
                        return (const_val(rv["ops"][0]), const_val(rv["ops"][1]) - 1)
            return None
        if kind == "call":
            t = payload[1]
            if norm_name(callee_name(t) or "").endswith("RangeInclusive::new") and len(t["args"]) == 2:
                a, b = const_val(t["args"][0]) if is_const(t["args"][0]) else None, const_val(t["args"][1]) if is_const(t["args"][1]) else None
                if a is not None and b is not None:
                    return (a, b)
        if kind == "agg":
            rv = payload[2]
            if (rv.get("adt") or "").endswith("ops::range::Range") and len(rv["ops"]) == 2 and all(is_const(o) for o in rv["ops"]):
                a, b = const_val(rv["ops"][0]), const_val(rv["ops"][1])
                if a is not None and b is not None:
                    return (a, b - 1)
        return None

    def edge_state(self, bb, st_out, succ):
        """state on edge bb->succ given state at end of bb (before terminator effects on edges)"""
        t = self.fn.term(bb)
        st = st_out.copy()
        if t["k"] == "switch":
            d = t["d"]
            vals = [v for v, tb in t["ts"] if tb == succ]
            is_other = t["o"] == succ
            if is_place(d) and (not proj(d) or t.get("dty") != "bool"):
                l = d["l"]
                if t.get("dty") == "bool":
                    if vals and not is_other:
                        self._assume_bool(st, l, bool(vals[0]))
                    elif is_other and not vals:
                        listed = {v for v, _ in t["ts"]}
                        if listed == {0}:
                            self._assume_bool(st, l, True)
                        elif listed == {1}:
                            self._assume_bool(st, l, False)
                else:
                    allv = [v for v, _ in t["ts"]]
                    if vals and not is_other:
                        s = IS([])
                        for v in vals:
                            s = s.union(IS.exact(v))
                        for k in self.alias_chain(d):
                            st.refine(k, s)
                        for r in list(st.rel):
                            if r[0] == "EQLEN" and r[1] in self.alias_chain(d):
                                st.refine(r[2], s)
                    elif is_other:
                        s = IS.top()
                        for v in allv:
                            if v not in vals:
                                s = s.minus_point(v)
                        for k in self.alias_chain(d):
                            st.refine(k, s)
                        for r in list(st.rel):
                            if r[0] == "EQLEN" and r[1] in self.alias_chain(d):
                                st.refine(r[2], s)
        elif t["k"] == "assert":
            # after a passing assert the condition holds
            c = t["c"]
            if is_place(c) and not proj(c):
                self._assume_bool(st, c["l"], bool(t["exp"]))
        return st

    def _run(self):
        fn = self.fn
        order = fn.rpo()
        init = State()
        for k, v in self.entry_facts.items():
            init.iv[k] = v
        self.block_in = {0: init}
        out_states = {}
        passes = 0
        changed = True
        counts = {}
        while changed:
            if passes > 80:
                from .facts import Broken
                raise Broken('GuardFlow did not converge in %s' % fn.norm)
            changed = False
            passes += 1
            for b in order:
                if b == 0:
                    s_in = init
                else:
                    s_in = None
                    for p in fn.preds(b):
                        if p in out_states:
                            e = self.edge_state(p, out_states[p], b)
                            if e.dead:
                                continue
                            s_in = e if s_in is None else s_in.join(e)
                    if s_in is None:
                        continue
                old = self.block_in.get(b)
                if old is not None and b != 0:
                    if passes > self.max_pass:
                        # widening: drop keys that still change
                        for k in list(s_in.iv):
                            if old.iv.get(k) != s_in.iv[k]:
                                del s_in.iv[k]
                        for k in list(old.iv):
                            if k not in s_in.iv:
                                pass
                    # monotone accumulate (join with old to guarantee convergence)
                    s_in = old.join(s_in) if not old.dead else s_in
                if old is None or not old.same(s_in):
                    self.block_in[b] = s_in
                    changed = True
                st = self.block_in[b].copy()
                for stm in fn.stmts(b):
                    self._apply_stmt(st, stm)
                t = fn.term(b)
                if t["k"] == "call":
                    self._apply_call(st, t)
                out_states[b] = st
        self.out_states = out_states

    # ------------------------------------------------------------- queries
    def state_before_term(self, bb):
        st = self.block_in.get(bb)
        if st is None:
            return None
        st = st.copy()
        for stm in self.fn.stmts(bb):
            self._apply_stmt(st, stm)
        return st

    def value_at_term(self, bb, op):
        st = self.state_before_term(bb)
        if st is None:
            return None  # unreachable
        best = self._val(st, op)
        for k in self.alias_chain(op):
            best = best.inter(st.get(k))
        return best
