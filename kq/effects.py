"""Field effects: which (ADT, field) pairs a function reads / writes, directly and transitively."""
from collections import defaultdict

from .core import callee_name, is_place, norm_name, proj, rvalue_operands

MUTATORS = (
    "push", "push_back", "push_front", "pop", "pop_back", "pop_front", "insert", "remove", "retain", "clear",
    "drain", "extend", "extend_back", "extend_front", "truncate", "take", "replace", "iter_mut", "as_mut",
    "get_mut", "swap_remove", "set", "entry", "get_or_insert_with", "sort", "sort_by", "dedup", "append",
    "last_mut", "first_mut", "deref_mut", "back_mut", "front_mut", "index_mut", "for_each",
)


def _field_elems(p):
    """[(adt, field, is_last_field)] for a place"""
    pr = proj(p)
    idxs = [i for i, e in enumerate(pr) if isinstance(e, dict) and "f" in e and e.get("adt")]
    out = []
    for n, i in enumerate(idxs):
        e = pr[i]
        out.append((e["adt"], e["f"], n == len(idxs) - 1))
    return out


class Effects:
    def __init__(self, prog):
        self.prog = prog
        self._direct = {}
        self._trans = {}

    def direct(self, f):
        """returns dict: reads_whole, reads_through, writes  (sets of (adt, field)); plus borrowed_mut"""
        e = self._direct.get(f.name)
        if e is not None:
            return e
        rw, rt, wr, bm = set(), set(), set(), set()
        rw_ext = set()  # whole reads not merely handed to another kanata function
        ref_of = {}  # local -> (adt, field) when the local is `&place.field` (whole field borrowed)
        # locals holding `&mut place.field` -> the field (so that method calls on them count as mutation)
        mut_refs = {}
        for bi in f.reachable():
            for st in f.stmts(bi):
                if st["k"] != "assign":
                    if st["k"] == "setdiscr":
                        for (a, fld, last) in _field_elems(st["p"]):
                            if last:
                                wr.add((a, fld))
                    continue
                # destination
                fe = _field_elems(st["p"])
                for (a, fld, last) in fe:
                    if last:
                        wr.add((a, fld))
                    else:
                        rt.add((a, fld))
                rv = st["rv"]
                for o in rvalue_operands(rv):
                    if is_place(o):
                        for (a, fld, last) in _field_elems(o):
                            (rw if last else rt).add((a, fld))
                            if last and rv["k"] not in ("ref", "rawptr"):
                                rw_ext.add((a, fld))
                if rv["k"] == "ref" and not proj(st["p"]):
                    fe3 = _field_elems(rv["p"])
                    if fe3 and fe3[-1][2]:
                        ref_of[st["p"]["l"]] = (fe3[-1][0], fe3[-1][1])
                if rv["k"] == "use" and is_place(rv["a"]) and not proj(rv["a"]) and rv["a"]["l"] in ref_of and not proj(st["p"]):
                    ref_of[st["p"]["l"]] = ref_of[rv["a"]["l"]]
                if rv["k"] == "ref" and proj(rv["p"]) == ["*"] and rv["p"]["l"] in ref_of and not proj(st["p"]):
                    ref_of[st["p"]["l"]] = ref_of[rv["p"]["l"]]        # reborrow `&*r` of `r = &place.field`
                if rv["k"] == "ref" and rv.get("mut"):
                    fe2 = _field_elems(rv["p"])
                    for (a, fld, last) in fe2:
                        if last:
                            bm.add((a, fld))
                            if not proj(st["p"]):
                                mut_refs[st["p"]["l"]] = (a, fld)
            t = f.term(bi)
            ops = []
            if t["k"] == "call":
                ops = list(t["args"])
                for (a, fld, last) in _field_elems(t["dest"]):
                    if last:
                        wr.add((a, fld))
                    else:
                        rt.add((a, fld))
            elif t["k"] == "switch":
                ops = [t["d"]]
            elif t["k"] == "drop":
                pass
            local_callee = t["k"] == "call" and (callee_name(t) or "").startswith("kanata")
            for o in ops:
                if is_place(o):
                    for (a, fld, last) in _field_elems(o):
                        (rw if last else rt).add((a, fld))
                        if last and not local_callee:
                            rw_ext.add((a, fld))
                    if not proj(o) and o["l"] in ref_of and not local_callee:
                        rw_ext.add(ref_of[o["l"]])
            if t["k"] == "call" and t["args"]:
                cn = (callee_name(t) or "")
                meth = cn.split("::")[-1]
                a0 = t["args"][0]
                if is_place(a0) and not proj(a0) and a0["l"] in mut_refs:
                    # any call taking a `&mut field` receiver: external -> mutation if a mutator name,
                    # local -> its own effects are accounted transitively, but the borrow itself marks a write
                    if meth in MUTATORS or not cn.startswith("kanata"):
                        if meth in MUTATORS:
                            wr.add(mut_refs[a0["l"]])
        e = {"reads": rw, "through": rt, "writes": wr, "borrow_mut": bm, "reads_ext": rw_ext}
        self._direct[f.name] = e
        return e

    def transitive(self, root_norms, stop=()):
        """union of direct effects over all functions reachable from roots"""
        reach = self.prog.reachable_from(root_norms, stop=stop)
        out = {"reads": set(), "through": set(), "writes": set(), "borrow_mut": set(), "reads_ext": set()}
        per_fn = {}
        for n in reach:
            for f in self.prog.by_norm.get(n, []):
                e = self.direct(f)
                per_fn[f.norm] = e
                for k in out:
                    out[k] |= e[k]
        return out, per_fn, reach
