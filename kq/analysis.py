"""Reusable analyses over Fn bodies: enum-switch arms, region predicates, simple provenance."""
from .core import (
    Resolver,
    callee_name,
    callee_written,
    const_val,
    is_const,
    is_place,
    norm_name,
    place_str,
    proj,
    proj_fields,
    rvalue_operands,
)
from .facts import Broken


class EnumSwitch:
    def __init__(self, fn, bb, adt, place, arms, otherwise, all_variants):
        self.fn = fn
        self.bb = bb
        self.adt = adt
        self.place = place  # the scrutinee place
        self.arms = arms  # variant name -> target bb (explicit)
        self.otherwise = otherwise  # bb or None
        self.all_variants = all_variants  # list of variant names of the adt

    def target(self, variant):
        """target block of a variant (explicit arm, else otherwise)"""
        if variant in self.arms:
            return self.arms[variant]
        return self.otherwise

    def explicit(self):
        return set(self.arms)

    def in_otherwise(self):
        return [v for v in self.all_variants if v not in self.arms]

    def arm_reach(self, variant):
        t = self.target(variant)
        if t is None:
            return set()
        return self.fn.reach_from(t, avoid=[self.bb])

    def arm_region(self, variant):
        """blocks that can only be reached through this variant's arm target"""
        t = self.target(variant)
        if t is None:
            return set()
        reg = self.fn.dominated_by(t)
        j = self._or_pattern_body(t)
        if j is not None:
            reg = reg | self.fn.dominated_by(j)
        return reg

    def _or_pattern_body(self, t):
        """`A { x } | B { x } => body`: each variant's arm target is a block that only copies the bindings out of the scrutinee
        and jumps to the shared body, which nothing else enters. The body belongs to the arm of every variant of the pattern."""
        fn = self.fn

        def binding_block(b):
            tt = fn.term(b)
            if tt["k"] != "goto":
                return None
            for st in fn.stmts(b):
                if st["k"] != "assign" or st["rv"]["k"] not in ("use", "ref"):
                    return None
                src = st["rv"].get("a") or st["rv"].get("p")
                if not (is_place(src) and any(isinstance(e, dict) and "dc" in e for e in proj(src))):
                    return None
            return tt["t"]
        j = binding_block(t)
        if j is None:
            return None
        targets = set(self.arms.values())
        preds = fn.preds(j)
        if len(preds) < 2 or not all(p_ in targets and binding_block(p_) == j for p_ in preds):
            return None
        return j


def discr_switches(prog, fn, adt=None):
    """all switches on an enum discriminant in fn (optionally of a given ADT)"""
    out = []
    for bi in sorted(fn.reachable()):
        t = fn.term(bi)
        if t["k"] != "switch":
            continue
        d = t["d"]
        if not is_place(d) or proj(d):
            continue
        df = fn.single_def(d["l"])
        if df is None:
            # discriminant temp may be assigned in several blocks (rare) — look in same block
            cands = [x for x in fn.defs().get(d["l"], []) if x[0] == bi and x[2] == "assign"]
            if not cands:
                continue
            df = cands[-1]
        _, _, kind, rv = df
        if kind != "assign" or rv["k"] != "discr":
            continue
        a = rv.get("adt")
        if adt is not None and a != adt:
            continue
        if a is None:
            continue
        try:
            variants = prog.enum_variants(a)
        except Broken:
            continue
        arms = {}
        for val, tb in t["ts"]:
            # discriminant values are printed as u128 bit patterns; map through the table
            name = variants.get(val)
            if name is None:
                # negative discriminants: try signed reinterpretations
                for bits in (8, 16, 32, 64, 128):
                    if val >= (1 << (bits - 1)) and (val - (1 << bits)) in variants:
                        name = variants[val - (1 << bits)]
                        break
            if name is not None:
                arms[name] = tb
        otherwise = t["o"]
        # an `otherwise` that is an unreachable block means "no other variant"
        if fn.term(otherwise)["k"] == "unreachable" and not fn.stmts(otherwise):
            otherwise = None
        out.append(EnumSwitch(fn, bi, a, rv["p"], arms, otherwise, list(variants.values())))
    return out


def block_assigns(fn, bb):
    for si, st in enumerate(fn.stmts(bb)):
        if st["k"] == "assign":
            yield si, st["p"], st["rv"]


def blocks_with_agg(fn, blocks, adt, variant, to_local=None):
    """blocks in `blocks` that build aggregate adt::variant (optionally assigned to given local)"""
    out = []
    for b in blocks:
        for si, p, rv in block_assigns(fn, b):
            if rv["k"] == "agg" and rv.get("adt") == adt and rv.get("v") == variant:
                if to_local is None or (p["l"] == to_local and not proj(p)):
                    out.append((b, si))
    return out


def blocks_calling(fn, blocks, names):
    """(bb, term) in blocks whose call's resolved or written callee is in names (normalised)"""
    names = set(names)
    out = []
    for b in blocks:
        t = fn.term(b)
        if t["k"] == "call":
            if callee_name(t) in names or callee_written(t) in names:
                out.append((b, t))
    return out


def blocks_reading_field(fn, blocks, adt, field, variant=None):
    out = []
    for b in blocks:
        hit = False
        for st in fn.stmts(b):
            if st["k"] != "assign":
                continue
            for o in rvalue_operands(st["rv"]):
                if is_place(o):
                    for (a, v, f) in proj_fields(o):
                        if a == adt and f == field and (variant is None or v == variant):
                            hit = True
        t = fn.term(b)
        ops = []
        if t["k"] == "call":
            ops = t["args"]
        elif t["k"] == "switch":
            ops = [t["d"]]
        for o in ops:
            if is_place(o):
                for (a, v, f) in proj_fields(o):
                    if a == adt and f == field and (variant is None or v == variant):
                        hit = True
        if hit:
            out.append(b)
    return out


def writes_to_field(fn, adt, field):
    """(bb, idx, stmt) assignments whose destination place projects through adt.field as the
    LAST field projection (a direct store to that field)"""
    out = []
    for bi, si, st in fn.all_rvalues():
        pf = proj_fields(st["p"])
        if pf and pf[-1][0] == adt and pf[-1][2] == field:
            # make sure it is the final projection element (not a store to a sub-field/index)
            out.append((bi, si, st))
    return out


def control_deps(fn, target_bb):
    """Set of (switch_bb, taken_successor) on which target_bb is control dependent, computed
    transitively back to the entry: every branch block B with a successor S such that target is
    reachable only via S among B's successors... Conservative definition used here:
    edge (B->S) is a *necessary edge* for target if removing it makes target unreachable from entry."""
    out = []
    reach_all = fn.reachable()
    if target_bb not in reach_all:
        return out
    for b in sorted(reach_all):
        ss = fn.succs(b)
        if len(ss) < 2:
            continue
        for s_ in ss:
            if _reachable_without_edge(fn, target_bb, (b, s_)):
                continue
            out.append((b, s_))
    return out


def _reachable_without_edge(fn, target, edge):
    seen = {0}
    st = [0]
    while st:
        b = st.pop()
        if b == target:
            return True
        for s_ in fn.succs(b):
            if (b, s_) == edge:
                continue
            if s_ not in seen:
                seen.add(s_)
                st.append(s_)
    return False


def switch_edge_value(fn, b, s_):
    """for switch block b and successor s_, the list of values leading to s_ and whether s_ is otherwise"""
    t = fn.term(b)
    if t["k"] != "switch":
        return None
    vals = [v for v, tb in t["ts"] if tb == s_]
    return vals, (t["o"] == s_)


def all_operands_in_block(fn, b):
    ops = []
    for st in fn.stmts(b):
        if st["k"] == "assign":
            ops.extend(rvalue_operands(st["rv"]))
    t = fn.term(b)
    if t["k"] == "call":
        ops.extend(t["args"])
    elif t["k"] == "switch":
        ops.append(t["d"])
    elif t["k"] == "assert":
        ops.append(t["c"])
    return ops


def fn_reads_fields(fn):
    """set of (adt, field) read anywhere in fn (any operand / place projections, incl. refs taken)"""
    out = set()
    for b in fn.reachable():
        for o in all_operands_in_block(fn, b):
            if is_place(o):
                for (a, v, f) in proj_fields(o):
                    out.add((a, f))
        t = fn.term(b)
        if t["k"] == "call":
            for (a, v, f) in proj_fields(t["dest"]):
                out.add((a, f))
    return out


def returns_of_variant(prog, fn, adt, variant):
    """blocks that assign aggregate adt::variant into the return place _0 (directly) — plus
    blocks where a local later moved to _0 is built (one level)"""
    out = []
    for bi, si, st in fn.all_rvalues():
        rv = st["rv"]
        if rv["k"] == "agg" and rv.get("adt") == adt and rv.get("v") == variant:
            if st["p"]["l"] == 0 and not proj(st["p"]):
                out.append(bi)
    return out


def fmt_fn_line(fn, bb, idx="t"):
    ln = fn.line_of(bb, idx)
    return "%s:%s" % (fn.file, ln)


def backward_fields(fn, operand, maxdepth=60):
    """(adt, field) pairs read on the backward slice of an operand through local definitions
    (all definitions of each local; call results depend on all call arguments)."""
    out = set()
    seen = set()
    work = [(operand, 0)]
    while work:
        o, d = work.pop()
        if not is_place(o):
            continue
        for (a, v, f) in proj_fields(o):
            out.add((a, f))
        l = o["l"]
        if l in seen or d > maxdepth:
            continue
        seen.add(l)
        for (bb, idx, kind, payload) in fn.defs().get(l, []):
            if kind == "assign":
                for x in rvalue_operands(payload):
                    work.append((x, d + 1))
            elif kind == "call":
                for x in payload["args"]:
                    work.append((x, d + 1))
            elif kind == "partial":
                st = payload
                if isinstance(st, dict) and st.get("k") == "assign":
                    for x in rvalue_operands(st["rv"]):
                        work.append((x, d + 1))
        # a reference local: `_r = &mut (*_1).field` then `(*_r) = ...` handled by caller
    return out


def ref_targets(fn):
    """local -> place it borrows (`_l = &[mut] place`), single definition only"""
    out = {}
    for l, ds in fn.defs().items():
        whole = [x for x in ds if x[2] != "partial"]
        if len(whole) == 1 and whole[0][2] == "assign" and whole[0][3]["k"] == "ref":
            out[l] = whole[0][3]["p"]
    return out


def backward_slice(fn, operand, maxdepth=60):
    """(fields_read, callee names, const values) on the backward slice of an operand"""
    fields, callees, consts = set(), set(), []
    seen = set()
    work = [(operand, 0)]
    while work:
        o, d = work.pop()
        if is_const(o):
            consts.append(o)
            continue
        if not is_place(o):
            continue
        for (a, v, f) in proj_fields(o):
            fields.add((a, f))
        l = o["l"]
        if l in seen or d > maxdepth:
            continue
        seen.add(l)
        for (bb, idx, kind, payload) in fn.defs().get(l, []):
            if kind == "assign":
                for x in rvalue_operands(payload):
                    work.append((x, d + 1))
            elif kind == "call":
                callees.add(callee_name(payload) or "?")
                for x in payload["args"]:
                    work.append((x, d + 1))
    return fields, callees, consts


def _promoted_variant(fn, operand, adt):
    """variant name if operand is (a ref to) a promoted constant / aggregate of enum `adt`"""
    if is_const(operand) and "promoted" in operand["c"]:
        pb = fn.j.get("promoted", [])[operand["c"]["promoted"]]
        for b in pb["blocks"]:
            for st in b["s"]:
                if st["k"] == "assign" and st["rv"]["k"] == "agg" and st["rv"].get("adt") == adt:
                    return st["rv"]["v"]
    return None


def reach_under_variant(prog, fn, adt, variant, start=0):
    """Blocks reachable from `start` when every value of enum type `adt` inspected by the function is
    `variant`: switches on Discriminant(place: adt) follow that arm only; bool switches on
    PartialEq::eq/ne(&place: adt, &CONST_VARIANT) are decided; bool temporaries assigned constants on
    the explored path (the shape `matches!` compiles to) and their negations are tracked, so the
    exploration is path-sensitive in those booleans; everything else follows all edges."""
    res = Resolver(fn)
    seen_states = set()
    seen = set()
    st = [(start, frozenset())]
    while st:
        b, env = st.pop()
        if (b, env) in seen_states:
            continue
        seen_states.add((b, env))
        seen.add(b)
        envd = dict(env)
        for stm in fn.stmts(b):
            if stm["k"] != "assign" or proj(stm["p"]):
                continue
            l = stm["p"]["l"]
            rv = stm["rv"]
            envd.pop(l, None)
            if rv["k"] == "use" and is_const(rv["a"]) and rv["a"]["c"].get("ty") == "bool" and rv["a"]["c"].get("v") in (0, 1):
                envd[l] = rv["a"]["c"]["v"]
            elif rv["k"] == "use" and is_place(rv["a"]) and not proj(rv["a"]) and rv["a"]["l"] in envd:
                envd[l] = envd[rv["a"]["l"]]
            elif rv["k"] == "un" and rv["op"] == "Not" and is_place(rv["a"]) and not proj(rv["a"]) and rv["a"]["l"] in envd:
                envd[l] = 1 - envd[rv["a"]["l"]]
        t = fn.term(b)
        succs = fn.succs(b)
        if t["k"] == "call" and not proj(t["dest"]):
            envd.pop(t["dest"]["l"], None)
        if t["k"] == "switch" and is_place(t["d"]) and not proj(t["d"]):
            dl = t["d"]["l"]
            decided = None
            if dl in envd and t.get("dty") == "bool":
                tgt = None
                for val, tb in t["ts"]:
                    if val == envd[dl]:
                        tgt = tb
                decided = [tgt if tgt is not None else t["o"]]
            d = fn.single_def(dl)
            if decided is None and d and d[2] == "assign" and d[3]["k"] == "discr" and d[3].get("adt") == adt:
                vs = prog.enum_variants(adt)
                want = [k for k, v in vs.items() if v == variant]
                tgt = None
                for val, tb in t["ts"]:
                    if want and val == want[0]:
                        tgt = tb
                decided = [tgt if tgt is not None else t["o"]]
            elif decided is None and d and d[2] == "call":
                ct = d[3]
                cn = callee_written(ct) or ""
                if cn in ("core::cmp::PartialEq::ne", "core::cmp::PartialEq::eq") and len(ct["args"]) == 2:
                    tys = [fn.local_adt(a["l"]) if is_place(a) else None for a in ct["args"]]
                    if adt in tys:
                        other = None
                        for a in ct["args"]:
                            r = res.root(a)
                            if r[0] == "const":
                                pv = _promoted_variant(fn, r[1], adt)
                                if pv:
                                    other = pv
                            elif r[0] == "agg" and r[1][2].get("adt") == adt:
                                other = r[1][2]["v"]
                        if other is not None:
                            truth = (variant == other) if cn.endswith("::eq") else (variant != other)
                            tgt = None
                            for val, tb in t["ts"]:
                                if val == (1 if truth else 0):
                                    tgt = tb
                            decided = [tgt if tgt is not None else t["o"]]
            if decided is not None:
                succs = decided
        nenv = frozenset(envd.items())
        for s_ in succs:
            st.append((s_, nenv))
    return seen


def control_deps(fn, block, pd=None):
    """switch blocks that `block` is control dependent on: S has a successor from which `block` is unavoidable
    (block post-dominates it, or is it) while `block` is avoidable from S itself"""
    pd = pd if pd is not None else fn.postdominators(fn.exit_blocks())
    out = []
    for S in fn.reachable():
        t = fn.term(S)
        if t["k"] != "switch":
            continue
        ss = [s for s in fn.succs(S) if not fn.is_cleanup(s)]
        if len(ss) < 2:
            continue
        hit = [s for s in ss if s == block or fn.postdominates(block, s, pd)]
        if hit and len(hit) < len(ss) and not (S != block and fn.postdominates(block, S, pd)):
            out.append(S)
    return out


def dependence_slice(fn, block, extra_operands=(), maxdepth=40):
    """(fields read, callee names) that decide whether `block` runs and what `extra_operands` are: the closure of control
    dependence (switch operands) and data dependence (definitions of the locals involved, including the control
    dependences of the blocks where they are defined)."""
    pd = fn.postdominators(fn.exit_blocks())
    fields, callees = set(), set()
    seen_blocks, seen_locals = set(), set()
    bwork, owork = [block], [(o, 0) for o in extra_operands]
    while bwork or owork:
        while owork:
            o, d = owork.pop()
            if not is_place(o):
                continue
            for (a, v, f_) in proj_fields(o):
                fields.add((a, f_))
            l = o["l"]
            if l in seen_locals or d > maxdepth:
                continue
            seen_locals.add(l)
            for (bb, idx, kind, payload) in fn.defs().get(l, []):
                if bb not in seen_blocks:
                    bwork.append(bb)
                if kind == "assign":
                    for x in rvalue_operands(payload):
                        owork.append((x, d + 1))
                elif kind == "call":
                    callees.add(callee_name(payload) or "?")
                    for x in payload["args"]:
                        owork.append((x, d + 1))
        while bwork:
            b = bwork.pop()
            if b in seen_blocks:
                continue
            seen_blocks.add(b)
            for S in control_deps(fn, b, pd):
                t = fn.term(S)
                op = t.get("d") if t.get("d") is not None else t.get("op")
                if op is not None:
                    owork.append((op, 0))
                if S not in seen_blocks:
                    bwork.append(S)
    return fields, callees


def reach_with_oracle(fn, oracle, start=0):
    """Blocks reachable from `start` when some run-time facts are fixed. `oracle(kind, payload)` is asked for
    ("field", place) on `x = copy place.field` and for ("call", terminator) on calls; it returns 0 / 1 for a boolean it
    fixes, None otherwise. Bool locals assigned constants, copies and negations of known bools are tracked (the shape
    `a || b`, `!x`, `matches!` compile to); switches on known bools follow one edge, everything else follows all edges."""
    seen_states, seen = set(), set()
    st = [(start, frozenset())]
    while st:
        b, env = st.pop()
        if (b, env) in seen_states:
            continue
        seen_states.add((b, env))
        seen.add(b)
        envd = dict(env)
        for stm in fn.stmts(b):
            if stm["k"] != "assign" or proj(stm["p"]):
                continue
            l = stm["p"]["l"]
            rv = stm["rv"]
            envd.pop(l, None)
            if rv["k"] == "use":
                a = rv["a"]
                if is_const(a) and a["c"].get("ty") == "bool" and a["c"].get("v") in (0, 1):
                    envd[l] = a["c"]["v"]
                elif is_place(a) and not proj(a) and a["l"] in envd:
                    envd[l] = envd[a["l"]]
                elif is_place(a) and proj(a):
                    v = oracle("field", a)
                    if v is not None:
                        envd[l] = v
            elif rv["k"] == "un" and rv["op"] == "Not" and is_place(rv["a"]) and not proj(rv["a"]) and rv["a"]["l"] in envd:
                envd[l] = 1 - envd[rv["a"]["l"]]
        t = fn.term(b)
        succs = [s_ for s_ in fn.succs(b) if not fn.is_cleanup(s_)]
        if t["k"] == "call" and not proj(t["dest"]):
            envd.pop(t["dest"]["l"], None)
            v = oracle("call", t)
            if v is not None:
                envd[t["dest"]["l"]] = v
        elif t["k"] == "switch" and t.get("dty") == "bool":
            d = t["d"]
            v = None
            if is_place(d) and not proj(d):
                v = envd.get(d["l"])
            elif is_place(d):
                v = oracle("field", d)
            if v is not None:
                tgt = None
                for val, tb in t["ts"]:
                    if val == v:
                        tgt = tb
                succs = [tgt if tgt is not None else t["o"]]
        nenv = frozenset(envd.items())
        for s_ in succs:
            st.append((s_, nenv))
    return seen


def calls_incl_closures(prog, f, pred):
    """(block, terminator) of every call in f for which pred(callee terminator) holds, plus every call in f that is
    *handed a closure* (defined in f) whose body - or a closure nested in it - makes such a call: `opt.map_or(d, |s|
    self.dequeue(s))` counts as a place where f calls dequeue, at the block of the map_or call."""
    from .core import Resolver, norm_name
    out = []
    clos = {c.norm: c for c in prog.closures_of(f)}

    def body_calls(c, seen):
        if c.norm in seen:
            return False
        seen.add(c.norm)
        for _, t in c.calls():
            if pred(t):
                return True
        for _b, _s, st in c.all_rvalues():
            rv = st["rv"]
            if rv["k"] == "agg" and "clo" in rv:
                g = clos.get(norm_name(rv["clo"])) or prog.fn_opt(norm_name(rv["clo"]))
                if g is not None and body_calls(g, seen):
                    return True
        return False
    for bi, t in f.calls():
        if pred(t):
            out.append((bi, t))
            continue
        for a in t["args"]:
            if not is_place(a):
                continue
            r = Resolver(f).root(a)
            if r[0] == "agg" and "clo" in r[1][2]:
                c = prog.fn_opt(norm_name(r[1][2]["clo"]))
                if c is not None and body_calls(c, set()):
                    out.append((bi, t))
                    break
    return out
