"""property id -> rules, explanation of what is / is not decided"""
from rules import r_coord

PROPS = {
    "C01": {
        "rules": [r_coord.run],
        "explanation": "Decides structural clauses of 'no stuck output': (R-COORD) every State variant created at a "
                       "coordinate is removable by Release at that coordinate and the three coordinate predicates agree.",
        "not_decided": "bounded-time liveness over all histories; diff logic prev_keys/cur_keys; timeout arithmetic",
    },
}

NOT_APPLICABLE = {
    "C17": "tap counting and N-th action selection are arithmetic on run-time counters; no clause is a shape of the code beyond index safety, which C02's panic audit covers",
    "C20": "net-text correctness is counter arithmetic over run-time dictionaries; no sound static argument in reach bounds it",
}
