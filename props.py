"""property id -> rules, explanation of what is / is not decided"""
from rules import r_hist, r_lock, r_errdrop, r_coord, r_keyid, r_opcode, r_doaction, r_cancel, r_idle, r_loop, r_traverse, r_repeat, r_chv2, r_wait, r_macro, r_seq, r_override, r_reload, r_pipeline, r_dynmacro, r_vkey, r_layers, r_panic, r_prodcons, r_span, r_rec, r_evict, r_coordspace, r_loopvar, r_depth, r_countdown, r_accessor, r_scratch, r_sticky, r_buildall, r_tickorder, r_custom, r_statesorder, r_srckeys, r_iterwhole, r_boolshort, r_argnames, r_nametable, r_heldscan

PROPS = {
    "C01": {
        "rules": [r_coord.run, r_doaction.rule_state_push, r_cancel.run, r_cancel.rule_owed, r_chv2.rule_rel, r_evict.run, r_countdown.run, r_tickorder.rule_wait_gate, r_cancel.rule_retain_all, r_tickorder.rule_queue_trans, r_custom.run, r_scratch.run, r_macro.rule_evicted_release, r_nametable.run, r_custom.rule_fold_acc, r_idle.run_only("Kanata", "Layout", "OneShotState", "ChordsV2", "ActiveChord", "WaitingState", "SequenceState", "OverrideStates", "ScrollState", "MoveMouseState", "MoveMouseAccelState", "CapsWordState", "DynamicMacroReplayState"), r_tickorder.rule_overflow_all, r_tickorder.rule_stack_dedup],
        "explanation": "Decides structural clauses of 'no stuck output': (R-COORD) every State variant created at a "
                       "coordinate is removable by Release at that coordinate and the three coordinate predicates agree; "
                       "(R-STATE-PUSH) arms of do_action that create coordinate-keyed state do so on every path and the custom "
                       "press handler only runs when its state was stored."
                       " Added in session 4: (R-CUSTOM-LOSSLESS) the release of a custom action is never discarded or merged away inside the layout; (R-FOLD-ACC) the release handler's fold hands its accumulator on; (R-SCRATCH) no handler returns with keys left in the scratch list; (R-OVERFLOW-ALL) the overflow path resolves every undecided tap-hold; (R-LAYER-STACK-SET) a layer is searched once; (R-NAME-TABLE) keywords map to the variant of their name; R-IDLE restricted to the structs this property is about.",
        "not_decided": "bounded-time liveness over all histories; diff logic prev_keys/cur_keys; timeout arithmetic; value-level conditions (7f of DESIGN.md)",
    },
    "C02": {
        "rules": [r_panic.run_rt, r_prodcons.run, r_rec.run_rt, r_coordspace.run, r_lock.run, r_opcode.run_all, r_loopvar.run_rt, r_tickorder.rule_rpt_order, r_tickorder.rule_rpt_queue, r_tickorder.rule_queue_trans, r_srckeys.run, r_depth.run, r_tickorder.rule_stack_dedup],
        "explanation": "Decides: (R-PANIC/rt) every panic-capable site (bounds check, slice/Vec index, unsigned subtraction, narrow "
                       "addition/multiplication, negation, division, shift, unwrap/expect, assert!/unreachable!/panic!) in the "
                       "functions reachable from the event/tick entry points is either discharged by the guard data-flow (constant "
                       "and relational guards, range/enumerate/chunks loops, validator return summaries, caller preconditions, "
                       "closure fact inheritance) or matched by a reviewed invariant in rules/panic_tables.py; anything else is "
                       "reported naming the site. (R-PRODCONS) each parser-side bound that run-time arithmetic relies on "
                       "(non-zero intervals and timeouts, non-empty tap-dance lists, chords-v2 min idle >= 5) is re-derived by "
                       "data-flow at every aggregate / field store that produces the value. (R-LOOPVAR) every loop on the event/tick path is driven by a finite iterator, has an integer or "
                       "collection length that moves strictly in one direction on every path round the loop (path enumeration with "
                       "difference constraints; upward variants need an invariant bound), or is in a reviewed table. "
                       "(R-LOCK) no (non re-entrant) mutex is "
                       "locked again on the thread that still holds its guard: guard live ranges vs. the call graph, lock wrappers "
                       "such as zch() included, closures given to thread::spawn excluded. Library calls with panicking "
                       "preconditions (heapless extend, ArrayDeque::drain, slice::swap, clone_from_slice, RefCell::borrow_mut, "
                       "bytemuck::cast_slice, chunks/windows of size 0) are part of the census. The rules that reviewed table entries "
                       "lean on (R-OPCODE-* for the switch evaluator's asserts) are run as part of this check."
                       " Added in session 4: (R-SRC-KEYS) src_keys hold KeyCode / NoOp only (producer side of the unguarded Src recursion); (R-DEPTH) the parser bounds nesting incl. aliases, so do_action's recursion is bounded; (R-LAYER-STACK-SET) no self-requeueing switch through a duplicated layer.",
        "not_decided": "value-level invariants listed in the reviewed table (each spelled out in the evidence); bounded work per "
                       "millisecond; stack depth (recursion through rpt-any is a known limitation, see DESIGN.md); std / dependency "
                       "internals. (R-REC/rt) recursive calls on the event path take their action argument from a sub-structure of the "
                       "caller's own action, never from stored state (except the reviewed defsrc row)",
    },
    "C03": {
        "rules": [r_panic.run_parse, r_span.run, r_rec.run_parse, r_coordspace.run, r_errdrop.run, r_opcode.run_all, r_loopvar.run_parse, r_depth.run, r_span.rule_own_text, r_span.rule_label_column],
        "explanation": "Decides: (R-SPAN) the lexer only compares bytes with ASCII constants, Span/Position are built or modified "
                       "only in the s-expression module, the single post-hoc span adjustment is guarded by a test selecting exactly "
                       "one lexer message, and text is indexed by a span only through Index<Span> on that span's own file_content(); "
                       "(R-PANIC/parse) every panic-capable site in the functions reachable from cfg::new_from_str / "
                       "new_from_file, the s-expression Debug impls and the ParseError -> miette conversion is discharged by the "
                       "guard data-flow (argument-count checks before indexing, chunks_exact, range loops, validator summaries, "
                       "caller preconditions, closure inheritance) or matched by a reviewed invariant; anything else is reported "
                       "naming the site. (R-ERRDROP) every ParseError / anyhow error / Err(..) the parser constructs is returned or "
                       "stored, never built and dropped (a dropped error means the check it belongs to does not stop the parser). "
                       "(R-COORDSPACE) layer indexes exist only for fewer than MAX_LAYERS layers and a virtual key's index is below "
                       "KEYS_IN_ROW from the moment it is stored. (R-LOOPVAR) every loop of the parser is iterator-driven over a "
                       "finite source, has a strictly moving variant (e.g. the remainder slice returned by parse_macro_item is a "
                       "strict suffix), or is in a reviewed table. (R-DEPTH) the recursion depth is bounded by explicit guards: the "
                       "reader's open-list stack, the action nesting counter that every cycle of the action parsers passes "
                       "through, the template expansion nesting and size budget, the variable chain length."
                       " Added in session 4: (R-SPAN-OWN-TEXT) a span is applied to its own file's text; R-DEPTH clauses for alias bookkeeping (recorded from the reset counter, maximum raised to the compared sum), actions stored twice charged twice, any-key entries charged per position, resolved variable size and concat length bounded. Added in session 5: (R-LABEL-COLUMN) the conversion ParseError -> miette::Error drops the labelled span when it lies right of a bounded column (the report renderer's padding width is 16 bits; reproduced panic, repaired in 9c38ca8).",
        "not_decided": "termination of loops, stack depth (self-referential defvar recursion is a known limitation), miette internals, "
                       "char-boundary safety of span slicing beyond the reviewed lexer invariant",
    },
    "C04": {
        "rules": [r_coord.run, r_doaction.rule_state_push, r_layers.rule_fill, r_layers.rule_press_dedup, r_doaction.rule_state_clear, r_buildall.run_for("C04"), r_pipeline.run_cfg_mirror, r_cancel.rule_retain_all, r_pipeline.run_layer_lists, r_nametable.run_consts, r_tickorder.rule_stack_dedup],
        "explanation": "Narrow: (R-FILL) the default fill of unassigned layer positions is decided from block-unmapped-keys and the "
                       "key only, never from the layer index, and position 0 is forced to NoOp; decides the release half of layered remapping — every state a press creates is keyed on the "
                       "coordinate (never the layer) and removed by Release at that coordinate (R-COORD); the key / layer / custom "
                       "arms of do_action push their state on every path (R-STATE-PUSH)."
                       ' Added in session 4: (R-LAYER-ORDER) layer names and bodies are listed in one order; (R-CONST-NAME) flag predicates test the flag they are named after; (R-LAYER-STACK-SET).',
        "not_decided": "equality with the layered-keymap model: search order of held layers, output ordering, one event per "
                       "millisecond — functions of run-time values",
    },
    "C05": {
        "rules": [r_wait.run_all, r_evict.run_c05, r_tickorder.rule_wait_gate, r_tickorder.rule_tick_together, r_wait.rule_lookahead, r_traverse.run_rebuild, r_wait.rule_slot_index, r_countdown.rule_nowrap, r_idle.run_only("WaitingState", "TapDanceEagerState", "LastPressTracker"), r_wait.rule_scan_order, r_tickorder.rule_overflow_all, r_heldscan.rule_while_held],
        "explanation": "Session 6: (R-HT-WHILE-HELD) every scan of the event queue started by an early trigger of handle_hold_tap is bounded to what was queued while the key was held (iter -> take), so events behind the key's own release cannot turn a finished tap into a hold; (R-EVICT, path form) an evicted element is consumed on every path to a return, not just on some. Decides: (R-WAIT) each waiting_into_hold/tap/timeout clears its slot on every path before do_action (a "
                       "decision is consumed once) and performs an action whose provenance is exactly the hold / tap / "
                       "timeout_action field; Layout::tick and process_extra_waitings dispatch the four WaitingAction variants to "
                       "the same callees; (R-WAIT-OUTCOME) in handle_hold_tap, Hold is built only inside a HoldTapConfig arm (early "
                       "trigger) and the common release-vs-timeout tail builds only Tap/Timeout; (R-GATE) queue.pop_front() in tick "
                       "is reachable only with waiting == None, extra_waiting empty and the processing pause not active."
                       ' Added in session 4: (R-WAIT-LOOKAHEAD, R-WAIT-SCAN) the custom decision closures scan the queue in order, without consuming or cloning it, and stop only at a decision; (R-WAIT-SLOT) the slot index tests separate -1 from 0..; (R-OVERFLOW-ALL); (R-NOWRAP); (R-REBUILD) the chord pass keeps hold / tap / timeout_action apart.',
        "not_decided": "the timeout boundary tick (> vs >=), the early-trigger predicates of each variant, ordering of replayed "
                       "keys — value-level",
    },
    "C06": {
        "rules": [r_doaction.rule_osh_arms, r_doaction.rule_osh_repress, r_evict.run_c06, r_countdown.run, r_custom.run, r_doaction.rule_osh_end, r_iterwhole.run_for("C06"), r_countdown.rule_nowrap, r_idle.run_only("OneShotState")],
        "explanation": "Decides: every arm of do_action (21 Action variants) notifies the one-shot state machine of the press, "
                       "delegates to an inner action, or defers the action (R-OSH-ARMS); macro Press/Tap events notify too. (R-COUNTDOWN) the "
                       "one-shot timeout, like every count-down timer on the tick path, expires on its level: it is never decremented "
                       "only under a test of its own value and compared again afterwards (edge-triggered expiry leaves a timer that is "
                       "already zero armed for ever)."
                       ' Added in session 4: (R-OSH-END) the end of a one-shot empties every list of the state, and the lists have one capacity; (R-CUSTOM-LOSSLESS) coordinates are released through the queued Release event only; (R-EVERY-ITEM) every deferred release is performed; (R-NOWRAP) timers never wrap; R-IDLE restricted to OneShotState.',
        "not_decided": "which key is 'the next one', timeout arithmetic, stacking semantics — run-time values",
    },
    "C11": {
        "rules": [r_keyid.run_all, r_layers.rule_mapped, r_coordspace.run, r_reload.rule_globals, r_buildall.run_for("C11"), r_keyid.rule_defsrc_identity, r_keyid.rule_btn_tables],
        "level": "proof",
        "explanation": "Decides: (a) OsCode and KeyCode have identical discriminant sets and are repr(u16) — the exact soundness "
                       "condition of every enum transmute in the analysed crates, which are enumerated; (b) each arm n of "
                       "from_u16_linux builds the variant whose discriminant is n, every variant has an arm, and as_u16 is the "
                       "plain cast (so the tables are inverse value for value); (d) every non-constant key code reaching "
                       "KbdOut key output passes the reserved-range test (value-set data-flow), constants are outside the range; "
                       "(f) in the Linux event loop only keys in MAPPED_KEYS (or scroll events) reach the state machine. "
                       "Finite obligations, all discharged or reported.",
        "not_decided": "name->code table vs the documentation; Windows/macOS tables (targets not installable offline); "
                       "that mapped_keys equals defsrc+deflayermap inputs (a run-time set computation); zippychord's configured "
                       "output characters are trusted to the parser's character table",
    },
    "C07": {
        "rules": [r_idle.run, r_idle.run_keytiming, r_loop.run, r_idle.run_states, r_scratch.run, r_tickorder.rule_loop_ms, r_idle.run_snapshot, r_idle.run_zch_variant, r_countdown.rule_nowrap],
        "explanation": "Decides: (R-IDLE) every (type, field) of kanata's run-time state that has a self-dependent scalar update "
                       "(counter/timer) or loses elements in a function reachable from Kanata::tick_ms is read as a whole by "
                       "is_idle / can_block_update_idle_waiting (transitively), is covered by a container those read, or is listed "
                       "in the reviewed exemption table with its reason; (R-LOOP) the blocking recv() is reachable only on the true "
                       "edge of can_block, and on wake-up last_tick is overwritten with a value derived from Instant::now() alone "
                       "before handle_time_ticks, after handle_input_event."
                       ' Added in session 4: (R-IDLE-SNAPSHOT) the flag is an inequality of the two counts and also learns of caps-word ended by an action; (R-ZCH-IDLE) zippychord is not idle in the states in which its tick counts unconditionally; (R-NOWRAP).'
                       ' Added in session 4: (R-BTN-TABLES) OsCode -> Btn and Btn -> OsCode are inverse.',
        "not_decided": "full two-run equivalence for all continuations; wall-clock to tick conversion arithmetic; the exemption "
                       "table's semantic reasons are reviewed, not machine-checked",
    },
    "C08": {
        "rules": [r_macro.run_all, r_cancel.run, r_cancel.rule_owed, r_evict.run_c08, r_scratch.run, r_macro.rule_evicted_release, r_statesorder.run],
        "explanation": "Decides: (R-MACRO-BAL) the macro compiler parse_macro_item_impl emits, on every path to an Ok return, a "
                       "Release event from the same source for every Press event it emits (single keys, output chords, held "
                       "modifier groups); (R-CANCEL) each of the sites that clear the running macros also removes the macro-held "
                       "fake keys; (R-SEQ-CUSTOM) a macro's custom/unicode item changes state only on a tick where its event can "
                       "be reported."
                       ' Added in session 4: (R-STATES-ORDER) Layout.states keeps its order (order of macro custom items); (R-MACRO-EVICT-ALL) every remaining Release of an evicted macro is applied.',
        "not_decided": "inter-step delays, 'no two steps in one millisecond', repeat-while-held, eviction from the 4-slot ring "
                       "(see C01/C02 R-EVICT) — run-time values",
    },
    "C09": {
        "rules": [r_traverse.run_chords, r_chv2.run_all, r_buildall.run_for("C09"), r_traverse.run_rebuild, r_iterwhole.run_for("C09"), r_chv2.rule_truncated, r_idle.run_only("ChordsV2", "ActiveChord")],
        "explanation": "Narrow: (R-CHV2-REL) v2: release bookkeeping dominates every wholesale removal from the v2 queue, active "
                       "chords leave only via clear_released_chords which queues their virtual Release; (R-CHV2-DISABLED) every "
                       "chord-selecting lookup in process_presses filters on disabled layers (sibling agreement); (R-CH1-GUARD) v1: "
                       "every fold/retain over the queued events reads the event's age together with the event (chord window). Also decides that the two walkers that bind (chord ...) keys to their defchords group "
                       "(find_chords_coords, fill_chords) pass every nested action of every Action variant — derived from the "
                       "Action type — to their recursive call, so a chord key is found wherever the grammar allows an action."
                       ' Added in session 4: (R-EVERY-ITEM) the chord action is repeated on every participating coordinate; (R-CHV2-TRUNCATED) the truncated candidate list is checked with is_full; (R-REBUILD) lists are rebuilt one for one.',
        "not_decided": "exact-set activation, press-order independence, decomposition order, v2 candidate search — run-time values",
    },
    "C12": {
        "rules": [r_seq.run_all, r_buildall.run_for("C12"), r_pipeline.run_cfg_mirror, r_argnames.run_twins, r_argnames.run, r_idle.run_only("SequenceState")],
        "explanation": "Decides: (R-SEQ-CONFLICT) the only Trie::insert of the sequence table is dominated by ancestor_exists and "
                       "descendant_exists on the same key sequence, each with its true edge leading away from the insert; "
                       "(R-SEQ-BITS) key-code / modifier / overlap bit fields are disjoint and every modifier mask is a distinct "
                       "single bit; (R-SEQ-RESET) SequenceState::activate writes every field of the state; (R-SEQ-NORM) the keys the "
                       "run time merges (right->left modifiers) carry equal modifier bits in the parser's encoding; "
                       "(R-SEQ-SUPPRESS) typed keys are pressed at the OS only in visible-backspaced mode / outside sequence mode."
                       ' Added in session 4: (R-ARM-TWINS) alternative activate calls of the leader arm take the payload alike; (R-ARG-NAMES).',
        "not_decided": "exactly-once firing, backtracking, timeout boundary, permutations of overlap groups — run-time values",
    },
    "C13": {
        "rules": [r_override.run_all, r_buildall.run_for("C13"), r_idle.run_snapshot, r_idle.run_only("OverrideStates")],
        "explanation": "Narrow: (R-OVR-SCRATCH) in override_keys the scratch reset dominates every use of the scratch and the "
                       "no-overrides early return precedes every mutation; (R-OVR-MODS) mask_for_key returns Some for exactly the "
                       "keys OsCode::is_modifier accepts and the eight masks are distinct single bits; (R-OVR-BOTH) the tick path "
                       "and the repeat path both run override_keys before any inspection of cur_keys/prev_keys; (R-OVR-RELEASE) "
                       "release-on-activation erases keys taken from the override scratch only under the !is_modifier() guard."
                       ' Added in session 4: (R-IDLE-SNAPSHOT) comparison and caps-word clauses.',
        "not_decided": "longest-match selection, substitution and restoration — computations over run-time key lists",
    },
    "C15": {
        "rules": [r_reload.run_all, r_reload.rule_runtime, r_reload.rule_index, r_idle.run_idle_counter],
        "explanation": "Decides: (R-RELOAD-ATOMIC) every write to kanata's state, MAPPED_KEYS, zippychord and the output options in "
                       "do_live_reload lies in the region dominated by the Ok arm of cfg::new_from_file, and no `?` exit is "
                       "reachable after the first such write; (R-RELOAD-FIELDS) each Kanata field whose start-up initialiser "
                       "derives from the parsed Cfg is assigned from the same Cfg source on reload or is exempt with a reason, "
                       "new and new_from_str agree, and zippychord is reconfigured on every successful path; (R-RELOAD-GATE) the "
                       "reload is reachable only through tests of the request flag and of keys-up / 1 s idle, and the flag is "
                       "cleared first; (R-RELOAD-NOTIFY) both notifications are built and sent, prev_layer comes from the new layout."
                       ' Added in session 4: (R-RELOAD-INDEX) no wrapping arithmetic and no dependence on loaded_cfg_idx in the chosen index; (R-IDLE-COUNTER) each consumer of the idle counter alone makes it count (oracle-driven reachability); three more fields in R-RELOAD-RUNTIME.',
        "not_decided": "behavioural equivalence of the post-reload state with a fresh instance (dynamic state such as caps-word, "
                       "scroll states, recorded macros is deliberately retained); file index selection arithmetic",
    },
    "C16": {
        "rules": [r_pipeline.run, r_pipeline.run_template, r_pipeline.run_vars, r_pipeline.run_layer_lists, r_sticky.run, r_pipeline.run_rawmatch, r_buildall.run_for("C16"), r_span.rule_own_text, r_pipeline.run_vars_passed, r_layers.rule_fill],
        "explanation": "Narrow: decides the ordering preconditions of transparent indirection — the pre-processing stages are chained "
                       "include -> platform -> env -> template, each consuming the previous stage's result (data-flow order of the "
                       "and_then chain), parse_vars runs after pre-processing and dominates every parser that (transitively) "
                       "resolves variables, and parse_aliases dominates parse_layers."
                       ' Added in session 4: (R-PIPELINE) platform / environment filters run before and after template expansion; (R-SPAN-OWN-TEXT); (R-VARS-PASSED) functions that have the variable table pass it on. Session 6: (R-FILL, also under C04) a layer written as deflayermap and the same layer written as deflayer get the same default fill - a defsrc key the map leaves out stays transparent, it is not turned into a no-op by block-unmapped-keys.',
        "not_decided": "that a rewritten configuration behaves identically; substitution semantics inside templates and variables "
                       "(e.g. simultaneous vs sequential parameter substitution) — relations between two programs",
    },
    "C14": {
        "rules": [r_traverse.run_repeat, r_repeat.run_outputs, r_repeat.run, r_repeat.run_collect, r_scratch.run, r_buildall.run_for("C14"), r_keyid.rule_gate, r_repeat.run_scan, r_repeat.rule_kc_output, r_seq.rule_hidden, r_argnames.run],
        "explanation": "Decides: the repeat-table builder passes every nested action of every Action variant (derived from the "
                       "type) to its recursion and records every key-code-bearing variant (R-TRAVERSE, R-RPT-TABLE); in "
                       "handle_repeat_actual every write of a repeat is reachable only through a 'key currently held' test, at "
                       "most one repeat is written per event, the override pass precedes the tests, and the sequence input modes "
                       "in which the repeat path continues are modes in which typed keys are really pressed at the OS (R-RPT-GUARD)."
                       " Added in session 4: (R-KC-OUTPUT) override outputs are looked up for the output key and listed before the key's own code; (R-SEQ-HIDDEN) hidden-mode bookkeeping matches what is pressed; (R-ARG-NAMES) the repeat path passes the unmod / unshift lists in the right order.",
        "not_decided": "which of several output keys is preferred; layer search order — run-time values",
    },
    "C10": {
        "rules": [r_opcode.run_all, r_doaction.rule_fork_keys, r_hist.run, r_accessor.run, r_buildall.run_for("C10"), r_traverse.run_rebuild, r_boolshort.run, r_idle.run_keytiming],
        "explanation": "Decides the encoding layer of switch and what it is evaluated over: (R-ACCESSOR) State::coord / State::keycode, "
                       "which feed the `input` and key conditions, return Some for every State variant that has the field; (a) the opcode tag constants partition u16 (evaluated constants); "
                       "(b) every OpCode constructor's tag and bit-fields are decoded by opcode_type into the OpCodeType variant its "
                       "name states (value-set data-flow over the decoder; shift amounts and field masks agree; BooleanOperator "
                       "to_u16/from are inverse); (c) 2-word opcodes are emitted, decoded, skipped by the evaluator and pushed by the "
                       "parser as 2 words; (d) parser limits (depth, recency, length) are the evaluator's limits (same const items), "
                       "and the end index of and/or/not is patched after the children are compiled."
                       " Added in session 4: (R-BOOL-SHORTCUT) abstract evaluation of the evaluator's two short-circuit tests over {or, and, not} x {true, false}: they agree and match the operators' truth table; (R-OPCODE-CODEC) decoder masks have the width of the bounds the constructors assert; (R-IDLE-KEYTIMING).",
        "not_decided": "the evaluator's short-circuit logic, break/fallthrough iteration, fork's trigger test, lossy tick "
                       "compression numerics — these are functions of run-time values",
    },
    "C18": {
        "rules": [r_vkey.run_all, r_coord.run, r_macro.rule_seq_custom, r_buildall.run_for("C18"), r_idle.run_idle_counter, r_nametable.run, r_countdown.rule_nowrap, r_idle.run_only("Kanata"), r_vkey.rule_toggle_queued],
        "explanation": "Narrow: (R-VK-SINGLE) FakeKeyAction is interpreted only in handle_fakekey_action, which every trigger path "
                       "(key press, key release, on-idle, TCP) calls, and each of press/release/tap/toggle produces layout events; "
                       "(R-COORD) toggle's 'is it pressed' predicate covers exactly the State variants that carry a coordinate; "
                       "(R-VK-ONCE) the on-idle entry is removed on the path that fires it; (R-VK-REARM) re-activating a "
                       "hold-for-duration key overwrites the remaining time with a value independent of the old one."
                       " Added in session 4: (R-VK-TOGGLE-QUEUED) toggle, press and tap decide on the key's queued / current state; (R-IDLE-COUNTER); (R-NAME-TABLE); (R-NOWRAP).",
        "not_decided": "D-1/D/D+1 timing of hold-for-duration and on-idle; idle measurement — run-time values",
    },
    "C19": {
        "rules": [r_dynmacro.run_all, r_dynmacro.rule_delay_reset, r_dynmacro.rule_save_id, r_dynmacro.rule_replay_arms, r_idle.run_only("DynamicMacroReplayState", "DynamicMacroRecordState"), r_dynmacro.rule_play_guard],
        "explanation": "Decides: (R-DM-RELEASE) in record_press / begin_record_macro / stop_macro every returned recording is "
                       "dominated by add_release_for_all_unreleased_presses and nothing that writes macro_items runs between that "
                       "call and the return; (R-DM-REC) in play_macro every queueing of replay items is dominated by inserting the "
                       "macro id into active_macros, and is unreachable from the true edge of active_macros.contains."
                       ' Added in session 4: (R-DM-SAVE-ID) id and events of a saved recording come from one returned pair; (R-DM-ARMS) press and release pace alike; (R-DM-PLAY-GUARD) play of the macro being recorded is ignored and every input press is recorded.',
        "not_decided": "replay fidelity (same events in the same order), recorded delays, truncation arithmetic — run-time values; "
                       "the record-stop index arithmetic is audited under C02",
    },
}

NOT_APPLICABLE = {
    "C17": "tap counting and N-th action selection are arithmetic on run-time counters; no clause is a shape of the code beyond index safety, which C02's panic audit covers",
    "C20": "net-text correctness is counter arithmetic over run-time dictionaries; no sound static argument in reach bounds it",
}
