// kfacts: rustc_private fact extractor for the kanata verification framework.
// Injected with RUSTC_WORKSPACE_WRAPPER under `cargo +nightly check`. For every crate whose name
// starts with "kanata" it writes ONE json file $KFACTS_OUT/<crate>[.<kind>].json with:
//   adts, consts, statics, fns (MIR bodies, resolved callees, source lines, macro provenance).
#![feature(rustc_private)]
extern crate rustc_abi;
extern crate rustc_driver;
extern crate rustc_hir;
extern crate rustc_interface;
extern crate rustc_middle;
extern crate rustc_span;

use rustc_driver::Compilation;
use rustc_hir::def::DefKind;
use rustc_hir::def_id::{DefId, LOCAL_CRATE};
use rustc_middle::mir::{
    self, AggregateKind, AssertKind, BinOp, Body, Const, Operand, Place, ProjectionElem, Rvalue,
    StatementKind, TerminatorKind,
};
use rustc_middle::ty::print::{with_crate_prefix, with_no_trimmed_paths, with_no_visible_paths, PrintTraitRefExt};
use rustc_middle::ty::{self, Ty, TyCtxt};
use std::collections::BTreeMap;
use std::fmt::Write as _;

// ---------------------------------------------------------------------------------------------
// tiny JSON value
enum J {
    Null,
    B(bool),
    N(i128),
    S(String),
    A(Vec<J>),
    O(Vec<(&'static str, J)>),
    M(BTreeMap<String, J>),
}
fn esc(s: &str, out: &mut String) {
    out.push('"');
    for c in s.chars() {
        match c {
            '"' => out.push_str("\\\""),
            '\\' => out.push_str("\\\\"),
            '\n' => out.push_str("\\n"),
            '\r' => out.push_str("\\r"),
            '\t' => out.push_str("\\t"),
            c if (c as u32) < 0x20 => {
                let _ = write!(out, "\\u{:04x}", c as u32);
            }
            c => out.push(c),
        }
    }
    out.push('"');
}
impl J {
    fn w(&self, out: &mut String) {
        match self {
            J::Null => out.push_str("null"),
            J::B(b) => out.push_str(if *b { "true" } else { "false" }),
            J::N(n) => {
                let _ = write!(out, "{n}");
            }
            J::S(s) => esc(s, out),
            J::A(v) => {
                out.push('[');
                for (i, x) in v.iter().enumerate() {
                    if i > 0 {
                        out.push(',');
                    }
                    x.w(out);
                }
                out.push(']');
            }
            J::O(v) => {
                out.push('{');
                for (i, (k, x)) in v.iter().enumerate() {
                    if i > 0 {
                        out.push(',');
                    }
                    esc(k, out);
                    out.push(':');
                    x.w(out);
                }
                out.push('}');
            }
            J::M(m) => {
                out.push('{');
                for (i, (k, x)) in m.iter().enumerate() {
                    if i > 0 {
                        out.push(',');
                    }
                    esc(k, out);
                    out.push(':');
                    x.w(out);
                }
                out.push('}');
            }
        }
    }
}
fn s(x: impl Into<String>) -> J {
    J::S(x.into())
}
fn opt_s(x: Option<String>) -> J {
    match x {
        Some(v) => J::S(v),
        None => J::Null,
    }
}

// ---------------------------------------------------------------------------------------------
struct Cx<'tcx> {
    tcx: TyCtxt<'tcx>,
    krate: String,
    ext_adts: BTreeMap<String, DefId>,
}

// `with_crate_prefix!` prints local paths as `crate::...`; make them `<crate name>::...` so that
// a path reads the same from every crate.
fn fix_crate(sx: String, krate: &str) -> String {
    if !sx.contains("crate::") {
        return sx;
    }
    let mut out = String::with_capacity(sx.len() + 16);
    let b = sx.as_bytes();
    let mut i = 0;
    while i < b.len() {
        if sx[i..].starts_with("crate::")
            && (i == 0 || !(b[i - 1].is_ascii_alphanumeric() || b[i - 1] == b'_'))
        {
            out.push_str(krate);
            out.push_str("::");
            i += 7;
        } else {
            let ch = sx[i..].chars().next().unwrap();
            out.push(ch);
            i += ch.len_utf8();
        }
    }
    out
}

impl<'tcx> Cx<'tcx> {
    fn path(&self, did: DefId) -> String {
        fix_crate(with_crate_prefix!(with_no_visible_paths!(with_no_trimmed_paths!(self.tcx.def_path_str(did)))), &self.krate)
    }
    /// Stable, module-independent name for functions of kanata crates:
    ///   trait impl method  -> `<SelfTy as Trait>::name`
    ///   inherent method    -> `<adt path>::name`
    ///   closure            -> `<parent name>::{closure#k}`
    /// (rustc's def_path_str names impl items after the *module* of the impl block when it differs
    /// from the type's module, which makes two `From` impls in one file collide.)
    fn fn_path(&self, did: DefId) -> String {
        let tcx = self.tcx;
        if !tcx.crate_name(did.krate).as_str().starts_with("kanata") {
            return self.path(did);
        }
        let kind = tcx.def_kind(did);
        match kind {
            DefKind::Closure => {
                let parent = tcx.parent(did);
                let dis = tcx.def_key(did).disambiguated_data.disambiguator;
                format!("{}::{{closure#{}}}", self.fn_path(parent), dis)
            }
            DefKind::AssocFn => {
                let parent = tcx.parent(did);
                let name = tcx.item_name(did).to_string();
                match tcx.def_kind(parent) {
                    DefKind::Impl { of_trait: true } => {
                        let tr = tcx.impl_trait_ref(parent).instantiate_identity().skip_norm_wip();
                        let st = self.tystr(tr.self_ty());
                        let trs = fix_crate(
                            with_crate_prefix!(with_no_visible_paths!(with_no_trimmed_paths!(tr
                                .print_only_trait_path()
                                .to_string()))),
                            &self.krate_of(did),
                        );
                        format!("<{} as {}>::{}", st, trs, name)
                    }
                    DefKind::Impl { .. } => {
                        let st = tcx.type_of(parent).instantiate_identity().skip_norm_wip();
                        if let ty::Adt(adt, _) = st.kind() {
                            format!("{}::{}", self.path(adt.did()), name)
                        } else {
                            format!("<{}>::{}", self.tystr(st), name)
                        }
                    }
                    _ => self.path(did),
                }
            }
            DefKind::Fn => {
                let parent = tcx.parent(did);
                if matches!(tcx.def_kind(parent), DefKind::Fn | DefKind::AssocFn | DefKind::Closure) {
                    format!("{}::{}", self.fn_path(parent), tcx.item_name(did))
                } else {
                    self.path(did)
                }
            }
            _ => self.path(did),
        }
    }
    fn krate_of(&self, did: DefId) -> String {
        self.tcx.crate_name(did.krate).to_string()
    }
    fn tystr(&self, t: Ty<'tcx>) -> String {
        fix_crate(with_crate_prefix!(with_no_visible_paths!(with_no_trimmed_paths!(t.to_string()))), &self.krate)
    }
    fn peel(&self, mut t: Ty<'tcx>) -> Ty<'tcx> {
        loop {
            match t.kind() {
                ty::Ref(_, inner, _) => t = *inner,
                ty::RawPtr(inner, _) => t = *inner,
                _ => return t,
            }
        }
    }
    fn adt_of(&mut self, t: Ty<'tcx>) -> Option<String> {
        let p = self.peel(t);
        if let ty::Adt(adt, _) = p.kind() {
            let name = self.path(adt.did());
            if !adt.did().is_local() && adt.is_enum() {
                self.ext_adts.entry(name.clone()).or_insert(adt.did());
            }
            Some(name)
        } else {
            None
        }
    }
    // ADT def-paths mentioned anywhere inside a type (for "field type mentions Action")
    fn mentioned_adts(&self, t: Ty<'tcx>) -> Vec<String> {
        let mut out = Vec::new();
        for arg in t.walk() {
            if let Some(t) = arg.as_type() {
                if let ty::Adt(adt, _) = t.kind() {
                    let p = self.path(adt.did());
                    if !out.contains(&p) {
                        out.push(p);
                    }
                }
            }
        }
        out
    }

    fn line_info(&self, sp: rustc_span::Span) -> (usize, Vec<String>, String) {
        let sm = self.tcx.sess.source_map();
        let macs: Vec<String> = sp
            .macro_backtrace()
            .filter_map(|e| match e.kind {
                rustc_span::ExpnKind::Macro(_, name) => Some(name.to_string()),
                rustc_span::ExpnKind::Desugaring(d) => Some(format!("desugar:{:?}", d)),
                rustc_span::ExpnKind::AstPass(_) => Some("astpass".to_string()),
                _ => None,
            })
            .collect();
        let cs = sp.source_callsite();
        let loc = sm.lookup_char_pos(cs.lo());
        let file = match &loc.file.name {
            rustc_span::FileName::Real(r) => match r.local_path() {
                Some(p) => p.to_string_lossy().to_string(),
                None => format!("{:?}", r),
            },
            other => format!("{:?}", other),
        };
        (loc.line, macs, file)
    }

    fn place(&mut self, body: &Body<'tcx>, p: &Place<'tcx>) -> J {
        let tcx = self.tcx;
        let mut t = mir::PlaceTy::from_ty(body.local_decls[p.local].ty);
        let mut pr = Vec::new();
        for elem in p.projection.iter() {
            let j = match elem {
                ProjectionElem::Deref => s("*"),
                ProjectionElem::Field(f, fty) => match t.ty.kind() {
                    ty::Adt(adt, _) => {
                        let vidx = t.variant_index.unwrap_or(rustc_abi::FIRST_VARIANT);
                        let v = adt.variant(vidx);
                        let fname = v.fields[f].name.to_string();
                        J::O(vec![
                            ("f", s(fname)),
                            ("i", J::N(f.as_usize() as i128)),
                            ("adt", s(self.path(adt.did()))),
                            ("v", if adt.is_enum() { s(v.name.to_string()) } else { J::Null }),
                            ("ty", s(self.tystr(fty))),
                        ])
                    }
                    ty::Closure(cdid, _) => J::O(vec![
                        ("f", s(format!("{}", f.as_usize()))),
                        ("i", J::N(f.as_usize() as i128)),
                        ("clo", s(self.fn_path(*cdid))),
                        ("ty", s(self.tystr(fty))),
                    ]),
                    _ => J::O(vec![
                        ("f", s(format!("{}", f.as_usize()))),
                        ("i", J::N(f.as_usize() as i128)),
                        ("tup", J::B(true)),
                        ("ty", s(self.tystr(fty))),
                    ]),
                },
                ProjectionElem::Index(l) => J::O(vec![("ix", J::N(l.as_usize() as i128))]),
                ProjectionElem::ConstantIndex { offset, min_length, from_end } => J::O(vec![
                    ("cix", J::N(offset as i128)),
                    ("min", J::N(min_length as i128)),
                    ("fe", J::B(from_end)),
                ]),
                ProjectionElem::Subslice { from, to, from_end } => J::O(vec![
                    ("sub", J::N(from as i128)),
                    ("to", J::N(to as i128)),
                    ("fe", J::B(from_end)),
                ]),
                ProjectionElem::Downcast(name, vi) => J::O(vec![
                    ("dc", opt_s(name.map(|n| n.to_string()))),
                    ("vi", J::N(vi.as_usize() as i128)),
                ]),
                other => J::O(vec![("o", s(format!("{:?}", other)))]),
            };
            pr.push(j);
            t = t.projection_ty(tcx, elem);
        }
        if pr.is_empty() {
            J::O(vec![("l", J::N(p.local.as_usize() as i128))])
        } else {
            J::O(vec![("l", J::N(p.local.as_usize() as i128)), ("pr", J::A(pr))])
        }
    }

    fn konst(&mut self, owner: DefId, c: &mir::ConstOperand<'tcx>) -> J {
        let tcx = self.tcx;
        let cty = c.const_.ty();
        let mut fields: Vec<(&'static str, J)> = vec![("ty", s(self.tystr(cty)))];
        // function item / closure constants
        if let ty::FnDef(fd, args) = cty.kind() {
            fields.push(("fn", s(self.fn_path(*fd))));
            let resolved = ty::Instance::try_resolve(
                tcx,
                ty::TypingEnv::post_analysis(tcx, owner),
                *fd,
                args,
            )
            .ok()
            .flatten()
            .map(|i| self.fn_path(i.def_id()));
            fields.push(("rfn", opt_s(resolved)));
            return J::O(vec![("c", J::O(fields))]);
        }
        // named const item?
        if let Const::Unevaluated(uv, _) = c.const_ {
            if uv.promoted.is_none() {
                fields.push(("def", s(self.path(uv.def))));
            } else {
                fields.push(("promoted", J::N(uv.promoted.unwrap().as_usize() as i128)));
            }
        }
        // generic const parameter (e.g. the array length `C` of Layout<C, R, T>): symbolic name
        if let Const::Ty(_, ct) = c.const_ {
            if let ty::ConstKind::Param(pc) = ct.kind() {
                fields.push(("gp", s(pc.name.to_string())));
            }
        }
        let env = ty::TypingEnv::post_analysis(tcx, owner);
        // Only evaluate integer-like scalars.
        let scalar_ok = matches!(cty.kind(), ty::Int(_) | ty::Uint(_) | ty::Bool | ty::Char);
        if scalar_ok {
            if let Some(si) = c.const_.try_eval_scalar_int(tcx, env) {
                let bits = si.to_bits_unchecked();
                let v: i128 = match cty.kind() {
                    ty::Int(_) => {
                        let size = si.size().bits();
                        let shift = 128 - size;
                        ((bits << shift) as i128) >> shift
                    }
                    _ => bits as i128,
                };
                fields.push(("v", J::N(v)));
            }
        } else if let ty::Ref(_, inner, _) = cty.kind() {
            if inner.is_str() {
                // string literal: Debug print gives `const "..."`
                fields.push(("str", s(format!("{}", c.const_))));
            }
        }
        J::O(vec![("c", J::O(fields))])
    }

    fn operand(&mut self, owner: DefId, body: &Body<'tcx>, o: &Operand<'tcx>) -> J {
        match o {
            Operand::Copy(p) => self.place(body, p),
            Operand::Move(p) => {
                let mut j = self.place(body, p);
                if let J::O(ref mut v) = j {
                    v.push(("mv", J::B(true)));
                }
                j
            }
            Operand::Constant(c) => self.konst(owner, c),
            #[allow(unreachable_patterns)]
            other => J::O(vec![("o", s(format!("{:?}", other)))]),
        }
    }

    fn rvalue(&mut self, owner: DefId, body: &Body<'tcx>, rv: &Rvalue<'tcx>) -> J {
        match rv {
            Rvalue::Use(o, ..) => J::O(vec![("k", s("use")), ("a", self.operand(owner, body, o))]),
            Rvalue::Repeat(o, n) => J::O(vec![
                ("k", s("repeat")),
                ("a", self.operand(owner, body, o)),
                ("n", s(format!("{}", n))),
            ]),
            Rvalue::Ref(_, bk, p) => J::O(vec![
                ("k", s("ref")),
                ("mut", J::B(matches!(bk, mir::BorrowKind::Mut { .. }))),
                ("p", self.place(body, p)),
            ]),
            Rvalue::RawPtr(_, p) => J::O(vec![("k", s("rawptr")), ("p", self.place(body, p))]),
            Rvalue::Cast(ck, o, t) => J::O(vec![
                ("k", s("cast")),
                ("ck", s(format!("{:?}", ck))),
                ("a", self.operand(owner, body, o)),
                ("ty", s(self.tystr(*t))),
                ("from", s(self.tystr(o.ty(body, self.tcx)))),
            ]),
            Rvalue::BinaryOp(op, ops) => J::O(vec![
                ("k", s("bin")),
                ("op", s(format!("{:?}", op))),
                ("a", self.operand(owner, body, &ops.0)),
                ("b", self.operand(owner, body, &ops.1)),
            ]),
            Rvalue::UnaryOp(op, o) => J::O(vec![
                ("k", s("un")),
                ("op", s(format!("{:?}", op))),
                ("a", self.operand(owner, body, o)),
            ]),
            Rvalue::Discriminant(p) => {
                let pty = p.ty(body, self.tcx).ty;
                let adt = self.adt_of(pty);
                J::O(vec![("k", s("discr")), ("p", self.place(body, p)), ("adt", opt_s(adt))])
            }
            Rvalue::Aggregate(kind, fields) => {
                let ops: Vec<J> = fields.iter().map(|o| self.operand(owner, body, o)).collect();
                match &**kind {
                    AggregateKind::Adt(adid, vidx, _, _, _) => {
                        let adt = self.tcx.adt_def(*adid);
                        let v = adt.variant(*vidx);
                        let names: Vec<J> =
                            v.fields.iter().map(|f| s(f.name.to_string())).collect();
                        let name = self.path(*adid);
                        if !adid.is_local() && adt.is_enum() {
                            self.ext_adts.entry(name.clone()).or_insert(*adid);
                        }
                        J::O(vec![
                            ("k", s("agg")),
                            ("adt", s(name)),
                            ("v", s(v.name.to_string())),
                            ("fn", J::A(names)),
                            ("ops", J::A(ops)),
                        ])
                    }
                    AggregateKind::Closure(cdid, _) => J::O(vec![
                        ("k", s("agg")),
                        ("clo", s(self.fn_path(*cdid))),
                        ("ops", J::A(ops)),
                    ]),
                    AggregateKind::Tuple => {
                        J::O(vec![("k", s("agg")), ("tup", J::B(true)), ("ops", J::A(ops))])
                    }
                    AggregateKind::Array(t) => J::O(vec![
                        ("k", s("agg")),
                        ("arr", s(self.tystr(*t))),
                        ("ops", J::A(ops)),
                    ]),
                    other => J::O(vec![
                        ("k", s("agg")),
                        ("other", s(format!("{:?}", other))),
                        ("ops", J::A(ops)),
                    ]),
                }
            }
            Rvalue::CopyForDeref(p) => J::O(vec![("k", s("use")), ("a", self.place(body, p))]),
            other => J::O(vec![("k", s("other")), ("dbg", s(format!("{:?}", other)))]),
        }
    }

    fn src(&self, sp: rustc_span::Span, fn_file: &str, v: &mut Vec<(&'static str, J)>) {
        let (line, macs, file) = self.line_info(sp);
        v.push(("ln", J::N(line as i128)));
        if !macs.is_empty() {
            v.push(("mac", J::A(macs.into_iter().map(s).collect())));
        }
        if file != fn_file {
            v.push(("file", s(file)));
        }
    }

    fn body(&mut self, owner: DefId, body: &Body<'tcx>, fn_file: &str) -> (J, J) {
        let tcx = self.tcx;
        // locals
        let mut names: BTreeMap<usize, String> = BTreeMap::new();
        for vdi in &body.var_debug_info {
            if let mir::VarDebugInfoContents::Place(p) = &vdi.value {
                if p.projection.is_empty() {
                    names.entry(p.local.as_usize()).or_insert(vdi.name.to_string());
                }
            }
        }
        let mut locals = Vec::new();
        for (l, d) in body.local_decls.iter_enumerated() {
            let mut v = vec![("ty", s(self.tystr(d.ty)))];
            if let Some(a) = self.adt_of(d.ty) {
                v.push(("adt", s(a)));
            }
            if let Some(n) = names.get(&l.as_usize()) {
                v.push(("n", s(n.clone())));
            }
            locals.push(J::O(v));
        }
        let mut blocks = Vec::new();
        for (_bb, data) in body.basic_blocks.iter_enumerated() {
            let mut stmts = Vec::new();
            for st in &data.statements {
                match &st.kind {
                    StatementKind::Assign(b) => {
                        let (place, rv) = &**b;
                        let mut v = vec![
                            ("k", s("assign")),
                            ("p", self.place(body, place)),
                            ("rv", self.rvalue(owner, body, rv)),
                        ];
                        self.src(st.source_info.span, fn_file, &mut v);
                        stmts.push(J::O(v));
                    }
                    StatementKind::SetDiscriminant { place, variant_index } => {
                        let pty = place.ty(body, tcx).ty;
                        let vname = if let ty::Adt(adt, _) = pty.kind() {
                            Some(adt.variant(*variant_index).name.to_string())
                        } else {
                            None
                        };
                        let mut v = vec![
                            ("k", s("setdiscr")),
                            ("p", self.place(body, place)),
                            ("v", opt_s(vname)),
                        ];
                        self.src(st.source_info.span, fn_file, &mut v);
                        stmts.push(J::O(v));
                    }
                    _ => {}
                }
            }
            let term = data.terminator();
            let mut tv: Vec<(&'static str, J)> = Vec::new();
            match &term.kind {
                TerminatorKind::Goto { target } => {
                    tv.push(("k", s("goto")));
                    tv.push(("t", J::N(target.as_usize() as i128)));
                }
                TerminatorKind::SwitchInt { discr, targets } => {
                    tv.push(("k", s("switch")));
                    tv.push(("d", self.operand(owner, body, discr)));
                    let dty = discr.ty(body, tcx);
                    tv.push(("dty", s(self.tystr(dty))));
                    let ts: Vec<J> = targets
                        .iter()
                        .map(|(v, bb)| J::A(vec![J::N(v as i128), J::N(bb.as_usize() as i128)]))
                        .collect();
                    tv.push(("ts", J::A(ts)));
                    tv.push(("o", J::N(targets.otherwise().as_usize() as i128)));
                }
                TerminatorKind::Return => tv.push(("k", s("return"))),
                TerminatorKind::Unreachable => tv.push(("k", s("unreachable"))),
                TerminatorKind::UnwindResume => tv.push(("k", s("resume"))),
                TerminatorKind::Drop { place, target, .. } => {
                    tv.push(("k", s("drop")));
                    tv.push(("p", self.place(body, place)));
                    tv.push(("t", J::N(target.as_usize() as i128)));
                }
                TerminatorKind::Call { func, args, destination, target, .. } => {
                    tv.push(("k", s("call")));
                    if let Some((cd, gargs)) = func.const_fn_def() {
                        tv.push(("f", s(self.fn_path(cd))));
                        let resolved = ty::Instance::try_resolve(
                            tcx,
                            ty::TypingEnv::post_analysis(tcx, owner),
                            cd,
                            gargs,
                        )
                        .ok()
                        .flatten();
                        if let Some(inst) = resolved {
                            let rp = self.fn_path(inst.def_id());
                            tv.push(("r", s(rp)));
                            if let ty::InstanceKind::Virtual(..) = inst.def {
                                tv.push(("virt", J::B(true)));
                            }
                        } else {
                            tv.push(("r", J::Null));
                        }
                        let ga = fix_crate(with_crate_prefix!(with_no_visible_paths!(with_no_trimmed_paths!(format!("{:?}", gargs)))), &self.krate);
                        tv.push(("ga", s(ga)));
                    } else {
                        tv.push(("f", J::Null));
                        tv.push(("fop", self.operand(owner, body, func)));
                    }
                    let a: Vec<J> =
                        args.iter().map(|a| self.operand(owner, body, &a.node)).collect();
                    tv.push(("args", J::A(a)));
                    tv.push(("dest", self.place(body, destination)));
                    tv.push((
                        "t",
                        match target {
                            Some(t) => J::N(t.as_usize() as i128),
                            None => J::Null,
                        },
                    ));
                }
                TerminatorKind::Assert { cond, expected, msg, target, .. } => {
                    tv.push(("k", s("assert")));
                    tv.push(("c", self.operand(owner, body, cond)));
                    tv.push(("exp", J::B(*expected)));
                    let m = match &**msg {
                        AssertKind::BoundsCheck { len, index } => J::O(vec![
                            ("kind", s("BoundsCheck")),
                            ("len", self.operand(owner, body, len)),
                            ("index", self.operand(owner, body, index)),
                        ]),
                        AssertKind::Overflow(op, a, b) => J::O(vec![
                            ("kind", s("Overflow")),
                            ("op", s(binop_name(*op))),
                            ("a", self.operand(owner, body, a)),
                            ("b", self.operand(owner, body, b)),
                        ]),
                        AssertKind::OverflowNeg(a) => J::O(vec![
                            ("kind", s("OverflowNeg")),
                            ("a", self.operand(owner, body, a)),
                        ]),
                        AssertKind::DivisionByZero(a) => J::O(vec![
                            ("kind", s("DivisionByZero")),
                            ("a", self.operand(owner, body, a)),
                        ]),
                        AssertKind::RemainderByZero(a) => J::O(vec![
                            ("kind", s("RemainderByZero")),
                            ("a", self.operand(owner, body, a)),
                        ]),
                        other => {
                            let d = format!("{:?}", other);
                            let kind = d.split(|c: char| !c.is_alphanumeric()).next().unwrap_or("").to_string();
                            J::O(vec![("kind", s(format!("UB:{}", kind)))])
                        }
                    };
                    tv.push(("msg", m));
                    tv.push(("t", J::N(target.as_usize() as i128)));
                }
                TerminatorKind::FalseEdge { real_target, .. } => {
                    tv.push(("k", s("goto")));
                    tv.push(("t", J::N(real_target.as_usize() as i128)));
                }
                TerminatorKind::FalseUnwind { real_target, .. } => {
                    tv.push(("k", s("goto")));
                    tv.push(("t", J::N(real_target.as_usize() as i128)));
                }
                other => {
                    tv.push(("k", s("other")));
                    tv.push(("dbg", s(format!("{:?}", other))));
                    let succ: Vec<J> =
                        term.successors().map(|b| J::N(b.as_usize() as i128)).collect();
                    tv.push(("succ", J::A(succ)));
                }
            }
            self.src(term.source_info.span, fn_file, &mut tv);
            let mut bv = vec![("s", J::A(stmts)), ("t", J::O(tv))];
            if data.is_cleanup {
                bv.push(("c", J::B(true)));
            }
            blocks.push(J::O(bv));
        }
        (J::A(locals), J::A(blocks))
    }

    fn adt_json(&mut self, did: DefId) -> J {
        let tcx = self.tcx;
        let adt = tcx.adt_def(did);
        let kind = if adt.is_enum() {
            "enum"
        } else if adt.is_union() {
            "union"
        } else {
            "struct"
        };
        let mut variants = Vec::new();
        for (i, v) in adt.variants().iter_enumerated() {
            let discr = if adt.is_enum() {
                J::N(adt.discriminant_for_variant(tcx, i).val as i128)
            } else {
                J::Null
            };
            let mut fields = Vec::new();
            for f in v.fields.iter() {
                let fty = tcx.type_of(f.did).instantiate_identity().skip_norm_wip();
                let vis_pub = f.vis.is_public();
                fields.push(J::O(vec![
                    ("name", s(f.name.to_string())),
                    ("ty", s(self.tystr(fty))),
                    ("adts", J::A(self.mentioned_adts(fty).into_iter().map(s).collect())),
                    ("pub", J::B(vis_pub)),
                ]));
            }
            variants.push(J::O(vec![
                ("name", s(v.name.to_string())),
                ("discr", discr),
                ("fields", J::A(fields)),
            ]));
        }
        let (line, _, file) = self.line_info(tcx.def_span(did));
        J::O(vec![
            ("kind", s(kind)),
            ("repr", s(format!("{:?}", adt.repr().int))),
            ("file", s(file)),
            ("line", J::N(line as i128)),
            ("variants", J::A(variants)),
        ])
    }
}

fn binop_name(op: BinOp) -> String {
    format!("{:?}", op)
}

struct Cb;
impl rustc_driver::Callbacks for Cb {
    fn after_analysis<'tcx>(
        &mut self,
        _c: &rustc_interface::interface::Compiler,
        tcx: TyCtxt<'tcx>,
    ) -> Compilation {
        let krate = tcx.crate_name(LOCAL_CRATE).to_string();
        if !krate.starts_with("kanata") {
            return Compilation::Continue;
        }
        let outdir = match std::env::var("KFACTS_OUT") {
            Ok(d) => d,
            Err(_) => return Compilation::Continue,
        };
        let mut cx = Cx { tcx, krate: krate.clone(), ext_adts: BTreeMap::new() };
        let mut adts: BTreeMap<String, J> = BTreeMap::new();
        let mut consts: BTreeMap<String, J> = BTreeMap::new();
        let mut statics: BTreeMap<String, J> = BTreeMap::new();
        let mut fns: BTreeMap<String, J> = BTreeMap::new();

        for def in tcx.hir_crate_items(()).definitions() {
            let did = def.to_def_id();
            let kind = tcx.def_kind(did);
            match kind {
                DefKind::Enum | DefKind::Struct => {
                    let name = cx.path(did);
                    let j = cx.adt_json(did);
                    adts.insert(name, j);
                }
                DefKind::Const { .. } | DefKind::AssocConst { .. } => {
                    if !tcx.generics_of(did).is_empty() {
                        continue;
                    }
                    // skip trait-declared assoc consts without value
                    if matches!(kind, DefKind::AssocConst { .. }) {
                        if let Some(t) = tcx.trait_of_assoc(did) {
                            let _ = t;
                            continue;
                        }
                        if !tcx.generics_of(tcx.parent(did)).is_empty() {
                            continue;
                        }
                    }
                    let name = cx.path(did);
                    let ty = tcx.type_of(did).instantiate_identity().skip_norm_wip();
                    let mut v = vec![("ty", s(cx.tystr(ty)))];
                    if matches!(ty.kind(), ty::Int(_) | ty::Uint(_) | ty::Bool | ty::Char) {
                        if let Ok(val) = tcx.const_eval_poly(did) {
                            if let Some(si) = val.try_to_scalar_int() {
                                let bits = si.to_bits_unchecked();
                                let x: i128 = match ty.kind() {
                                    ty::Int(_) => {
                                        let size = si.size().bits();
                                        let shift = 128 - size;
                                        ((bits << shift) as i128) >> shift
                                    }
                                    _ => bits as i128,
                                };
                                v.push(("v", J::N(x)));
                            }
                        }
                    }
                    let (line, _, file) = cx.line_info(tcx.def_span(did));
                    v.push(("file", s(file)));
                    v.push(("line", J::N(line as i128)));
                    consts.insert(name, J::O(v));
                }
                DefKind::Static { .. } => {
                    let name = cx.path(did);
                    let ty = tcx.type_of(did).instantiate_identity().skip_norm_wip();
                    statics.insert(name, J::O(vec![("ty", s(cx.tystr(ty)))]));
                }
                _ => {}
            }
        }

        for ldid in tcx.mir_keys(()).iter() {
            let did = ldid.to_def_id();
            let kind = tcx.def_kind(did);
            let kstr = match kind {
                DefKind::Fn => "fn",
                DefKind::AssocFn => "assoc",
                DefKind::Closure => "closure",
                _ => continue,
            };
            if !tcx.is_mir_available(did) {
                continue;
            }
            // skip coroutines
            if tcx.is_coroutine(did) {
                continue;
            }
            let name = cx.fn_path(did);
            let body = tcx.optimized_mir(did);
            let sm = tcx.sess.source_map();
            let (lo_line, _macs, file) = cx.line_info(body.span);
            let hi_line = sm.lookup_char_pos(body.span.source_callsite().hi()).line;
            let (locals, blocks) = cx.body(did, body, &file);
            let mut v: Vec<(&'static str, J)> = vec![
                ("kind", s(kstr)),
                ("file", s(file.clone())),
                ("lo", J::N(lo_line as i128)),
                ("hi", J::N(hi_line as i128)),
                ("nargs", J::N(body.arg_count as i128)),
            ];
            if body.span.from_expansion() {
                let macs: Vec<J> = body
                    .span
                    .macro_backtrace()
                    .filter_map(|e| match e.kind {
                        rustc_span::ExpnKind::Macro(_, name) => Some(s(name.to_string())),
                        _ => None,
                    })
                    .collect();
                v.push(("mac", J::A(macs)));
            }
            if kind == DefKind::Closure {
                let parent = tcx.typeck_root_def_id(did);
                v.push(("parent", s(cx.fn_path(parent))));
                v.push(("iparent", s(cx.fn_path(tcx.parent(did)))));
                let caps: Vec<J> = tcx
                    .closure_captures(*ldid)
                    .iter()
                    .map(|c| s(c.to_symbol().to_string()))
                    .collect();
                v.push(("caps", J::A(caps)));
            } else if kind == DefKind::AssocFn {
                let parent = tcx.parent(did);
                if tcx.def_kind(parent) == (DefKind::Impl { of_trait: true }) {
                    let tr = tcx.impl_trait_ref(parent);
                    let tr = tr.instantiate_identity().skip_norm_wip();
                    v.push(("trait", s(cx.path(tr.def_id))));
                    let st = tr.self_ty();
                    if let Some(a) = cx.adt_of(st) {
                        v.push(("self_adt", s(a)));
                    }
                    v.push(("self_ty", s(cx.tystr(st))));
                    if tcx.is_automatically_derived(parent) {
                        v.push(("derive", J::B(true)));
                    }
                } else if matches!(tcx.def_kind(parent), DefKind::Impl { .. }) {
                    let st = tcx.type_of(parent).instantiate_identity().skip_norm_wip();
                    if let Some(a) = cx.adt_of(st) {
                        v.push(("self_adt", s(a)));
                    }
                    v.push(("self_ty", s(cx.tystr(st))));
                }
            }
            if matches!(kind, DefKind::Fn | DefKind::AssocFn) {
                v.push(("pub", J::B(tcx.visibility(did).is_public())));
            }
            let ret_ty = body.local_decls[mir::RETURN_PLACE].ty;
            v.push(("ret", s(cx.tystr(ret_ty))));
            v.push(("locals", locals));
            v.push(("blocks", blocks));
            // promoteds (array literals etc.)
            let proms = tcx.promoted_mir(did);
            if !proms.is_empty() {
                let mut pv = Vec::new();
                for pb in proms.iter() {
                    let (pl, pbks) = cx.body(did, pb, &file);
                    pv.push(J::O(vec![("locals", pl), ("blocks", pbks)]));
                }
                v.push(("promoted", J::A(pv)));
            }
            // disambiguate duplicates (cfg'd duplicates are impossible, but macro-generated may clash)
            let mut key = name.clone();
            let mut n = 1;
            while fns.contains_key(&key) {
                n += 1;
                key = format!("{}#{}", name, n);
            }
            fns.insert(key, J::O(v));
        }

        // external enums seen
        let ext: Vec<(String, DefId)> = cx.ext_adts.iter().map(|(k, v)| (k.clone(), *v)).collect();
        let mut ext_j: BTreeMap<String, J> = BTreeMap::new();
        for (name, did) in ext {
            let adt = tcx.adt_def(did);
            let mut variants = Vec::new();
            for (i, v) in adt.variants().iter_enumerated() {
                let d = adt.discriminant_for_variant(tcx, i).val as i128;
                variants.push(J::O(vec![("name", s(v.name.to_string())), ("discr", J::N(d))]));
            }
            ext_j.insert(name, J::O(vec![("kind", s("enum")), ("variants", J::A(variants))]));
        }

        let crate_types: Vec<J> =
            tcx.crate_types().iter().map(|t| s(format!("{:?}", t))).collect();
        let is_bin = tcx.crate_types().iter().any(|t| format!("{:?}", t) == "Executable");
        let top = J::O(vec![
            ("crate", s(krate.clone())),
            ("crate_types", J::A(crate_types)),
            ("adts", J::M(adts)),
            ("ext_adts", J::M(ext_j)),
            ("consts", J::M(consts)),
            ("statics", J::M(statics)),
            ("fns", J::M(fns)),
        ]);
        let mut out = String::new();
        top.w(&mut out);
        let fname = if is_bin {
            format!("{}/{}.bin.json", outdir, krate)
        } else {
            format!("{}/{}.json", outdir, krate)
        };
        let tmp = format!("{}.tmp{}", fname, std::process::id());
        std::fs::write(&tmp, out.as_bytes()).expect("kfacts: write");
        std::fs::rename(&tmp, &fname).expect("kfacts: rename");
        Compilation::Continue
    }
}

fn main() {
    let mut args: Vec<String> = std::env::args().collect();
    // RUSTC_WORKSPACE_WRAPPER passes: wrapper rustc args...
    if args.len() > 1 && (args[1].ends_with("rustc") || args[1].contains("/rustc")) {
        args.remove(1);
    }
    rustc_driver::run_compiler(&args, &mut Cb);
}
