#!/bin/sh
set -e
cd "$(dirname "$0")"
(cd kfacts && CARGO_NET_OFFLINE=true cargo +nightly build --offline 2>&1 | tail -3)
