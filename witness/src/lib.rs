//! Compile-fail witnesses: ownership / encapsulation facts of jtroo/kanata that the type system
//! enforces and that the MIR rules rely on. Each `compile_fail,E0xxx` test has a compiling twin that
//! differs only in the offending line, so a witness cannot pass merely because a path is wrong.
//! Run with `cargo +nightly test --doc --offline` (error codes are only checked on nightly).

/// W1 — an `OpCode` cannot be built from a raw `u16` outside keyberon: opcodes only come from the
/// validating constructors (relied on by R-OPCODE-* and the R-PANIC table entries for opcode_type).
/// ```compile_fail,E0423
/// use kanata_keyberon::action::switch::OpCode;
/// let _op = OpCode(0x0FFF);
/// ```
/// twin:
/// ```
/// use kanata_keyberon::action::switch::OpCode;
/// use kanata_keyberon::key_code::KeyCode;
/// let _op = OpCode::new_key(KeyCode::A);
/// ```
pub struct W1;

/// W2 — an `Override` cannot be built by a struct literal outside its module: only
/// `Override::try_new` (exactly one non-modifier in and out) constructs overrides (C13).
/// ```compile_fail,E0451
/// use kanata_parser::cfg::Override;
/// use kanata_parser::keys::OsCode;
/// let _o = Override { in_non_mod_osc: OsCode::KEY_A, out_non_mod_osc: OsCode::KEY_B, in_mod_oscs: vec![], out_mod_oscs: vec![] };
/// ```
/// twin:
/// ```
/// use kanata_parser::cfg::Override;
/// use kanata_parser::keys::OsCode;
/// let _o = Override::try_new(&[OsCode::KEY_A], &[OsCode::KEY_B]).unwrap();
/// ```
pub struct W2;

/// W4 — `ChordsV2.active_chords` and `queue` are private: only keyberon's chord module can remove an
/// active chord or drain the v2 queue (supports R-CHV2-REL).
/// ```compile_fail,E0616
/// fn f<T>(c: &mut kanata_keyberon::chord::ChordsV2<'static, T>) { let _ = &c.active_chords; }
/// ```
/// ```compile_fail,E0616
/// fn f<T>(c: &mut kanata_keyberon::chord::ChordsV2<'static, T>) { let _ = &c.queue; }
/// ```
/// twin:
/// ```
/// fn f<T>(c: &mut kanata_keyberon::chord::ChordsV2<'static, T>) -> bool { c.is_idle_chv2() }
/// ```
pub struct W4;

/// W5 — `Span` / `Position` fields are readable but a `Span` for foreign text cannot be forged through
/// `OverrideStates`-like private scratch: the override scratch is private (supports R-OVR-SCRATCH).
/// ```compile_fail,E0616
/// let s = kanata_parser::cfg::OverrideStates::new();
/// let _ = s.oscs_to_add.len();
/// ```
/// twin:
/// ```
/// let s = kanata_parser::cfg::OverrideStates::new();
/// let _ = s.removed_oscs().count();
/// ```
pub struct W5;
