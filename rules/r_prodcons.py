"""R-PRODCONS (C02): run-time arithmetic that relies on a parser-side validation.
Every requirement `field >= c` (or `len(field) >= c`) that a run-time site relies on is re-derived at
every place that produces that field: aggregate constructions and field stores, in all analysed crates.
The produced operand must satisfy the bound by the guard data-flow at that point (which uses the
validators' derived return summaries), or come from another field for which the same requirement is
then checked recursively, or from a parameter whose call sites are checked."""
import re

from kq.core import Resolver, callee_name, is_const, is_place, proj, proj_fields
from kq.gf2 import root_desc
from kq.guardflow import INF, IS
from kq.report import RuleResult
from rules.r_panic import Engine

CA = "kanata_parser::custom_action::CustomAction"
# (id, adt, variant|None, field, kind, min, consumer)
REQS = [
    ("tap-dance-actions-nonempty", "kanata_keyberon::action::TapDance", None, "actions", "len", 1,
     "keyberon layout.rs: td.actions[0], tds.actions[min(n,len)-1]"),
    ("mwheel-interval", CA, "MWheel", "interval", "val", 1, "Kanata::handle_scrolling: interval - 1"),
    ("movemouse-interval", CA, "MoveMouse", "interval", "val", 1, "Kanata::handle_move_mouse: interval - 1"),
    ("movemouse-accel-interval", CA, "MoveMouseAccel", "interval", "val", 1, "Kanata::handle_move_mouse: interval - 1"),
    ("sequence-leader-timeout", CA, "SequenceLeader", "0", "val", 1, "Kanata::tick_sequence_state: ticks_until_timeout -= 1"),
    ("cfg-sequence-timeout", "kanata_parser::cfg::defcfg::CfgOptions", None, "sequence_timeout", "val", 1,
     "sequence-always-on re-activation with Kanata.sequence_timeout; tick_sequence_state"),
    ("chords-v2-min-idle", "kanata_parser::cfg::defcfg::CfgOptions", None, "chords_v2_min_idle", "val", 5, "ChordsV2::new: assert!(ticks_ignore_chord >= 5)"),
    # feature "cmd" only: the run time takes the executable with args.next().expect(..)
    ("cmd-nonempty", CA, "Cmd", "0", "len", 1, "cmd::run_cmd_in_thread: args.next().expect()"),
    ("cmd-log-nonempty", CA, "CmdLog", "2", "len", 1, "cmd::run_cmd_in_thread: args.next().expect()"),
    ("cmd-output-keys-nonempty", CA, "CmdOutputKeys", "0", "len", 1, "cmd::keys_for_cmd_output: args.next().expect()"),
    ("clipboard-cmd-set-nonempty", CA, "ClipboardCmdSet", "0", "len", 1, "clipboard cmd: args.next().expect()"),
    ("clipboard-save-cmd-set-nonempty", CA, "ClipboardSaveCmdSet", "1", "len", 1, "clipboard cmd: args.next().expect()"),
]
# requirements whose producers exist only when a cargo feature is on: no producer = nothing to check
FEATURE_ONLY = {"cmd-nonempty", "cmd-output-keys-nonempty", "clipboard-cmd-set-nonempty", "clipboard-save-cmd-set-nonempty"}


# producers that copy an existing, already validated value of the same field
EXEMPT = {
    ("tap-dance-actions-nonempty", "kanata_parser::cfg::fill_chords"):
        "rebuilds an existing TapDance: the new action vector is a zip over the original one, hence of the same (non-zero) length",
}


class PC:
    def __init__(self, prog):
        self.prog = prog
        self.eng = Engine(prog, set())
        self.seen = {}

    def producers(self, adt, variant, field):
        out = []
        for f in self.prog.fns.values():
            if not f.crate.startswith("kanata") or f.derive:
                continue
            for bi, si, st in f.all_rvalues():
                rv = st["rv"]
                if rv["k"] == "agg" and rv.get("adt") == adt and (variant is None or rv.get("v") == variant):
                    if field in rv["fn"]:
                        out.append((f, bi, si, rv["ops"][rv["fn"].index(field)], "aggregate"))
                pf = proj_fields(st["p"])
                if pf and pf[-1][0] == adt and pf[-1][2] == field and (variant is None or pf[-1][1] == variant):
                    pr = proj(st["p"])
                    last = [e for e in pr if isinstance(e, dict) and "f" in e][-1]
                    if pr[-1] is last and rv["k"] in ("use", "cast"):
                        out.append((f, bi, si, rv["a"], "store"))
            for bi, t in f.calls():
                pf = proj_fields(t["dest"])
                if pf and pf[-1][0] == adt and pf[-1][2] == field:
                    out.append((f, bi, "t", None, "call-result"))
        return out

    def check(self, adt, variant, field, kind, mn, depth=0):
        key = (adt, variant, field, kind, mn)
        if key in self.seen:
            return self.seen[key]
        self.seen[key] = (True, [])  # optimistic for cycles
        results = []
        ok_all = True
        prods = self.producers(adt, variant, field)
        if not prods:
            self.seen[key] = (False, [("no producer found", "", False, "")])
            return self.seen[key]
        for (f, bi, si, op, how) in prods:
            ok, why = self.check_value(f, bi, si, op, kind, mn, depth)
            results.append(("%s:%s" % (f.file, f.line_of(bi, si)), f.norm, ok, "%s: %s" % (how, why)))
            ok_all = ok_all and ok
        self.seen[key] = (ok_all, results)
        return self.seen[key]

    def check_value(self, f, bi, si, op, kind, mn, depth):
        g = self.eng.gf(f)
        st = g.block_in.get(bi)
        if st is None:
            return True, "unreachable"
        st = st.copy()
        stmts = f.stmts(bi)
        upto = len(stmts) if si == "t" else si
        for stm in stmts[:upto]:
            if stm["k"] == "assign":
                g._assign(st, stm)
        if si == "t":
            t = f.term(bi)
            iv = self.eng.summary_at_call(t, g, st)
            if iv is not None and not iv.is_empty() and iv.lo() >= mn:
                return True, "validator result %s" % iv
            return False, "result of %s not known to be >= %d" % (callee_name(t), mn)
        if kind == "val":
            v = g.value(st, op)
            if not v.is_empty() and v.lo() >= mn:
                return True, "value %s" % v
        else:
            target = op
            r = Resolver(f).root(op)
            if r[0] == "call" and (callee_name(r[1][1]) or "").split("::")[-1] in ("sref_vec", "sref_slice", "bref_slice", "into_boxed_slice", "leak"):
                target = r[1][1]["args"][-1]
                bb2 = r[1][0]
                st = g.before_term(bb2) or st
            lk = g.len_key(target)
            if lk is not None:
                lv = st.get(lk)
                if not lv.is_empty() and lv.lo() >= mn:
                    return True, "len %s" % lv
        # derived from another field?
        if is_place(op) and depth < 4:
            chain = [op]
            r = Resolver(f).root(op)
            flds = r[2]
            src = None
            for (a, v, fl) in reversed(flds):
                src = (a, v, fl)
                break
            if src is not None and not (src[0] == "core::option::Option"):
                ok, res = self.check(src[0], src[1], src[2], kind, mn, depth + 1)
                return ok, "copied from %s%s.%s (%s)" % (src[0].split("::")[-1], ("::" + src[1]) if src[1] else "", src[2],
                                                          "checked" if ok else "NOT satisfied: " + "; ".join(x[3] for x in res if not x[2])[:200])
            if r[0] == "param":
                ok, why = self.eng.check_requirement(f, (r[1], "ge" if kind == "val" else "len", mn))
                return ok, "parameter %d: %s" % (r[1], why)
        return False, "cannot show %s >= %d" % ("value" if kind == "val" else "length", mn)


def run(prog):
    res = RuleResult("R-PRODCONS", "values the run time does arithmetic on are validated wherever they are produced", floor=8)
    pc = PC(prog)
    for (rid, adt, variant, field, kind, mn, consumer) in REQS:
        ok, results = pc.check(adt, variant, field, kind, mn)
        if rid in FEATURE_ONLY and len(results) == 1 and results[0][0] == "no producer found":
            continue
        for (where, fn, okk, why) in results:
            if not okk and (rid, fn) in EXEMPT:
                okk, why = True, "exempt: " + EXEMPT[(rid, fn)]
            res.inst("%s@%s" % (rid, fn.split("::")[-1] if fn else "?"), where=where, ok=okk, how=why[:200])
            res.oblige(okk)
            if not okk:
                res.viol("%s/%s" % (rid, fn), where,
                         "%s.%s must be >= %d (relied on by %s) but this producer does not guarantee it: %s"
                         % ((adt.split("::")[-1] + ("::" + variant if variant else "")), field, mn, consumer, why[:300]))
        if not results:
            res.viol(rid + "/no-producer", "parser", "no producer of %s.%s found" % (adt, field))
    return res
