"""R-EVICT (C01, C05, C06, C08): an element evicted from a wrapping ring buffer is never silently dropped
when it carries an obligation (a queued input event, a running macro, a deferred one-shot release, an
undecided tap-hold). Every insertion into such a buffer on the run-time path either consumes the
`Option<evicted>` it returns, or is listed in the reviewed table with the capacity argument."""
import fnmatch

from kq.core import callee_name, is_place, rvalue_operands
from kq.report import RuleResult
from rules.r_doaction import receiver_fields
from rules.r_panic import RT_ROOTS, RT_STOP

MUST_NOT_DROP = ("kanata_keyberon::layout::Queued", "kanata_keyberon::layout::SequenceState", "kanata_keyberon::layout::WaitingState")
KCOORD_FIELDS = ("keys", "released_keys")

TABLE = [
    ("*Layout::process_sequences|active_sequences|push_back*", "put back into the slot freed by pop_front in the same iteration, or into an empty ring"),
    ("*Layout::do_action|extra_waiting|push_back*", "capacity 8 concurrent tap-holds: a 9th drops the oldest undecided key (its own action is lost, nothing stays pressed; triaged with 12 concurrent tap-holds)"),
    ("*OneShotState::handle_press|?|extend*", "moves at most 16 coordinates between two 16-slot rings"),
    ("*OneShotState::handle_release|released_keys|push_back/returned-to/process_sequences",
     "macro key releases call handle_release with the fake coordinate (0, 0), which is never a one-shot key (layer position 0 is forced to NoOp, "
     "R-FILL): the call returns (true, None) and evicts nothing"),
]


def run(prog, fields=None, floor=8):
    res = RuleResult("R-EVICT", "evictions from wrapping buffers that carry obligations are consumed", floor=floor)
    reach = prog.reachable_from(RT_ROOTS, stop=RT_STOP)
    for n in sorted(reach):
        for f in prog.by_norm.get(n, []):
            if not f.crate.startswith("kanata"):
                continue
            for bi, t in f.calls():
                cn = callee_name(t) or ""
                if not cn.startswith("arraydeque::") and "arraydeque::ArrayDeque" not in cn:
                    continue
                meth = cn.split("::")[-1]
                if meth not in ("push_back", "push_front", "extend", "extend_back", "extend_front", "insert"):
                    continue
                ga = t.get("ga", "")
                dty = f.local_ty(t["dest"]["l"]) or ""
                wrapping = "Wrapping" in ga or dty.startswith("core::option::Option<") or (meth.startswith("extend") and "Wrapping" in (f.place_ty(t["args"][0]) or "") + ga)
                if not wrapping:
                    continue
                fl = receiver_fields(f, t)
                field = fl[-1] if fl else "?"
                elem_critical = any(m in ga for m in MUST_NOT_DROP) or ("(u8, u16)" in ga and field in KCOORD_FIELDS)
                if not elem_critical:
                    continue
                if fields is not None and field not in fields:
                    continue
                res.fn(f)
                dl = t["dest"]["l"]
                used = dl == 0
                for b2 in f.reachable():
                    for st in f.stmts(b2):
                        if st["k"] == "assign" and any(is_place(o) and o["l"] == dl for o in rvalue_operands(st["rv"])):
                            used = True
                    t2 = f.term(b2)
                    if t2["k"] == "call" and any(is_place(a) and a["l"] == dl for a in t2["args"]):
                        used = True
                    if t2["k"] == "switch" and is_place(t2["d"]) and t2["d"]["l"] == dl:
                        used = True
                if meth.startswith("extend"):
                    used = False
                # handed to the caller inside the return value? then every caller has to look at that component
                ret_slot = _returned_slot(f, dl)
                if used and ret_slot is not None:
                    for (cf, cb, ct) in prog.call_sites(f.norm):
                        key2 = "%s|%s|%s/returned-to/%s" % (f.norm, field, meth, cf.norm.split("::")[-1])
                        tab = [r_ for p_, r_ in TABLE if fnmatch.fnmatchcase(key2, p_)]
                        if tab:
                            res.inst(key2, where="%s:%s" % (cf.file, ct.get("ln")), how="table: " + tab[0])
                            res.oblige(True)
                            continue
                        if not _reads_field(cf, ct["dest"], ret_slot):
                            res.inst(key2, where="%s:%s" % (cf.file, ct.get("ln")), how="DROPPED by caller")
                            res.oblige(False)
                            res.viol(key2, "%s:%s" % (cf.file, ct.get("ln")),
                                     "%s returns the element evicted from %s to its caller, and %s ignores it: the evicted deferred release is "
                                     "lost (the key it belongs to stays down)" % (f.norm.split("::")[-1], field, cf.norm.split("::")[-1]))
                        else:
                            res.inst("%s|%s|%s/returned-to/%s" % (f.norm, field, meth, cf.norm.split("::")[-1]), where="%s:%s" % (cf.file, ct.get("ln")), how="caller reads it")
                            res.oblige(True)
                if used and dl != 0 and ret_slot is None and not meth.startswith("extend"):
                    esc = _escapes_unconsumed(f, t)
                    if esc is not None:
                        key3 = "%s|%s|%s/not-on-every-path" % (f.norm, field, meth)
                        res.inst(key3, where="%s:%s" % (f.file, t.get("ln")), how="a return is reachable with the evicted element unconsumed")
                        res.oblige(False)
                        res.viol(key3, "%s:%s" % (f.file, f.line_of(esc)),
                                 "%s.%s evicts an element when the buffer is full; it is consumed on some paths, but the return at bb%d is "
                                 "reachable from the `Some(evicted)` side without any use of the evicted element: on that path the evicted "
                                 "event / macro / deferred release is lost (a key it was holding stays down)" % (field, meth, esc))
                base = "%s|%s|%s" % (f.norm, field, meth)
                ord_ = sum(1 for i in res.instances if i["key"].split("#")[0] == base)
                key = base if ord_ == 0 else "%s#%d" % (base, ord_)
                how = "evicted element consumed" if used else None
                if not used:
                    for pat, reason in TABLE:
                        if fnmatch.fnmatchcase(key, pat):
                            how = "table: " + reason
                            break
                res.inst(key, where="%s:%s" % (f.file, t.get("ln")), how=how or "DROPPED")
                res.oblige(how is not None)
                if how is None:
                    res.viol(key, "%s:%s" % (f.file, t.get("ln")),
                             "%s.%s on a wrapping buffer of %s drops the element it evicts when the buffer is full: the evicted "
                             "event / macro / deferred release is lost (a key it was holding stays down)" % (field, meth, ga[:80]))
    return res


def run_c05(prog):
    return run(prog, fields=("extra_waiting", "queue"), floor=3)


def run_c06(prog):
    return run(prog, fields=("keys", "released_keys"), floor=2)


def run_c08(prog):
    return run(prog, fields=("active_sequences",), floor=2)


def _returned_slot(f, dl):
    """index of the tuple component of the return value that holds local dl (following plain moves), or None"""
    from kq.core import proj
    aliases = {dl}
    changed = True
    while changed:
        changed = False
        for bi, si, st in f.all_rvalues():
            rv = st["rv"]
            if rv["k"] == "use" and is_place(rv["a"]) and not proj(rv["a"]) and rv["a"]["l"] in aliases and not proj(st["p"]) and st["p"]["l"] not in aliases:
                aliases.add(st["p"]["l"])
                changed = True
    for bi, si, st in f.all_rvalues():
        rv = st["rv"]
        if st["p"]["l"] == 0 and not proj(st["p"]) and rv["k"] == "agg" and rv.get("tup"):
            for k, o in enumerate(rv["ops"]):
                if is_place(o) and not proj(o) and o["l"] in aliases:
                    return k
    return None


def _reads_field(g, dest, k):
    """does g read component k of the place `dest` (a call destination)?"""
    from kq.core import proj
    if proj(dest):
        return True
    dl = dest["l"]

    def hits(o):
        if not is_place(o) or o["l"] != dl:
            return False
        pr = [e for e in proj(o) if isinstance(e, dict) and "f" in e]
        return bool(pr) and str(pr[0].get("i", pr[0].get("f"))) == str(k) or (bool(pr) and str(pr[0].get("f")) == str(k))
    for b2 in g.reachable():
        for st in g.stmts(b2):
            if st["k"] == "assign":
                rv = st["rv"]
                if any(hits(o) for o in rvalue_operands(rv)):
                    return True
                if rv["k"] in ("discr", "ref", "rawptr") and hits(rv.get("p")):
                    return True
                # whole-tuple move keeps everything alive: treat as read
                if rv["k"] == "use" and is_place(rv["a"]) and rv["a"]["l"] == dl and not proj(rv["a"]):
                    return True
        t2 = g.term(b2)
        if t2["k"] == "call" and any(hits(a) or (is_place(a) and a["l"] == dl and not proj(a)) for a in t2["args"]):
            return True
        if t2["k"] == "switch" and hits(t2["d"]):
            return True
    return False


def _escapes_unconsumed(f, t):
    """The evicted Option is the call's destination. Returns a return block that is reachable from the `Some` side of the
    eviction without passing through a block that uses the payload (call argument, store into memory or into the return
    place), or None when every such path consumes it. Path rule: must-pass-through over the function's CFG."""
    from kq.core import proj
    dl = t["dest"]["l"]
    derived = {dl}
    changed = True
    while changed:
        changed = False
        for bi, si, st in f.all_rvalues():
            rv = st["rv"]
            if rv["k"] == "discr" or proj(st["p"]) or st["p"]["l"] in derived or st["p"]["l"] == 0:
                continue
            ops = [o for o in rvalue_operands(rv) if is_place(o)]
            if rv["k"] == "ref" and is_place(rv.get("p")):
                ops.append(rv["p"])
            if any(o["l"] in derived for o in ops):
                derived.add(st["p"]["l"])
                changed = True
    consume = set()
    discr_locals = {}
    for b in f.reachable():
        for st in f.stmts(b):
            if st["k"] != "assign":
                continue
            rv = st["rv"]
            if rv["k"] == "discr":
                if is_place(rv.get("p")) and rv["p"]["l"] in derived:
                    discr_locals[st["p"]["l"]] = b
                continue
            if (proj(st["p"]) or st["p"]["l"] == 0) and any(is_place(o) and o["l"] in derived for o in rvalue_operands(rv)):
                consume.add(b)
        t2 = f.term(b)
        if t2["k"] == "call" and any(is_place(a) and a["l"] in derived for a in t2["args"]):
            consume.add(b)
    starts = []
    for b in f.reachable():
        t2 = f.term(b)
        if t2["k"] == "switch" and is_place(t2["d"]) and t2["d"]["l"] in discr_locals:
            some = [tb for v, tb in t2["ts"] if v == 1]
            if some:
                starts.extend(some)
            elif any(v == 0 for v, tb in t2["ts"]):
                starts.append(t2["o"])
    if not starts:
        starts = [t["t"]] if t.get("t") is not None else []
    rets = set(f.return_blocks())
    for s in starts:
        if s in consume:
            continue
        hit = sorted(f.reach_from(s, avoid=consume) & rets)
        if hit:
            return hit[0]
    return None
