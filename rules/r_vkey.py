"""C18 rules (narrow).
R-VK-SINGLE  one interpreter of FakeKeyAction, used by every trigger path.
R-VK-ONCE    an on-idle entry is removed when it fires.
R-VK-REARM   hold-for-duration re-arming overwrites the remaining time with the new duration.
"""
from kq.analysis import backward_slice, blocks_calling, discr_switches
from kq.core import callee_name, const_val, is_const, is_place, proj
from kq.report import RuleResult
from rules.r_cancel import closure_arg

KAN = "kanata_state_machine::kanata::"
FKA = "kanata_parser::custom_action::FakeKeyAction"
HFA = KAN + "handle_fakekey_action"


def rule_single(prog):
    res = RuleResult("R-VK-SINGLE", "press/release/tap/toggle are interpreted in one place for every trigger", floor=4)
    interp = []
    for f in prog.fns.values():
        if f.crate != "kanata_state_machine" or f.derive:
            continue
        if discr_switches(prog, f, FKA):
            interp.append(f.norm)
    res.inst("interpreters", fns=sorted(interp))
    if sorted(interp) != [HFA]:
        res.viol("interpreters", "src/kanata/mod.rs", "FakeKeyAction is interpreted in %s; only handle_fakekey_action may" % sorted(interp))
    callers = sorted(prog.callers_of(HFA))
    for c in callers:
        res.inst("caller/" + c.replace(KAN, ""))
    need = ["Kanata::handle_keystate_changes", "Kanata::tick_idle_timeout"]
    for n_ in need:
        if not any(c.startswith(KAN + n_) for c in callers):
            res.viol("caller-missing/" + n_, "src/kanata/mod.rs", "%s no longer goes through handle_fakekey_action" % n_)
    # all four variants are handled explicitly
    f = prog.fn(HFA)
    res.fn(f)
    for sw in discr_switches(prog, f, FKA)[:1]:
        for v in sw.all_variants:
            region = sw.arm_reach(v)
            ev = blocks_calling(f, region, ["kanata_keyberon::layout::Layout::event"])
            res.inst("variant/" + v, events=len(ev), explicit=v in sw.arms or sw.otherwise is None)
            if not ev:
                res.viol("variant/" + v, f.loc, "FakeKeyAction::%s produces no layout event" % v)
    return res


def rule_once(prog):
    res = RuleResult("R-VK-ONCE", "an on-idle virtual key action fires once per arming", floor=1)
    f = prog.fn(KAN + "Kanata::tick_idle_timeout")
    res.fn(f)
    found = False
    for g in [f] + prog.closures_of(f):
        calls = blocks_calling(g, g.reachable(), [HFA])
        if not calls:
            continue
        found = True
        # closure passed to retain: on the path through the call, the returned bool is false
        falses = [bi for bi, si, st in g.all_rvalues() if st["p"]["l"] == 0 and not proj(st["p"]) and st["rv"]["k"] == "use"
                  and is_const(st["rv"]["a"]) and const_val(st["rv"]["a"]) == 0]
        trues = [bi for bi, si, st in g.all_rvalues() if st["p"]["l"] == 0 and not proj(st["p"]) and st["rv"]["k"] == "use"
                 and is_const(st["rv"]["a"]) and const_val(st["rv"]["a"]) == 1]
        ok = True
        for cb, ct in calls:
            after = g.reach_from(ct["t"]) if ct["t"] is not None else set()
            if any(b in after for b in trues) or not any(b in after for b in falses):
                ok = _fires_only_when_result_false(g, cb)
        res.inst("fires-then-removed@%s" % g.norm.split("::")[-1], ok=ok)
        res.oblige(ok)
        if not ok:
            res.viol("fires-then-removed", g.loc, "the on-idle entry is kept after its action fired: it would fire again on every idle tick")
    if not found:
        res.viol("anchors", f.loc, "tick_idle_timeout no longer calls handle_fakekey_action")
    return res


def _fires_only_when_result_false(g, cb):
    """`let keep = idle < wanted; if !keep { fire(); } keep`: the closure returns a named bool, and the call is only reachable
    over the edge of a test of that very bool on which it is false"""
    rets = [st["rv"]["a"]["l"] for bi, si, st in g.all_rvalues() if st["p"]["l"] == 0 and not proj(st["p"]) and st["rv"]["k"] == "use"
            and is_place(st["rv"]["a"]) and not proj(st["rv"]["a"])]
    if len(set(rets)) != 1:
        return False
    keep = rets[0]
    for sb in sorted(g.reachable()):
        t = g.term(sb)
        if t["k"] != "switch" or t.get("dty") != "bool" or not is_place(t["d"]) or proj(t["d"]) or not g.dominates(sb, cb):
            continue
        l, neg = t["d"]["l"], False
        for _ in range(4):
            if l == keep:
                break
            d = g.single_def(l)
            if d and d[2] == "assign" and d[3]["k"] == "use" and is_place(d[3]["a"]) and not proj(d[3]["a"]):
                l = d[3]["a"]["l"]
            elif d and d[2] == "assign" and d[3]["k"] == "un" and d[3]["op"] == "Not" and is_place(d[3]["a"]) and not proj(d[3]["a"]):
                l, neg = d[3]["a"]["l"], not neg
            else:
                break
        if l != keep:
            continue
        zero = [tb for v, tb in t["ts"] if v == 0]
        false_edge = (t["o"] if neg else (zero[0] if zero else None))      # successor taken when `keep` is false
        true_edge = ((zero[0] if zero else None) if neg else t["o"])
        if false_edge is None or true_edge is None:
            continue
        if cb in g.reach_from(false_edge, avoid=[sb]) and cb not in g.reach_from(true_edge, avoid=[sb]):
            return True
    return False


def rule_rearm(prog):
    res = RuleResult("R-VK-REARM", "hold-for-duration measures from the most recent activation", floor=1)
    f = prog.fn(KAN + "Kanata::handle_keystate_changes")
    res.fn(f)
    n = 0
    for bi, t in f.calls():
        if (callee_name(t) or "").endswith("Entry::and_modify") and len(t["args"]) > 1:
            fl, _, _ = backward_slice(f, t["args"][0])
            if ("kanata_state_machine::kanata::Kanata", "vkeys_pending_release") not in fl:
                continue
            c = closure_arg(prog, f, t["args"][1])
            if c is None:
                continue
            n += 1
            ok = True
            stores = 0
            for b2, si, st in c.all_rvalues():
                p = st["p"]
                if p["l"] == 2 and proj(p) and proj(p)[0] == "*":
                    stores += 1
                    # the stored value must not depend on the old remaining time (*_2)
                    for o in ([st["rv"].get("a")] + [st["rv"].get("b")] + st["rv"].get("ops", [])):
                        if o is None:
                            continue
                        seen, work = set(), [o]
                        while work:
                            x = work.pop()
                            if not is_place(x):
                                continue
                            if x["l"] == 2:
                                ok = False
                            if x["l"] in seen:
                                continue
                            seen.add(x["l"])
                            for (bb, idx, kind, payload) in c.defs().get(x["l"], []):
                                if kind == "assign":
                                    from kq.core import rvalue_operands
                                    work.extend(rvalue_operands(payload))
                                elif kind == "call":
                                    work.extend(payload["args"])
            for b2, t2 in c.calls():
                d = t2["dest"]
                if d["l"] == 2 and proj(d) and proj(d)[0] == "*":
                    stores += 1
                    for a in t2["args"]:
                        seen, work = set(), [a]
                        while work:
                            x = work.pop()
                            if not is_place(x):
                                continue
                            if x["l"] == 2:
                                ok = False
                            if x["l"] in seen:
                                continue
                            seen.add(x["l"])
                            for (bb, idx, kind, payload) in c.defs().get(x["l"], []):
                                if kind == "assign":
                                    from kq.core import rvalue_operands
                                    work.extend(rvalue_operands(payload))
                                elif kind == "call":
                                    work.extend(payload["args"])
            ok = ok and stores > 0
            res.inst("rearm#%d" % n, where="%s:%s" % (f.file, t.get("ln")), overwrites=ok)
            res.oblige(ok)
            if not ok:
                res.viol("rearm#%d" % n, "%s:%s" % (f.file, t.get("ln")),
                         "re-activating a hold-for-duration virtual key computes the new remaining time from the old one instead of "
                         "overwriting it: the key is no longer held 'until the stated time has passed since its most recent activation'")
    if n == 0:
        n = _rearm_entry_match(prog, f, res)
    return res


def _rearm_entry_match(prog, f, res):
    """the same re-arm written with the Entry enum: `match map.entry(c) { Occupied(mut e) => *e.get_mut() = d (or e.insert(d)), .. }`.
    The value stored for an occupied entry must not be computed from what the entry holds (get / get_mut / the old value
    returned by insert)."""
    from kq.core import rvalue_operands
    n = 0

    def depends_on_entry(op, entry_refs):
        seen, work = set(), [op]
        while work:
            x = work.pop()
            if not is_place(x):
                continue
            if x["l"] in entry_refs:
                return True
            if x["l"] in seen:
                continue
            seen.add(x["l"])
            for (bb, idx, kind, payload) in f.defs().get(x["l"], []):
                if kind == "assign":
                    work.extend(rvalue_operands(payload))
                elif kind == "call":
                    if "OccupiedEntry" in (callee_name(payload) or "") and (callee_name(payload) or "").split("::")[-1] in ("get", "get_mut", "insert", "remove", "into_mut"):
                        return True
                    work.extend(payload["args"])
        return False
    for bi, t in f.calls():
        cn = callee_name(t) or ""
        short = cn.split("::")[-1]
        if "OccupiedEntry" not in cn or short not in ("get_mut", "insert", "into_mut"):
            continue
        fl, _, _ = backward_slice(f, t["args"][0])
        if ("kanata_state_machine::kanata::Kanata", "vkeys_pending_release") not in fl:
            continue
        n += 1
        ok, stores = True, 0
        if short == "insert":
            stores = 1
            ok = not depends_on_entry(t["args"][1], set())
        else:
            r = t["dest"]["l"]
            for b2, si, st in f.all_rvalues():
                p_ = st["p"]
                if p_["l"] == r and proj(p_) and proj(p_)[0] == "*":
                    stores += 1
                    for o in rvalue_operands(st["rv"]):
                        if depends_on_entry(o, {r}):
                            ok = False
        ok = ok and stores > 0
        res.inst("rearm#%d" % n, where="%s:%s" % (f.file, t.get("ln")), overwrites=ok, form="Entry::Occupied")
        res.oblige(ok)
        if not ok:
            res.viol("rearm#%d" % n, "%s:%s" % (f.file, t.get("ln")),
                     "re-activating a hold-for-duration virtual key computes the new remaining time from the old one instead of "
                     "overwriting it: the key is no longer held 'until the stated time has passed since its most recent activation'")
    return n


def rule_set_identity(prog):
    """R-VK-SET-EQ: pending virtual-key operations are kept in hash sets / maps; two different operations must not
    collapse into one entry, so the element types compare and hash *all* their fields (derived impls)."""
    import re
    res = RuleResult("R-VK-SET-EQ", "pending virtual-key operations are distinguished by all their fields", floor=1)
    K = "kanata_state_machine::kanata::Kanata"
    adt = prog.adt(K)
    n = 0
    for v in adt["variants"]:
        for fld in v["fields"]:
            ty = fld["ty"]
            if not ("HashSet<" in ty or "HashMap<" in ty):
                continue
            for a in fld.get("adts", []):
                if not a.startswith("kanata") or a == K:
                    continue
                eqs = [f for f in prog.fns.values() if f.norm == "<%s as core::cmp::PartialEq>::eq" % a]
                hs = [f for f in prog.fns.values() if f.norm == "<%s as core::hash::Hash>::hash" % a]
                if not eqs and not hs:
                    continue
                n += 1
                ok = all(f.derive for f in eqs + hs) and bool(eqs) and bool(hs)
                res.inst("%s/%s" % (fld["name"], a.split("::")[-1]), derived=ok)
                res.oblige(ok)
                if not ok:
                    res.viol("%s/%s" % (fld["name"], a.split("::")[-1]), "src/kanata/mod.rs",
                             "Kanata.%s stores %s in a hash collection but its PartialEq/Hash are hand-written: entries that differ "
                             "in a field the impl ignores are treated as the same pending operation and the second one is dropped"
                             % (fld["name"], a.split("::")[-1]))
    if n == 0:
        res.viol("anchors", "src/kanata/mod.rs", "no hash collection of a kanata type found in the Kanata struct")
    return res


def rule_idle_reset(prog):
    """R-VK-IDLE-RESET: on-idle measures the time since the last input event of any kind: handle_input_event sets
    ticks_since_idle to 0 on every path, for every event value. The only bypass allowed is the one taken when the
    event is the WakeUp pseudo-event (sent after TCP client messages; it is not input): an edge out of a comparison of
    event.value with the constant KeyValue::WakeUp, on the "is WakeUp" outcome."""
    from kq.core import is_const, const_val, proj_fields, callee_name, is_place
    from kq.analysis import _promoted_variant
    res = RuleResult("R-VK-IDLE-RESET", "every input event (other than the wake-up pseudo-event) restarts the idle time", floor=1)
    f = prog.fn("kanata_state_machine::kanata::Kanata::handle_input_event")
    res.fn(f)
    K = "kanata_state_machine::kanata::Kanata"
    KV = "kanata_state_machine::oskbd::KeyValue"
    stores = []
    for bi, si, st in f.all_rvalues():
        pf = proj_fields(st["p"])
        if pf and pf[-1][0] == K and pf[-1][2] == "ticks_since_idle" and st["rv"]["k"] == "use" and is_const(st["rv"]["a"]) and const_val(st["rv"]["a"]) == 0:
            stores.append(bi)
    # edges taken only when event.value == WakeUp
    allowed = set()
    for bi, t in f.calls():
        cn = (callee_name(t) or "").split("::")[-1]
        if cn not in ("ne", "eq") or len(t["args"]) != 2:
            continue
        var = None
        for a in t["args"]:
            cur, hops = a, 0
            while isinstance(cur, dict) and hops < 6:
                v = _promoted_variant(f, cur, KV)
                if v is not None:
                    var = var or v
                    break
                if not is_place(cur):
                    break
                d = f.single_def(cur["l"])
                if d and d[2] == "assign" and d[3]["k"] == "ref":
                    cur = {"l": d[3]["p"]["l"]}
                elif d and d[2] == "assign" and d[3]["k"] == "use":
                    cur = d[3]["a"]
                else:
                    break
                hops += 1
        if var != "WakeUp":
            continue
        sb = t.get("t")
        if sb is None:
            continue
        tt = f.term(sb)
        if tt["k"] != "switch" or not is_place(tt["d"]) or tt["d"]["l"] != t["dest"]["l"]:
            continue
        # ne() == false  <=>  equal to WakeUp ; eq() == true <=> equal
        if cn == "ne":
            tgt = [tb for v, tb in tt["ts"] if v == 0]
        else:
            tgt = [tt["o"]] if any(v == 0 for v, _ in tt["ts"]) else [tb for v, tb in tt["ts"] if v == 1]
        for tb in tgt:
            allowed.add((sb, tb))
    seen, work = set(), [0]
    while work:
        b = work.pop()
        if b in seen or b in stores:
            continue
        seen.add(b)
        for s_ in f.succs(b):
            if (b, s_) in allowed:
                continue
            work.append(s_)
    rets = [b for b in f.reachable() if f.term(b)["k"] == "return"]
    ok = bool(stores) and (0 in stores or not any(r in seen for r in rets))
    res.inst("reset-on-every-path", stores=len(stores), wakeup_bypass_edges=len(allowed), ok=ok)
    res.oblige(ok)
    if not ok:
        res.viol("reset-on-every-path", f.loc,
                 "handle_input_event can return without resetting ticks_since_idle for an event that is not the WakeUp pseudo-event: some "
                 "input events (e.g. releases, OS repeats) do not count as activity, so an on-idle action fires before the stated idle "
                 "time has passed since the last event")
    return res


def run_all(prog):
    return [rule_single(prog), rule_once(prog), rule_rearm(prog), rule_set_identity(prog), rule_idle_reset(prog)]


def rule_toggle_queued(prog):
    """R-VK-TOGGLE-QUEUED (C18): toggle decides on the state the key *will* have, not only on the state it has.

    press / release / toggle of a virtual key only queue an event; `Layout.states` shows the effect one or more ticks
    later. A toggle that looks at `states` alone repeats the previous decision for every operation requested before the
    queue has drained: two toggles in the same millisecond both press (and the parity is lost for good). Rule: in
    handle_fakekey_action the choice between Press and Release in the Toggle arm depends (control dependence of the two
    `Layout::event` calls) on a look at the pending events (`Layout::last_queued_event`) as well as on the states."""
    from kq.analysis import dependence_slice
    res = RuleResult("R-VK-TOGGLE-QUEUED", "toggle-vkey takes queued operations on the key into account", floor=1)
    fs = [f for f in prog.fns.values() if f.norm.endswith("kanata::handle_fakekey_action") and f.crate == "kanata_state_machine"]
    if not fs:
        res.viol("anchor", "src/kanata/mod.rs", "handle_fakekey_action not found")
        return res
    f = fs[0]
    res.fn(f)
    sws = discr_switches(prog, f, "kanata_parser::custom_action::FakeKeyAction")
    if not sws or sws[0].target("Toggle") is None:
        res.viol("anchor/toggle", f.loc, "the Toggle arm of handle_fakekey_action was not found")
        return res
    region = sws[0].arm_region("Toggle")
    evs = [b for b in region if f.term(b)["k"] == "call" and (callee_name(f.term(b)) or "").endswith("Layout::<'a, C, R, T>::event")
           or (b in region and f.term(b)["k"] == "call" and (callee_name(f.term(b)) or "").split("::")[-1] == "event")]
    def is_press_event(b):
        t = f.term(b)
        if t["k"] == "call" and (callee_name(t) or "").split("::")[-1] == "event" and len(t["args"]) > 1:
            d = f.single_def(t["args"][1]["l"]) if is_place(t["args"][1]) and not proj(t["args"][1]) else None
            return bool(d and d[2] == "assign" and d[3]["k"] == "agg" and d[3].get("v") == "Press")
        return False

    def looks(b):
        flds, cal = dependence_slice(f, b)[:2]
        st_ = any(c.endswith("states_has_coord") for c in cal) or any(fl == "states" and (a or "").endswith("layout::Layout") for a, fl in flds)
        return st_, any(c.split("::")[-1] == "last_queued_event" for c in cal)
    all_arm_events = [b for v in ("Toggle", "Press", "Tap") if sws[0].target(v) is not None for b in sws[0].arm_region(v)
                      if f.term(b)["k"] == "call" and (callee_name(f.term(b)) or "").split("::")[-1] == "event"]
    if not all_arm_events:
        # the arms only compute what to send (`let (send_press, send_release) = match action { .. }`) and the events are queued
        # after the match: every Press event of the function then has to depend on the look at the key's future state
        presses = [b for b in sorted(f.reachable()) if is_press_event(b)]
        oks = [looks(b) for b in presses]
        ok = bool(presses) and all(a and q for a, q in oks)
        res.inst("press-events-depend-on-key-state", where=f.loc, press_events=len(presses), ok=ok)
        res.oblige(ok)
        if not ok:
            res.viol("press-events-depend-on-key-state", f.loc,
                     "handle_fakekey_action queues a press of the virtual key without the decision depending on both the layout states and "
                     "the events still queued for the key (Layout::last_queued_event): two toggles requested before the next tick both "
                     "press, press on a pressed key presses again")
        return res
    callees, fields_ = set(), set()
    for b in evs:
        sl = dependence_slice(f, b)
        fields_ |= sl[0]
        callees |= sl[1]
    looks_states = any(c.endswith("states_has_coord") for c in callees) or any(fl == "states" and (a or "").endswith("layout::Layout") for a, fl in fields_)
    looks_queue = any(c.split("::")[-1] == "last_queued_event" for c in callees)
    ok = len(evs) >= 2 and looks_states and looks_queue
    res.inst("toggle-decision", where=f.loc, event_calls=len(evs), looks_at_states=looks_states, looks_at_queued_events=looks_queue, ok=ok)
    res.oblige(ok)
    # press on a pressed key does nothing, tap on a pressed key only releases: the Press events of those arms depend on the
    # same look at the key's (future) state
    for arm in ("Press", "Tap"):
        if sws[0].target(arm) is None:
            continue
        reg = sws[0].arm_region(arm)
        presses = []
        for b in sorted(reg):
            t = f.term(b)
            if t["k"] == "call" and (callee_name(t) or "").split("::")[-1] == "event" and len(t["args"]) > 1:
                d = f.single_def(t["args"][1]["l"]) if is_place(t["args"][1]) and not proj(t["args"][1]) else None
                if d and d[2] == "assign" and d[3]["k"] == "agg" and d[3].get("v") == "Press":
                    presses.append(b)
        oka = bool(presses) and all(all(looks(b)) for b in presses)
        res.inst("%s-decision" % arm.lower(), where=f.loc, press_events=len(presses), ok=oka)
        res.oblige(oka)
        if not oka:
            res.viol("%s-decision" % arm.lower(), f.loc,
                     "the %s arm of handle_fakekey_action queues the press without looking at whether the key is (or is about to be) "
                     "pressed: the documentation says press does nothing and tap only releases when the key is already pressed - pressing a "
                     "toggle-style virtual key twice undoes the first press, and press press tap on a mouse button clicks three times" % arm)
    if not ok:
        res.viol("toggle-decision", f.loc,
                 "the Toggle arm of handle_fakekey_action chooses between press and release %s: an operation on the key that is still "
                 "queued is not seen, so two toggles requested before the next tick (two keys in the same millisecond, two TCP messages, "
                 "`(multi (on-press toggle-vkey k) (on-release toggle-vkey k))` tapped quickly) both press and the key stays down"
                 % ("without looking at the pending events (Layout::last_queued_event)" if looks_states else "without looking at the key's state"))
    return res
