"""R-STATES-ORDER (C08): the active-state list of the layout keeps the order in which the states were created.

`Layout.states` is an ordered list: a macro queues its custom items (unicode, mouse buttons, cmd, virtual keys ...)
as SeqCustomPending states and `process_sequence_custom` runs the *first* pending one on each free tick, so the
order of the list is the order in which the items of the macro come out; `keycodes()` reports the keys in list
order as well. Removing an element by moving another one into its place (`swap_remove`), sorting, reversing,
rotating or inserting in front silently reorders what a macro spells out - with up to two queued items nothing
changes, with three the third comes out before the second.

Rule: every call that gets mutable access to the list (receiver `&mut Vec<State>` / `&mut [State]` rooted at a
`.states` field of the Layout, in the keyberon and kanata crates) is one of the order-preserving operations
below. Anything else is reported."""
from kq.core import callee_name, is_place
from kq.gf2 import root_desc
from kq.report import RuleResult

PRESERVING = {
    "push", "retain", "retain_mut", "iter_mut", "deref_mut", "as_mut", "as_mut_slice", "clear", "truncate", "pop", "remove",
    "extend", "extend_from_slice", "drain", "get_mut", "last_mut", "first_mut", "index_mut", "borrow_mut", "into_iter", "next",
    "for_each", "try_for_each", "get_unchecked_mut",
}


def run(prog):
    res = RuleResult("R-STATES-ORDER", "Layout.states is only changed by operations that keep the order of the remaining states", floor=20)
    for f in prog.fns.values():
        if not f.crate.startswith("kanata") or f.derive:
            continue
        cnt = {}
        for bi, t in f.calls():
            if not t["args"] or not is_place(t["args"][0]):
                continue
            a = t["args"][0]
            ty = f.local_ty(a["l"]) or ""
            if not ty.startswith("&mut") or "layout::State<" not in ty:
                continue
            if not (ty.startswith("&mut heapless::vec::Vec<kanata_keyberon::layout::State<") or ty.startswith("&mut [kanata_keyberon::layout::State<")):
                continue
            d = root_desc(f, a) or ""
            if not (d.endswith(".states") or ".states." in d or ".states[" in d):
                continue
            short = (callee_name(t) or "?").split("::")[-1]
            i = cnt.get(short, 0)
            cnt[short] = i + 1
            ok = short in PRESERVING
            key = "%s/%s%s" % (f.norm.split("::{closure")[0].split("::")[-1], short, "#%d" % i if i else "")
            res.fn(f)
            res.inst(key, where="%s:%s" % (f.file, t.get("ln")), ok=ok)
            res.oblige(ok)
            if not ok:
                res.viol(key, "%s:%s" % (f.file, t.get("ln")),
                         "%s changes Layout.states with `%s`, which is not one of the order-preserving operations (push, retain, remove, "
                         "clear, element-wise updates). The order of the list is the order in which a macro's custom items (unicode, "
                         "mouse buttons, cmd ...) are performed and in which keycodes() reports keys: with three or more queued items "
                         "they come out in a different order than the macro spells out" % (f.norm.split("::")[-1], short))
    return res
