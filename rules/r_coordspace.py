"""R-COORDSPACE (C02, C03, C11): every coordinate that indexes a layer row fits the row.
 (a) constants: named keys and deflocalkeys codes < KEYS_IN_ROW; chords-v2 virtual coordinates lie above
     KEYS_IN_ROW, below 0x400 (2-word input opcode) and are never resolved through a row;
 (b) the actions that are resolved through the key's own coordinate (transparent, use-defsrc) cannot be
     parsed inside defchordsv2."""
from kq.analysis import backward_slice, blocks_calling, discr_switches
from kq.core import callee_name, const_def, const_val, is_const, proj_fields
from kq.core import Resolver
from kq.report import RuleResult

_ENG = {}


def _engine(prog):
    from rules.r_panic import Engine
    if id(prog) not in _ENG:
        _ENG.clear()
        _ENG[id(prog)] = Engine(prog, set())
    return _ENG[id(prog)]

OSC = "kanata_parser::keys::OsCode"
ACTION = "kanata_keyberon::action::Action"


def run(prog):
    res = RuleResult("R-COORDSPACE", "coordinates used to index layer rows fit the rows", floor=6)
    rowlen = prog.const("kanata_parser::layers::KEYS_IN_ROW")
    key_max = prog.const("kanata_keyberon::key_code::KEY_MAX")
    where = "parser/src/layers.rs"

    def chk(key, ok, msg, loc=where):
        res.inst(key, ok=ok)
        res.oblige(ok)
        if not ok:
            res.viol(key, loc, msg)
    # named keys
    variants = {v["name"]: v["discr"] for v in prog.adt(OSC)["variants"]}
    named = set()
    for nm in ("kanata_parser::keys::str_to_oscode", "kanata_parser::keys::add_default_str_osc_mappings"):
        g0 = prog.fn(nm)
        for g in [g0] + list(prog.closures_of(g0)):
            res.fn(g)
            for bi, si, st in g.all_rvalues():
                if st["rv"]["k"] == "agg" and st["rv"].get("adt") == OSC:
                    named.add(st["rv"]["v"])
    mx = max(variants[v] for v in named) if named else -1
    chk("named-keys-fit-row", 0 <= mx < rowlen, "a key name maps to OsCode %d which does not fit a %d-wide layer row" % (mx, rowlen))
    # deflocalkeys gateway: from_u16 result filtered by `< KEYS_IN_ROW`
    f = prog.fn("kanata_parser::cfg::parse_deflocalkeys")
    res.fn(f)
    ok = False
    for g in [f] + prog.closures_of(f):
        for bi, si, st in g.all_rvalues():
            rv = st["rv"]
            if rv["k"] == "bin" and rv["op"] in ("Lt", "Le", "Gt", "Ge"):
                for o in (rv["a"], rv["b"]):
                    if is_const(o) and ((const_def(o) or "").endswith("KEYS_IN_ROW") or const_val(o) == rowlen):
                        if (rv["op"] == "Lt" and o is rv["b"]) or (rv["op"] == "Gt" and o is rv["a"]):
                            ok = True
    chk("deflocalkeys-bounded", ok, "parse_deflocalkeys accepts any code OsCode::from_u16 knows, including codes >= KEYS_IN_ROW (index out of bounds in parse_layers)", f.loc)
    chk("row-vs-keymax", rowlen <= key_max, "KEYS_IN_ROW %d exceeds keyberon's KEY_MAX %d" % (rowlen, key_max))
    # chords v2 virtual coordinates
    nc = prog.fn("kanata_keyberon::chord::ChordsV2::next_coord")
    res.fn(nc)
    adds = set()
    for bi, si, st in nc.all_rvalues():
        rv = st["rv"]
        if rv["k"] == "bin" and rv["op"].startswith("Add"):
            for o in (rv["a"], rv["b"]):
                if is_const(o) and (const_def(o) or "").endswith("KEY_MAX"):
                    other = rv["b"] if o is rv["a"] else rv["a"]
                    if is_const(other):
                        adds.add(const_val(other))
    lo, hi = (key_max + min(adds), key_max + max(adds)) if adds else (None, None)
    res.notes.append("virtual coordinates %s..=%s" % (lo, hi))
    chk("virtual-coords-above-rows", adds and lo >= rowlen, "chords-v2 virtual coordinates %s..%s overlap real key columns" % (lo, hi), nc.loc)
    chk("virtual-coords-fit-input-opcode", adds and hi < 0x400, "chords-v2 virtual coordinates exceed the 10-bit input opcode field", nc.loc)
    # virtual keys (row 1): count bounded by the row width
    for nm in ("kanata_parser::cfg::parse_fake_keys", "kanata_parser::cfg::parse_virtual_keys"):
        g = prog.fn(nm)
        res.fn(g)
        ok = False
        for bi, si, st in g.all_rvalues():
            rv = st["rv"]
            if rv["k"] == "bin" and rv["op"] in ("Gt", "Ge", "Lt", "Le"):
                for o in (rv["a"], rv["b"]):
                    if is_const(o) and ((const_def(o) or "").endswith("KEYS_IN_ROW") or const_val(o) == rowlen):
                        ok = True
        chk("vkeys-bounded/" + nm.split("::")[-1], ok, "%s no longer bounds the number of virtual keys by KEYS_IN_ROW" % nm.split("::")[-1], g.loc)
        # the index stored with each key is < KEYS_IN_ROW at the moment it is stored: later definitions may already
        # use it (an `input virtual` switch condition needs it < 0x400, parse_layers indexes the row with it)
        eng = _engine(prog)
        gf = eng.gf(g)
        n = 0
        for bi, t in g.calls():
            if not (callee_name(t) or "").endswith("HashMap::insert"):
                continue
            r = Resolver(g).root(t["args"][0])
            if not any(fl[2] == "virtual_keys" for fl in r[2]):
                continue
            rv = Resolver(g).root(t["args"][2])
            val = None
            if rv[0] == "agg" and rv[1][2].get("tup"):
                abi, asi, agg = rv[1]
                st = gf.block_in.get(abi)
                if st is not None:
                    st = st.copy()
                    for stm in g.stmts(abi)[:asi]:
                        if stm["k"] == "assign":
                            gf._assign(st, stm)
                    val = gf.value(st, agg["ops"][0])
            okv = val is not None and not val.is_empty() and val.hi() < rowlen and rowlen <= 0x400
            n += 1
            res.inst("vkey-index-bounded/%s#%d" % (nm.split("::")[-1], n), ok=okv, value=str(val))
            res.oblige(okv)
            if not okv:
                res.viol("vkey-index-bounded/" + nm.split("::")[-1], "%s:%s" % (g.file, t.get("ln")),
                         "the index stored for a new virtual key is not known to be < KEYS_IN_ROW (%d) when it is stored (value set %s): "
                         "actions parsed afterwards can already refer to it" % (rowlen, val))
        if n == 0:
            res.viol("vkey-index-bounded/%s/anchor" % nm.split("::")[-1], g.loc, "no insertion into virtual_keys found")
    # layer count: every layer index handed out by parse_layer_indexes is < MAX_LAYERS (asserted by the switch
    # opcode constructors, the switch parser and Layout::new) and fits the u16 the opcodes store it in
    max_layers = prog.const("kanata_keyberon::layout::MAX_LAYERS")
    pc = prog.fn("kanata_parser::cfg::parse_cfg_raw_string")
    res.fn(pc)
    gfp = _engine(prog).gf(pc)
    n = 0
    for bi, t in pc.calls():
        if not (callee_name(t) or "").endswith("cfg::parse_layer_indexes"):
            continue
        n += 1
        stp = gfp.before_term(bi)
        lk = gfp.len_key(t["args"][0])
        lv = stp.get(lk) if (stp is not None and lk is not None) else None
        okv = lv is not None and not lv.is_empty() and lv.lo() >= 1 and lv.hi() < max_layers <= 0xFFFF
        res.inst("layer-count-bounded#%d" % n, ok=okv, value=str(lv), max_layers=max_layers)
        res.oblige(okv)
        if not okv:
            res.viol("layer-count-bounded", "%s:%s" % (pc.file, t.get("ln")),
                     "layer indexes are assigned to %s layers: not known to be in 1..MAX_LAYERS-1 (%d); users of a layer index "
                     "(switch layer conditions, Layout::new) assert idx < MAX_LAYERS" % (lv, max_layers - 1))
    if n == 0:
        res.viol("layer-count-bounded/anchor", pc.loc, "call to parse_layer_indexes not found")
    # (b) coordinate-resolved actions are forbidden while parsing defchordsv2
    pa = prog.fn("kanata_parser::cfg::parse_action_atom")
    res.fn(pa)
    gate_blocks = []
    for sw in discr_switches(prog, pa, "core::option::Option"):
        flds, _, _ = backward_slice(pa, sw.place) if True else (set(), None, None)
        pf = proj_fields(sw.place)
        if ("kanata_parser::cfg::ParserContext", "trans_forbidden_reason") in flds or (pf and pf[-1][2] == "trans_forbidden_reason") or any(
                x[1] == "trans_forbidden_reason" for x in flds):
            gate_blocks.append(sw)
    for v in ("Trans", "Src"):
        aggs = [bi for bi, si, st in pa.all_rvalues() if st["rv"]["k"] == "agg" and st["rv"].get("adt") == ACTION and st["rv"].get("v") == v]
        ok = bool(aggs)
        for ab in aggs:
            gated = False
            for sw in gate_blocks:
                if pa.dominates(sw.bb, ab) and "Some" in sw.arms and ab not in sw.arm_reach("Some") | set():
                    gated = True
                # is_some() form
            if not gated:
                for bi, t in pa.calls():
                    if callee_name(t) == "core::option::Option::is_some" and pa.dominates(bi, ab):
                        fl, _, _ = backward_slice(pa, t["args"][0])
                        if any(x[1] == "trans_forbidden_reason" for x in fl):
                            nb = t["t"]
                            tt = pa.term(nb)
                            if tt["k"] == "switch":
                                true_t = [tb for val, tb in tt["ts"] if val == 1] or ([tt["o"]] if any(val == 0 for val, _ in tt["ts"]) else [])
                                if true_t and ab not in pa.reach_from(true_t[0], avoid=[nb]):
                                    gated = True
            ok = ok and gated
        chk("chordsv2-forbids/" + v, ok,
            "Action::%s (resolved through the key's own coordinate) can be produced while parsing defchordsv2: its virtual coordinate "
            "(>= %d) would index a %d-wide row at run time" % (v, rowlen, rowlen), pa.loc)
    return res
