"""C08 rules.
R-MACRO-BAL  the macro compiler (parse_macro_item_impl) emits a Release for every Press it emits, from
             the same source, on every path to an Ok return.
R-SEQ-CUSTOM process_sequence_custom advances a macro's custom item only when its event can be reported.
"""
from kq.analysis import backward_slice, blocks_calling, reach_under_variant
from kq.core import callee_name, is_place, proj, proj_fields, rvalue_operands
from kq.report import RuleResult

SE = "kanata_keyberon::action::SequenceEvent"


def _named_sources(f, operand):
    """non-parameter locals on the backward slice of operand (identity of the source collection / variable)"""
    out = set()
    seen = set()
    work = [operand]
    while work:
        o = work.pop()
        if not is_place(o):
            continue
        l = o["l"]
        if l in seen:
            continue
        seen.add(l)
        if l > f.nargs:
            out.add(l)
        for (bb, idx, kind, payload) in f.defs().get(l, []):
            if kind == "assign":
                work.extend(rvalue_operands(payload))
            elif kind == "call":
                work.extend(payload["args"])
    return out


def rule_bal(prog):
    res = RuleResult("R-MACRO-BAL", "compiled macros release every key they press", floor=3)
    f = prog.fn("kanata_parser::cfg::parse_macro_item_impl")
    res.fn(f)
    presses, releases = [], []
    for bi, si, st in f.all_rvalues():
        rv = st["rv"]
        if rv["k"] == "agg" and rv.get("adt") == SE and rv.get("v") in ("Press", "Release"):
            src = _named_sources(f, rv["ops"][0]) if rv["ops"] else set()
            (presses if rv["v"] == "Press" else releases).append((bi, si, src, st.get("ln")))
    allsets = [x[2] for x in presses + releases]
    common = set.intersection(*allsets) if allsets else set()
    presses = [(a, b, c - common, d) for (a, b, c, d) in presses]
    releases = [(a, b, c - common, d) for (a, b, c, d) in releases]
    ok_returns = [bi for bi, si, st in f.all_rvalues()
                  if st["p"]["l"] == 0 and not proj(st["p"]) and st["rv"]["k"] == "agg" and st["rv"].get("adt") == "core::result::Result" and st["rv"].get("v") == "Ok"]
    res.inst("anchors", presses=len(presses), releases=len(releases), ok_returns=len(ok_returns))
    if not presses or not ok_returns:
        res.viol("anchors", f.loc, "parse_macro_item_impl lost its Press aggregates or Ok returns")
        return res
    nexts = [b for b, t in f.calls() if (callee_name(t) or "").endswith("::next")]
    for n, (pb, psi, psrc, pln) in enumerate(presses):
        pass_blocks = []
        for (rb, rsi, rsrc, rln) in releases:
            if not (psrc & rsrc):
                continue
            if rb == pb and rsi > psi:
                pass_blocks.append(("same-block", rb))
                continue
            # loop head of the release loop, if the release sits in a loop
            heads = [h for h in nexts if f.dominates(h, rb) and h in f.reach_from(rb)]
            if heads:
                # innermost = the one dominated by all the others
                h = [x for x in heads if all(f.dominates(y, x) for y in heads)]
                pass_blocks.append(("loop", h[0] if h else heads[-1]))
            else:
                pass_blocks.append(("block", rb))
        ok = False
        if any(k == "same-block" for k, _ in pass_blocks):
            ok = True
        elif pass_blocks:
            avoid = [b for _, b in pass_blocks]
            start_succ = f.succs(pb)
            reach = set()
            for s_ in start_succ:
                reach |= f.reach_from(s_, avoid=avoid)
            ok = not any(r in reach for r in ok_returns)
        res.inst("press#%d" % n, line=pln, source=sorted(f.local_name(x) for x in psrc if f.local_name(x)), releases=[(k, b) for k, b in pass_blocks], ok=ok)
        res.oblige(ok)
        if not ok:
            names = sorted({f.local_name(x) for x in psrc if f.local_name(x)})
            res.viol("press/%s" % ("+".join(names) or str(n)), "%s:%s" % (f.file, pln),
                     "a macro item presses keys taken from %s but an Ok return is reachable without the matching Release event(s) "
                     "having been emitted: the compiled macro would leave the key down" % names)
    return res


def rule_seq_custom(prog):
    res = RuleResult("R-SEQ-CUSTOM", "a macro's custom item changes state only when its custom event is actually reported", floor=2)
    f = prog.fn("kanata_keyberon::layout::Layout::process_sequence_custom")
    res.fn(f)
    CE = "kanata_keyberon::layout::CustomEvent"
    ST = "kanata_keyberon::layout::State"
    stores = []
    for bi, si, st in f.all_rvalues():
        rv = st["rv"]
        if rv["k"] == "agg" and rv.get("adt") == ST and rv.get("v") in ("SeqCustomActive", "Tombstone"):
            stores.append((bi, rv["v"], st.get("ln")))
    res.inst("state-transitions", n=len(stores))
    if len(stores) < 2:
        res.viol("anchors", f.loc, "process_sequence_custom lost its Pending->Active->Tombstone transitions")
        return res
    for v in ("Press", "Release"):
        r = reach_under_variant(prog, f, CE, v)
        bad = [(b, sv, ln) for (b, sv, ln) in stores if b in r]
        res.inst("blocked-when/" + v, transitions_reachable=len(bad))
        res.oblige(not bad)
        if bad:
            res.viol("blocked-when/" + v, "%s:%s" % (f.file, bad[0][2]),
                     "with a CustomEvent::%s already pending for this tick, process_sequence_custom still advances a macro's custom "
                     "item (%s): CustomEvent::update keeps the earlier event, so the macro's unicode/custom item is silently lost" % (v, bad[0][1]))
    return res


def run_all(prog):
    return [rule_bal(prog), rule_seq_custom(prog)]
