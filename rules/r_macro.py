"""C08 rules.
R-MACRO-BAL  the macro compiler (parse_macro_item_impl) emits a Release for every Press it emits, from
             the same source, on every path to an Ok return.
R-SEQ-CUSTOM process_sequence_custom advances a macro's custom item only when its event can be reported.
"""
from kq.analysis import backward_slice, blocks_calling, reach_under_variant
from kq.core import callee_name, is_place, proj, proj_fields, rvalue_operands
from kq.report import RuleResult

SE = "kanata_keyberon::action::SequenceEvent"


def _named_sources(f, operand):
    """non-parameter locals on the backward slice of operand (identity of the source collection / variable)"""
    out = set()
    seen = set()
    work = [operand]
    while work:
        o = work.pop()
        if not is_place(o):
            continue
        l = o["l"]
        if l in seen:
            continue
        seen.add(l)
        if l > f.nargs:
            out.add(l)
        for (bb, idx, kind, payload) in f.defs().get(l, []):
            if kind == "assign":
                work.extend(rvalue_operands(payload))
            elif kind == "call":
                work.extend(payload["args"])
    return out


def rule_bal(prog):
    res = RuleResult("R-MACRO-BAL", "compiled macros release every key they press", floor=3)
    f = prog.fn("kanata_parser::cfg::parse_macro_item_impl")
    res.fn(f)
    presses, releases = [], []
    for bi, si, st in f.all_rvalues():
        rv = st["rv"]
        if rv["k"] == "agg" and rv.get("adt") == SE and rv.get("v") in ("Press", "Release"):
            src = _named_sources(f, rv["ops"][0]) if rv["ops"] else set()
            (presses if rv["v"] == "Press" else releases).append((bi, si, src, st.get("ln")))
    allsets = [x[2] for x in presses + releases]
    common = set.intersection(*allsets) if allsets else set()
    presses = [(a, b, c - common, d) for (a, b, c, d) in presses]
    releases = [(a, b, c - common, d) for (a, b, c, d) in releases]
    ok_returns = [bi for bi, si, st in f.all_rvalues()
                  if st["p"]["l"] == 0 and not proj(st["p"]) and st["rv"]["k"] == "agg" and st["rv"].get("adt") == "core::result::Result" and st["rv"].get("v") == "Ok"]
    res.inst("anchors", presses=len(presses), releases=len(releases), ok_returns=len(ok_returns))
    if not presses or not ok_returns:
        res.viol("anchors", f.loc, "parse_macro_item_impl lost its Press aggregates or Ok returns")
        return res
    nexts = [b for b, t in f.calls() if (callee_name(t) or "").endswith("::next")]
    for n, (pb, psi, psrc, pln) in enumerate(presses):
        pass_blocks = []
        for (rb, rsi, rsrc, rln) in releases:
            if not (psrc & rsrc):
                continue
            if rb == pb and rsi > psi:
                pass_blocks.append(("same-block", rb))
                continue
            # loop head of the release loop, if the release sits in a loop
            heads = [h for h in nexts if f.dominates(h, rb) and h in f.reach_from(rb)]
            if heads:
                # innermost = the one dominated by all the others
                h = [x for x in heads if all(f.dominates(y, x) for y in heads)]
                pass_blocks.append(("loop", h[0] if h else heads[-1]))
            else:
                pass_blocks.append(("block", rb))
        ok = False
        if any(k == "same-block" for k, _ in pass_blocks):
            ok = True
        elif pass_blocks:
            avoid = [b for _, b in pass_blocks]
            start_succ = f.succs(pb)
            reach = set()
            for s_ in start_succ:
                reach |= f.reach_from(s_, avoid=avoid)
            ok = not any(r in reach for r in ok_returns)
        res.inst("press#%d" % n, line=pln, source=sorted(f.local_name(x) for x in psrc if f.local_name(x)), releases=[(k, b) for k, b in pass_blocks], ok=ok)
        res.oblige(ok)
        if not ok:
            names = sorted({f.local_name(x) for x in psrc if f.local_name(x)})
            res.viol("press/%s" % ("+".join(names) or str(n)), "%s:%s" % (f.file, pln),
                     "a macro item presses keys taken from %s but an Ok return is reachable without the matching Release event(s) "
                     "having been emitted: the compiled macro would leave the key down" % names)
    return res


def rule_seq_custom(prog):
    res = RuleResult("R-SEQ-CUSTOM", "a macro's custom item changes state only when its custom event is actually reported", floor=2)
    f = prog.fn("kanata_keyberon::layout::Layout::process_sequence_custom")
    res.fn(f)
    CE = "kanata_keyberon::layout::CustomEvent"
    ST = "kanata_keyberon::layout::State"
    stores = []
    for bi, si, st in f.all_rvalues():
        rv = st["rv"]
        if rv["k"] == "agg" and rv.get("adt") == ST and rv.get("v") in ("SeqCustomActive", "Tombstone"):
            stores.append((bi, rv["v"], st.get("ln")))
    res.inst("state-transitions", n=len(stores))
    if len(stores) < 2:
        res.viol("anchors", f.loc, "process_sequence_custom lost its Pending->Active->Tombstone transitions")
        return res
    # one custom event per tick: after a transition the scan over the states ends (no way back to the loop's next())
    nexts = [bi for bi, t in f.calls() if (callee_name(t) or "").endswith("::next")]
    for (b, sv, ln) in stores:
        again = any(nb in f.reach_from(b) for nb in nexts)
        res.inst("one-transition-per-tick/" + sv, scan_continues=again)
        res.oblige(not again)
        if again:
            res.viol("one-transition-per-tick/" + sv, "%s:%s" % (f.file, ln),
                     "after the %s transition the scan over the states goes on: a second custom item is advanced in the same tick, "
                     "but a tick can report only one custom event, so that item's press or release is lost" % sv)
    for v in ("Press", "Release"):
        r = reach_under_variant(prog, f, CE, v)
        bad = [(b, sv, ln) for (b, sv, ln) in stores if b in r]
        res.inst("blocked-when/" + v, transitions_reachable=len(bad))
        res.oblige(not bad)
        if bad:
            res.viol("blocked-when/" + v, "%s:%s" % (f.file, bad[0][2]),
                     "with a CustomEvent::%s already pending for this tick, process_sequence_custom still advances a macro's custom "
                     "item (%s): CustomEvent::update keeps the earlier event, so the macro's unicode/custom item is silently lost" % (v, bad[0][1]))
    return res


def rule_num_mode(prog):
    """R-MACRO-NUM: inside a macro a bare number is a delay. Only the defseq key-list parser may ask the shared item
    parser to read numbers as keys (MacroNumberParseMode::Action); every other caller passes Delay or hands its own
    mode parameter on."""
    from kq.core import Resolver
    res = RuleResult("R-MACRO-NUM", "numbers in macro bodies are parsed as delays", floor=2)
    MODE = "kanata_parser::cfg::MacroNumberParseMode"
    IMPL = "kanata_parser::cfg::parse_macro_item_impl"
    allowed_action = {"kanata_parser::cfg::parse_sequence_keys"}
    n = 0
    for f in prog.fns.values():
        if f.crate != "kanata_parser":
            continue
        for bi, t in f.calls():
            if callee_name(t) != IMPL:
                continue
            n += 1
            r = Resolver(f).root(t["args"][-1])
            how = "?"
            if r[0] == "agg" and r[1][2].get("adt") == MODE:
                how = r[1][2]["v"]
            elif r[0] == "param":
                how = "own parameter"
            ok = how in ("Delay", "own parameter") or (how == "Action" and f.norm in allowed_action)
            res.inst("call/%s#%d" % (f.norm.split("::")[-1], n), mode=how, ok=ok)
            res.oblige(ok)
            if not ok:
                res.viol("call/%s/%s" % (f.norm.split("::")[-1], how), "%s:%s" % (f.file, t.get("ln")),
                         "%s asks parse_macro_item_impl to read numbers as %s: in a macro body `5` must be a 5 ms delay, not a tap of the "
                         "5 key (only defseq key lists read numbers as keys)" % (f.norm.split("::")[-1], how))
    if n == 0:
        res.viol("anchors", "parser/src/cfg/mod.rs", "no call to parse_macro_item_impl found")
    return res


def rule_repeat_restart(prog):
    """R-RPT-RESTART: a held macro-repeat is started again only when no macro is running any more."""
    from rules.r_doaction import receiver_fields
    res = RuleResult("R-RPT-RESTART", "a repeating macro restarts only when the running-macro ring is empty", floor=1)
    f = prog.fn("kanata_keyberon::layout::Layout::process_sequences")
    res.fn(f)
    empties = []
    for bi, t in f.calls():
        if (callee_name(t) or "").endswith("ArrayDeque::is_empty"):
            fl = receiver_fields(f, t)
            if fl and fl[-1] == "active_sequences":
                empties.append((bi, t))
    n = 0
    for bi, t in f.calls():
        if not (callee_name(t) or "").endswith("ArrayDeque::push_back"):
            continue
        fl = receiver_fields(f, t)
        if not (fl and fl[-1] == "active_sequences"):
            continue
        flds, cals, _ = backward_slice(f, t["args"][1])
        from_state = any(x[1] == "sequence" and "State" in x[0] for x in flds)
        if not from_state and any(c.split("::")[-1] in ("find_map", "map", "and_then", "filter_map") for c in cals):
            # `states.iter().rev().find_map(|s| match s { RepeatingSequence { sequence, .. } => Some(sequence), .. })`: the field
            # is read inside the closure
            from kq.core import proj_fields
            for c in prog.closures_of(f):
                for _b, _si, st in c.all_rvalues():
                    for o in [st["rv"].get("a"), st["rv"].get("p")] + list(st["rv"].get("ops", [])):
                        if isinstance(o, dict) and any(x[2] == "sequence" and (x[0] or "").endswith("layout::State") for x in proj_fields(o)):
                            from_state = True
        if not from_state:
            continue   # the "put it back" push of the cursor that is being processed
        n += 1
        ok = False
        for (eb, et) in empties:
            nb = et["t"]
            tt = f.term(nb) if nb is not None else None
            if tt and tt["k"] == "switch" and f.dominates(eb, bi):
                true_t = [tb for v, tb in tt["ts"] if v == 1] or ([tt["o"]] if any(v == 0 for v, _ in tt["ts"]) else [])
                oth = [x for x in f.succs(nb) if x not in true_t]
                if true_t and bi in f.reach_from(true_t[0], avoid=[nb]) and not any(bi in f.reach_from(o, avoid=[nb]) for o in oth):
                    ok = True
        res.inst("restart#%d" % n, where="%s:%s" % (f.file, t.get("ln")), only_when_ring_empty=ok)
        res.oblige(ok)
        if not ok:
            res.viol("restart#%d" % n, "%s:%s" % (f.file, t.get("ln")),
                     "the held repeating macro is pushed into active_sequences without active_sequences.is_empty() having been true: a "
                     "second copy starts while another macro (or an earlier copy) is still running")
    if n == 0:
        res.viol("anchors", f.loc, "no restart of a RepeatingSequence state found in process_sequences")
    return res


def run_all(prog):
    return [rule_bal(prog), rule_seq_custom(prog), rule_num_mode(prog), rule_repeat_restart(prog)]


def rule_evicted_release(prog):
    """R-MACRO-EVICT-ALL (C08): when a fifth macro evicts the oldest one, *every* key the evicted macro still holds is
    released: the scan over its remaining events visits all of them. A scan that stops at the first later Press/Tap
    misses the releases that come after it (`S-(x 200 y)`: the shift release follows the press of y) and the
    modifier stays down for ever."""
    from rules.r_repeat import early_loop_exits
    res = RuleResult("R-MACRO-EVICT-ALL", "the release scan over an evicted macro's remaining events visits every event", floor=1)
    f = prog.fn_opt("kanata_keyberon::layout::Layout::release_keys_of_evicted_sequence")
    if f is None:
        # the function that releases the keys of an evicted macro is gone altogether: nothing performs those releases
        res.inst("scan", where="keyberon/src/layout.rs", ok=False)
        res.oblige(False)
        res.viol("scan/missing", "keyberon/src/layout.rs",
                 "Layout::release_keys_of_evicted_sequence does not exist: when a fifth macro evicts the oldest running one, the keys "
                 "that macro is holding are never released")
        return res
    res.fn(f)
    ex = early_loop_exits(f)
    loops = sum(1 for _, t in f.calls() if "desugar:ForLoop" in (t.get("mac") or []) and (callee_name(t) or "").endswith("::next"))
    ok = loops >= 1 and not ex
    res.inst("scan", where=f.loc, loops=loops, early_exits=len(ex), ok=ok)
    res.oblige(ok)
    if not ok:
        res.viol("scan", "%s:%s" % (f.file, ex[0][1] if ex else f.line_of(0)),
                 "the loop at line %s that releases the keys of an evicted macro can be left before all remaining events were looked at: "
                 "a Release that follows a later Press/Tap is never applied, the key the macro was holding stays pressed"
                 % (ex[0][0] if ex else "?"))
    # ... and every Release among them is applied: no path round the loop from the Release arm avoids the retain
    from kq.analysis import discr_switches
    from rules.r_loopvar import loops_of
    done = False
    for lp in loops_of(f):
        for sw in discr_switches(prog, f):
            if sw.bb not in lp.body or not (sw.adt or "").endswith("SequenceEvent") or "Release" not in sw.arms:
                continue
            rets = [b for b in lp.body if f.term(b)["k"] == "call" and (callee_name(f.term(b)) or "").split("::")[-1] in ("retain", "retain_mut")]
            tgt = sw.arms["Release"]
            ok2 = bool(rets) and (tgt in rets or lp.h not in f.reach_from(tgt, avoid=rets))
            done = True
            res.inst("every-release-applied", where="%s:%s" % (f.file, f.line_of(sw.bb)), ok=ok2)
            res.oblige(ok2)
            if not ok2:
                res.viol("every-release-applied", "%s:%s" % (f.file, f.line_of(sw.bb)),
                         "in release_keys_of_evicted_sequence a remaining Release event can be passed over without releasing its key "
                         "(a path from the Release arm back to the loop head avoids states.retain(seq_release)): the evicted macro never "
                         "runs again, so a key it is holding at that moment stays down for ever")
    if not done:
        res.viol("every-release-applied/anchor", f.loc, "the match on SequenceEvent::Release inside the scan loop was not found")
    return res
