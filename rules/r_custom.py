"""R-CUSTOM-LOSSLESS (C01, C06): no custom event - release or press - is lost on its way out of the layout.

Mouse buttons, scrolling, mouse movement, unmod / unshift keys and on-release virtual-key actions are *custom*
actions: the layout only tells kanata "custom action X was pressed / released" through the single `CustomEvent`
that `Layout::tick` returns. kanata ends the button press / the scrolling only when it sees the `Release`. The
keyberon state of the action is removed in any case, so a `Release` that is dropped inside the layout (a second
release in the same tick swallowed by `CustomEvent::update`, a return value nobody reads) leaves the button down
or the wheel turning for ever, and `is_idle` false for ever.

Clauses (all structural, on the MIR of keyberon's layout.rs):

 a. *release-capable* functions are computed as a least fixpoint: a function that builds `CustomEvent::Release`,
    or that calls a release-capable function (getting a CustomEvent back, or handing it a `&mut CustomEvent`).
    The CustomEvent returned by a release-capable callee is never discarded (the destination local is read).
    The result of a press-only callee (do_action) is not discarded either - an earlier version of this rule allowed
    that ("a lost press is owed no release"), an audit showed it wrong: for actions that act on the press (releasing or
    toggling a virtual key, ending caps-word) the lost press leaves a key down for ever. The reviewed exceptions are
    calls whose action provably is no custom action (DISCARD_OK, each with a machine-checked fact).
 b. `CustomEvent::update` silently keeps the first of two releases. It is called with a value that may be a release
    only from the reviewed callers below, each with the structural fact that makes the call safe.
 c. the states of a coordinate are removed by `State::release` only from `Layout::release_coord` (the dequeued
    Release event, after the one-shot table has been asked), which first turns every further custom state of the
    coordinate into a postponed release.
"""
from kq.core import callee_name, is_place, norm_name, proj
from kq.analysis import discr_switches
from kq.report import RuleResult
from rules.r_errdrop import used_locals

KB = "kanata_keyberon::layout::"
CE = KB + "CustomEvent"

# caller of CustomEvent::update with a possibly-releasing argument -> (why it cannot lose a release, structural check)
UPDATE_OK = {
    KB + "State::release": ("release_coord leaves at most one custom state of the coordinate for the retain that calls this; "
                            "the others were turned into postponed releases", "only-from-release_coord"),
    KB + "Layout::process_sequence_custom": ("returns early unless the tick has no custom event yet", "guarded-by-noevent"),
}


# (function, callee) -> (fact, how it is checked) for discarded results of press-only callees
DISCARD_OK = {
    (KB + "Layout::waiting_into_tap", "do_action"): (
        "the chord action that is repeated on the other coordinates is a KeyCode / MultipleKeyCodes / OneShot / Layer action (and a "
        "one-shot's inner action is a key or layer action): none of them reports a custom event", "action-variants"),
    (KB + "Layout::do_action", "do_action"): (
        "the Src arm runs an entry of src_keys, which hold KeyCode / NoOp only (R-SRC-KEYS)", "src-arm"),
}
NO_CUSTOM_VARIANTS = {"KeyCode", "MultipleKeyCodes", "OneShot", "Layer", "NoOp", "DefaultLayer"}


def _is_ce(ty):
    return bool(ty) and ty.startswith(CE) and not ty.startswith("&")


def _builds_release(f):
    for bi, si, st in f.all_rvalues():
        rv = st["rv"]
        if rv["k"] == "agg" and (rv.get("adt") or "") == CE and rv.get("v") == "Release":
            return True
    return False


def _takes_mut_ce(f, t):
    for a in t.get("args") or []:
        if is_place(a) and not proj(a):
            ty = f.local_ty(a["l"]) or ""
            if ty.startswith("&mut " + CE):
                return True
    return False


def _builds_postponed(f):
    for bi, si, st in f.all_rvalues():
        rv = st["rv"]
        if rv["k"] == "agg" and (rv.get("adt") or "").endswith("layout::State") and rv.get("v") == "SeqCustomActive":
            return True
    return False


def run(prog):
    res = RuleResult("R-CUSTOM-LOSSLESS", "a custom action's release always reaches kanata: never discarded, never merged away", floor=12)
    fns = {}
    for f in prog.fns.values():
        if f.crate == "kanata_keyberon" and not f.derive and "::tests::" not in f.norm and "::test::" not in f.norm:
            fns.setdefault(f.norm, f)
    # closures count for their parent: a closure that reports a release makes the function that runs it release-capable
    def parent(n):
        return n.split("::{closure")[0]

    capable = set()
    for n, f in fns.items():
        if _builds_release(f):
            capable.add(parent(n))
            capable.add(n)
    changed = True
    while changed:
        changed = False
        for n, f in fns.items():
            if n in capable and parent(n) in capable:
                continue
            for bi, t in f.calls():
                cn = norm_name(callee_name(t) or "")
                if cn in capable and (_is_ce(f.place_ty(t["dest"]) if proj(t["dest"]) else f.local_ty(t["dest"]["l"])) or _takes_mut_ce(f, t)):
                    for x in (n, parent(n)):
                        if x not in capable:
                            capable.add(x)
                            changed = True
                    break
    upd = norm_name(CE + "::update")
    capable.discard(upd)
    res.notes.append("release-capable functions: %s" % sorted(x.split("layout::")[-1] for x in capable if "{closure" not in x))
    if KB + "Layout::dequeue" not in capable or KB + "State::release" not in capable:
        res.viol("anchor", "keyberon/src/layout.rs", "dequeue / State::release are not recognised as reporting releases: the facts changed shape")
        return res

    # ---- a. no discarded result of a release-capable callee
    n_sites = 0
    for n, f in sorted(fns.items()):
        used = None
        cnt = {}
        for bi, t in f.calls():
            d = t["dest"]
            if proj(d) or not _is_ce(f.local_ty(d["l"])):
                continue
            cn = norm_name(callee_name(t) or "")
            if cn == upd:
                continue
            used = used if used is not None else used_locals(f)
            short = cn.split("::")[-1]
            i = cnt.get(short, 0)
            cnt[short] = i + 1
            key = "result/%s/%s%s" % (n.split("layout::")[-1], short, "#%d" % i if i else "")
            may_release = cn in capable
            read = d["l"] in used or d["l"] == 0
            ok = read
            reviewed = None
            if not read and not may_release:
                ent = DISCARD_OK.get((parent(n), short))
                if ent is not None:
                    reviewed = ent[0]
                    if ent[1] == "action-variants":
                        # the call lies under a match / matches! on the Action that only lets key and layer actions through
                        ok = False
                        from kq.analysis import reach_under_variant
                        doms = [sw for sw in discr_switches(prog, f) if (sw.adt or "").endswith("action::Action") and f.dominates(sw.bb, bi)]
                        # the nearest one: the switch that all the other dominating switches dominate
                        near = [sw for sw in doms if all(f.dominates(o.bb, sw.bb) for o in doms)]
                        if near:
                            sw = near[0]
                            through = {v for v in sw.all_variants if bi in reach_under_variant(prog, f, sw.adt, v, start=sw.bb)}
                            ok = bool(through) and through <= NO_CUSTOM_VARIANTS
                    elif ent[1] == "src-arm":
                        ok = False
                        for sw in discr_switches(prog, f):
                            if (sw.adt or "").endswith("action::Action") and sw.target("Src") is not None and bi in sw.arm_region("Src"):
                                ok = True
            res.fn(f)
            res.inst(key, where="%s:%s" % (f.file, t.get("ln")), callee_can_report_release=may_release, read=read, reviewed=reviewed, ok=ok)
            res.oblige(ok)
            n_sites += 1
            if not ok:
                res.viol(key, "%s:%s" % (f.file, t.get("ln")),
                         "the CustomEvent returned by %s is discarded in %s. %s"
                         % (short, n.split("layout::")[-1],
                            ("%s can report the release of a custom action (mouse button, scrolling, unmod key ...): the state is gone but "
                             "kanata never hears of the release, so the button stays down / the wheel keeps turning and kanata is never "
                             "idle again" % short) if may_release else
                            ("%s reports the press of custom actions: for an action that acts on the press (on-press release-vkey / "
                             "toggle-vkey, caps-word-toggle) the effect is lost - a virtual key that should have been released stays down"
                             % short)))

    # ---- b. update() with a possibly-releasing value only from reviewed callers
    for n, f in sorted(fns.items()):
        cnt = 0
        for bi, t in f.calls():
            if norm_name(callee_name(t) or "") != upd:
                continue
            arg = t["args"][1] if len(t["args"]) > 1 else None
            src = None
            if arg is not None and is_place(arg) and not proj(arg):
                d = f.single_def(arg["l"])
                if d is not None and d[2] == "call":
                    src = norm_name(callee_name(d[3]) or "")
                elif d is not None and d[2] == "assign" and d[3]["k"] == "agg":
                    src = "agg:" + str(d[3].get("v"))
            # merging into an event that is certainly NoEvent loses nothing: the receiver is a local whose only definitions
            # are `CustomEvent::NoEvent` and this is the only update on it
            recv_fresh = False
            a0 = t["args"][0] if t["args"] else None
            if a0 is not None and is_place(a0) and not proj(a0):
                d0 = f.single_def(a0["l"])
                if d0 is not None and d0[2] == "assign" and d0[3]["k"] == "ref" and not proj(d0[3]["p"]):
                    L = d0[3]["p"]["l"]
                    defs = [x for x in f.defs().get(L, []) if x[2] != "partial"]
                    only_noevent = bool(defs) and all(x[2] == "assign" and x[3]["k"] == "agg" and x[3].get("v") == "NoEvent" for x in defs)
                    n_upd = 0
                    for _b2, t2 in f.calls():
                        if norm_name(callee_name(t2) or "") == upd and t2["args"] and is_place(t2["args"][0]):
                            d2 = f.single_def(t2["args"][0]["l"])
                            if d2 is not None and d2[2] == "assign" and d2[3]["k"] == "ref" and d2[3]["p"]["l"] == L:
                                n_upd += 1
                    from rules.r_loopvar import loops_of as _loops
                    in_loop = any(bi in lp.body for lp in _loops(f))
                    recv_fresh = only_noevent and n_upd == 1 and not in_loop
            harmless = recv_fresh or src == "agg:NoEvent"
            key = "update/%s%s" % (n.split("layout::")[-1], "#%d" % cnt if cnt else "")
            cnt += 1
            pn = parent(n)
            if harmless:
                res.inst(key, where="%s:%s" % (f.file, t.get("ln")), argument=src, ok=True)
                res.oblige(True)
                continue
            ent = UPDATE_OK.get(pn)
            ok = ent is not None
            why = ""
            if ent is not None:
                kind = ent[1]
                if kind == "only-from-release_coord":
                    ok = True      # checked under clause c
                elif kind == "pushes-postponed":
                    ok = _builds_postponed(f) and any((callee_name(t2) or "").endswith("::push") for _, t2 in f.calls())
                    why = "it no longer pushes State::SeqCustomActive for the release it cannot report"
                elif kind == "guarded-by-noevent":
                    doms = f.dominators()
                    ok = False
                    for sw in discr_switches(prog, f):
                        if (sw.adt or "") == CE and f.dominates(sw.bb, bi) and sw.bb != bi:
                            ok = True
                    why = "the update is no longer dominated by the test that the tick has no custom event yet"
            res.inst(key, where="%s:%s" % (f.file, t.get("ln")), argument=src or "a value that may be a release",
                     reviewed=ent[0] if ent else None, ok=ok)
            res.oblige(ok)
            if not ok:
                res.viol(key, "%s:%s" % (f.file, t.get("ln")),
                         "%s merges a custom event (%s) with CustomEvent::update, which silently keeps only one of two events%s. "
                         "When two custom actions are released (or pressed) in the same tick the other event is lost: the mouse button / "
                         "scrolling / unmod key it ends stays on for ever, or the virtual key it should release stays down. Use "
                         "update_or_postpone_release"
                         % (n.split("layout::")[-1], src or "not the result of a press-only function",
                            (": " + why) if why else "; this caller is not one of the reviewed ones"))

    # ---- c. State::release only from release_coord, which postpones further custom states
    rel = norm_name(KB + "State::release")
    n_rel = 0
    for n, f in sorted(fns.items()):
        for bi, t in f.calls():
            if norm_name(callee_name(t) or "") != rel:
                continue
            n_rel += 1
            ok = parent(n) == KB + "Layout::release_coord"
            key = "state-release/%s" % parent(n).split("layout::")[-1]
            res.inst(key, where="%s:%s" % (f.file, t.get("ln")), ok=ok)
            res.oblige(ok)
            if not ok:
                res.viol(key, "%s:%s" % (f.file, t.get("ln")),
                         "%s removes the states of a coordinate with State::release itself instead of going through the queued Release "
                         "event (dequeue -> one-shot table -> release_coord). The one-shot table is not asked whether the coordinate "
                         "is an active one-shot key (a state that is still wanted is removed, e.g. the same one-shot key tapped "
                         "again), and when the coordinate holds several custom actions only the first release is reported"
                         % parent(n).split("layout::")[-1])
    rc = fns.get(KB + "Layout::release_coord")
    if rc is None or n_rel == 0:
        res.viol("state-release/anchor", "keyberon/src/layout.rs", "Layout::release_coord / a call of State::release was not found")
    else:
        ok = _builds_postponed(rc)
        res.inst("release_coord/postpones-further-custom-states", where=rc.loc, ok=ok)
        res.oblige(ok)
        if not ok:
            res.viol("release_coord/postpones-further-custom-states", rc.loc,
                     "release_coord no longer turns the second and further custom states of the released coordinate into postponed "
                     "releases (State::SeqCustomActive): State::release reports them all through CustomEvent::update, which keeps one")
    return res


def rule_fold_acc(prog):
    """R-FOLD-ACC (C01): the release handler's fold never throws its accumulator away.

    handle_keystate_changes walks the custom actions of a released key with `fold(None, |pbtn, ac| match ac { .. })`; the
    accumulator is the mouse button that has to be un-clicked at the end. Every arm that does not concern a button must
    hand `pbtn` on. An arm that yields `None` forgets the button found by an earlier action of the same key:
    `(multi mlft (on-release tap-vkey v))` then clicks the button and never releases it.

    Rule: in every closure passed to `Iterator::fold` in the state-machine crate whose accumulator is an Option, no
    assignment to the return place builds a fresh `None`."""
    res = RuleResult("R-FOLD-ACC", "fold closures with an Option accumulator never replace it by a fresh None", floor=1)
    from rules.r_cancel import closure_arg
    for f in sorted(prog.fns.values(), key=lambda x: x.norm):
        if f.crate != "kanata_state_machine" or f.derive:
            continue
        for bi, t in f.calls():
            if (callee_name(t) or "").split("::")[-1] != "fold" or len(t["args"]) < 3:
                continue
            c = closure_arg(prog, f, t["args"][2])
            if c is None or not (c.local_ty(0) or "").startswith("core::option::Option<"):
                continue
            res.fn(c)
            fresh = []
            n_ret = 0
            for b, si, st in c.all_rvalues():
                if proj(st["p"]) or st["p"]["l"] != 0:
                    continue
                n_ret += 1
                rv = st["rv"]
                if rv["k"] == "agg" and rv.get("adt") == "core::option::Option" and rv.get("v") == "None":
                    fresh.append(c.line_of(b, si))
            key = "%s/fold" % f.norm.split("::{closure")[0].split("::")[-1]
            ok = not fresh
            res.inst(key, where="%s:%s" % (f.file, t.get("ln")), results=n_ret, ok=ok)
            res.oblige(ok)
            if not ok:
                res.viol(key, "%s:%s" % (c.file, fresh[0]),
                         "an arm of the fold over the custom actions of a released key yields a fresh `None` instead of handing the accumulator "
                         "on (line %s): the mouse button found by an earlier action of the same key is forgotten and never un-clicked - "
                         "`(multi mlft (on-release tap-vkey v))` leaves the left button down for ever" % fresh[0])
    if not res.instances:
        _loop_form(prog, res)
    return res


def _loop_form(prog, res):
    """the same accumulator written as a loop: `let mut last = None; for ac in custacts { match ac { Mouse(btn) => last = Some(btn), .. } }`.
    The accumulator is a local of Option type that some statement *inside a loop* sets to Some(<field of CustomAction::Mouse>);
    no statement inside a loop may set it to a fresh None."""
    from rules.r_loopvar import loops_of
    SM = "kanata_state_machine::kanata::Kanata::handle_keystate_changes"
    f = prog.fn_opt(SM)
    if f is None:
        return
    body = set()
    for lp in loops_of(f):
        body |= set(lp.body)
    accs = {}
    for b, si, st in f.all_rvalues():
        if b not in body or proj(st["p"]):
            continue
        rv = st["rv"]
        if rv["k"] == "agg" and rv.get("adt") == "core::option::Option" and rv.get("v") == "Some" and rv["ops"] and is_place(rv["ops"][0]):
            # the payload comes out of a CustomAction::Mouse
            o = rv["ops"][0]
            for _ in range(6):
                if any(isinstance(e, dict) and e.get("v") == "Mouse" and (e.get("adt") or "").endswith("CustomAction") for e in proj(o)):
                    accs.setdefault(st["p"]["l"], (b, si))
                    break
                d = f.single_def(o["l"])
                if not d or d[2] != "assign" or d[3]["k"] not in ("use", "ref") or not is_place(d[3].get("a") or d[3].get("p")):
                    break
                o = d[3].get("a") or d[3].get("p")
    for l, (b0, s0) in sorted(accs.items()):
        res.fn(f)
        fresh = [f.line_of(b, si) for b, si, st in f.all_rvalues()
                 if b in body and not proj(st["p"]) and st["p"]["l"] == l and st["rv"]["k"] == "agg"
                 and st["rv"].get("adt") == "core::option::Option" and st["rv"].get("v") == "None"]
        key = "handle_keystate_changes/loop-accumulator"
        ok = not fresh
        res.inst(key, where="%s:%s" % (f.file, f.line_of(b0, s0)), local=f.local_name(l), ok=ok)
        res.oblige(ok)
        if not ok:
            res.viol(key, "%s:%s" % (f.file, fresh[0]),
                     "the loop over the custom actions of a released key resets the remembered mouse button to `None` (line %s): the "
                     "button found by an earlier action of the same key is forgotten and never un-clicked" % fresh[0])
