"""R-REC (C02 run time, C03 parsing): recursion descends structurally.
For every recursive call edge (caller and callee in one strongly connected component of the reachable
call graph) some argument must be a strict sub-structure of one of the caller's own parameters (reached
by field / element / iterator projections only), or a counter with a dominating bound test. An edge whose
argument comes from a table lookup or from stored state can re-enter the same data forever."""
from collections import defaultdict

from kq.core import callee_name, callee_written, is_const, is_place, norm_name, proj, rvalue_operands
from kq.report import RuleResult
from rules.r_panic import PARSE_ROOTS, RT_ROOTS, RT_STOP

WALK_OK = ("iter", "iter_mut", "next", "deref", "deref_mut", "index", "index_mut", "as_ref", "as_slice", "first", "last", "get",
           "split_first", "split_last", "skip", "rev", "copied", "cloned", "clone", "into_iter", "enumerate", "zip", "chunks",
           "chunks_exact", "by_ref", "peekable", "unwrap", "expect", "branch", "from_residual", "as_deref", "borrow", "into",
           "from", "map", "and_then", "ok_or_else", "list", "span_list", "atom", "filter", "chain", "take", "step_by", "as_str", "len")
LOOKUPS = ("std::collections::hash::map::HashMap::get", "std::collections::hash::map::HashMap::get_mut", "std::collections::hash::map::HashMap::entry",
           "radix_trie::Trie::get", "alloc::collections::btree::map::BTreeMap::get")

# recursive edges through stored state that are bounded for a reviewed reason: (caller, state field) -> reason
STATE_OK = {
    ("kanata_keyberon::layout::Layout::do_action", "src_keys"):
        "src_keys only ever holds KeyCode / NoOp actions (built by create_defsrc_layer; checked below)",
}


VARS_RESOLVERS = {"kanata_parser::cfg::sexpr::SExpr::atom", "kanata_parser::cfg::sexpr::SExpr::list",
                  "kanata_parser::cfg::sexpr::SExpr::span_list"}
_ACYCLIC = {}


def vars_table_is_checked_acyclic(prog):
    """parse_vars hands out the defvar table only on paths that passed a fallible validation of the whole table
    (`validate(&vars)?` dominating every Ok(vars)). What the validation checks (reference cycles) is a reviewed fact;
    that it cannot be skipped is checked here."""
    if id(prog) in _ACYCLIC:
        return _ACYCLIC[id(prog)]
    from kq.core import Resolver
    ok = False
    f = prog.fn_opt("kanata_parser::cfg::parse_vars")
    if f is not None:
        oks = [(bi, st["rv"]["ops"][0]) for bi, si, st in f.all_rvalues()
               if st["p"]["l"] == 0 and not proj(st["p"]) and st["rv"]["k"] == "agg" and st["rv"].get("adt") == "core::result::Result"
               and st["rv"].get("v") == "Ok" and st["rv"]["ops"]]
        ok = bool(oks)
        def ident(o):
            r_ = Resolver(f).root(o)
            if r_[0] in ("call", "agg"):
                return (r_[0], r_[1][0])
            if r_[0] == "param":
                return ("param", r_[1])
            return None
        for (ob, op) in oks:
            tid = ident(op)
            dominated = False
            for bi, t in f.calls():
                cn = callee_name(t) or ""
                if not cn.startswith("kanata") or "Result" not in (f.local_ty(t["dest"]["l"]) or ""):
                    continue
                if tid is not None and any(is_place(a_) and ident(a_) == tid for a_ in t["args"]) and f.dominates(bi, ob) and bi != ob:
                    dominated = True
            ok = ok and dominated
    _ACYCLIC.clear()
    _ACYCLIC[id(prog)] = ok
    return ok


def sccs(nodes, succ):
    index, low, onst, st, out = {}, {}, set(), [], []
    counter = [0]
    for root in nodes:
        if root in index:
            continue
        work = [(root, iter(succ(root)))]
        index[root] = low[root] = counter[0]
        counter[0] += 1
        st.append(root)
        onst.add(root)
        while work:
            v, it = work[-1]
            adv = False
            for w in it:
                if w not in nodes:
                    continue
                if w not in index:
                    index[w] = low[w] = counter[0]
                    counter[0] += 1
                    st.append(w)
                    onst.add(w)
                    work.append((w, iter(succ(w))))
                    adv = True
                    break
                elif w in onst:
                    low[v] = min(low[v], index[w])
            if adv:
                continue
            work.pop()
            if work:
                low[work[-1][0]] = min(low[work[-1][0]], low[v])
            if low[v] == index[v]:
                comp = []
                while True:
                    w = st.pop()
                    onst.discard(w)
                    comp.append(w)
                    if w == v:
                        break
                out.append(comp)
    return out


TAKEN = {}
VIA = {}


def _argkey(a):
    return (a.get("l"), str(a.get("pr")))


def classify_arg(f, arg):
    """('structural', param) | ('counter', param) | ('same', param) | ('lookup', what) | ('state', field) | ('other', None)"""
    if not is_place(arg):
        return ("const", None)
    seen = set()
    work = [(arg, False)]
    params, projected, lookups, state_fields = set(), False, [], []
    counter = None
    while work:
        o, pj = work.pop()
        if not is_place(o):
            continue
        has_proj = pj or any(e != "*" for e in proj(o))
        l = o["l"]
        for e in proj(o):
            if isinstance(e, dict) and "f" in e and e.get("adt") and 1 <= l <= f.nargs:
                pass
        if 1 <= l <= f.nargs and not [x for x in f.defs().get(l, []) if x[2] != "partial"]:
            params.add((l, has_proj))
            # fields of `self`-like state parameters
            for e in proj(o):
                if isinstance(e, dict) and "f" in e and e.get("adt"):
                    state_fields.append((e["adt"], e["f"]))
            continue
        if (l, has_proj) in seen:
            continue
        seen.add((l, has_proj))
        for (bb, idx, kind, payload) in f.defs().get(l, []):
            if kind == "assign":
                rv = payload
                if rv["k"] == "bin" and rv["op"].startswith(("Sub", "Add")):
                    counter = rv
                for x in rvalue_operands(rv):
                    work.append((x, has_proj))
            elif kind == "call":
                cn = callee_name(payload) or ""
                meth = cn.split("::")[-1]
                if cn in LOOKUPS:
                    lookups.append(cn)
                    continue
                if cn == "core::option::Option::take" and payload["args"]:
                    # the slot is emptied for as long as the value is in use: a nested read finds None
                    from kq.core import proj_fields as _pf
                    seen_f = []
                    w2 = [payload["args"][0]]
                    d2 = 0
                    while w2 and d2 < 6:
                        o2 = w2.pop()
                        d2 += 1
                        if not is_place(o2):
                            continue
                        seen_f += [(x[0], x[2]) for x in _pf(o2)]
                        for (bb2, i2, k2, p2) in f.defs().get(o2["l"], []):
                            if k2 == "assign":
                                w2.extend(rvalue_operands(p2))
                    TAKEN.setdefault(id(f), set()).update(seen_f)
                walk = meth in WALK_OK
                if not walk:
                    VIA.setdefault((id(f), _argkey(arg)), set()).add(cn)
                for x in payload["args"][:1] if walk else payload["args"]:
                    work.append((x, True if walk else has_proj))
    return params, lookups, state_fields, counter


def run_for(prog, roots, stop, name, known_ok):
    res = RuleResult(name, "every recursive call descends into a strict sub-structure of its input (or a bounded counter)", floor=3)
    reach = prog.reachable_from(roots, stop=stop)
    cg = prog.callgraph()
    nodes = {n for n in reach if n in prog.by_norm and prog.by_norm[n][0].crate.startswith("kanata")}
    comps = [c for c in sccs(nodes, lambda n: cg.get(n, ())) if len(c) > 1 or c[0] in cg.get(c[0], ())]
    res.notes.append("recursive components: %d" % len(comps))
    for comp in comps:
        cs = set(comp)
        for n in sorted(comp):
            f = prog.by_norm[n][0]
            res.fn(f)
            # closures belong to their parent for parameter purposes: analyse calls in f itself
            for bi, t in f.calls():
                tgt = callee_name(t)
                if tgt not in cs:
                    continue
                best = None
                why = []
                for ai, a in enumerate(t["args"]):
                    if not is_place(a):
                        continue
                    params, lookups, state_fields, counter = classify_arg(f, a)
                    ty = f.place_ty(a) or ""
                    recursive_ty = any(x in ty for x in ("SExpr", "Action", "Spanned", "[", "Vec")) and "HashMap" not in ty
                    if lookups:
                        if f.norm in VARS_RESOLVERS and vars_table_is_checked_acyclic(prog):
                            best = best or ("acyclic-table", "arg%d is looked up in the defvar table, which parse_vars only returns after "
                                            "its cycle check succeeded" % ai)
                            continue
                        why.append("arg%d comes from a table lookup (%s)" % (ai, lookups[0].split("::")[-1]))
                        continue
                    stf = [sf for sf in state_fields if sf[1] in ("rpt_action", "src_keys", "vars", "aliases", "templates")]
                    if stf and recursive_ty:
                        why.append("arg%d is read from stored state %s.%s" % (ai, stf[0][0].split("::")[-1], stf[0][1]))
                        if (f.norm, stf[0][1]) in STATE_OK:
                            best = best or ("state-ok", STATE_OK[(f.norm, stf[0][1])])
                        if (stf[0][0], stf[0][1]) in TAKEN.get(id(f), set()):
                            best = best or ("state-taken", "arg%d is taken out of %s.%s (Option::take) for the duration of the call: a nested "
                                            "read of the slot finds it empty, so the re-entry depth is bounded" % (ai, stf[0][0].split("::")[-1], stf[0][1]))
                        continue
                    via = sorted(VIA.get((id(f), _argkey(a)), ()))
                    if recursive_ty and via and "SExpr" in ty and ty.startswith("alloc::vec::Vec<") and not any(pj for (_, pj) in params if False):
                        # not a piece of the caller's input but something a function made out of it (parsed file content ...)
                        why.append("arg%d is an owned value produced by %s(..): it is not a sub-structure of the caller's input" % (ai, via[0].split("::")[-1]))
                        continue
                    if recursive_ty and any(pj for (_, pj) in params):
                        best = ("structural", "arg%d is a sub-structure of parameter %s" % (ai, sorted(p for p, pj in params if pj)))
                        break
                    if counter is not None and not recursive_ty and params:
                        best = best or ("counter", "arg%d is a counter derived from parameter %s" % (ai, sorted(p for p, _ in params)))
                key = "%s -> %s @%s" % (f.norm.split("::")[-1] if "{closure" not in f.norm else "::".join(f.norm.split("::")[-2:]), tgt.split("::")[-1], "")
                ord_ = sum(1 for i in res.instances if i["key"].startswith(key))
                ikey = "%s->%s#%d" % (f.norm, tgt, ord_)
                res.inst(ikey, where="%s:%s" % (f.file, t.get("ln")), kind=best[0] if best else ("via-lookup-or-state" if any("lookup" in w or "stored state" in w or "owned value" in w for w in why) else "not-assessed"), why=(best[1] if best else "; ".join(why))[:160])
                flagged = any(w.startswith("arg") and ("table lookup" in w or "stored state" in w or "owned value produced" in w) for w in why)
                ok = best is not None or not flagged
                res.oblige(ok)
                if not ok:
                    vkey = "%s->%s|%s" % (f.norm, tgt, (why[0] if why else "no structural argument")[:60])
                    res.viol(vkey, "%s:%s" % (f.file, t.get("ln")),
                             "recursive call %s -> %s: no argument descends into a sub-structure of the caller's input (%s): a "
                             "self-referential input re-enters forever (stack overflow)" % (f.norm, tgt, "; ".join(why) or "none"))
    return res


def run_rt(prog):
    res = run_for(prog, RT_ROOTS, RT_STOP, "R-REC/rt", None)
    # src_keys holds only KeyCode / NoOp
    f = prog.fn("kanata_parser::cfg::create_defsrc_layer")
    kinds = set()
    for g in [f] + list(prog.closures_of(f)):       # `array::from_fn(|i| ..)`: the actions may be built in a closure
        for bi, si, st in g.all_rvalues():
            if st["rv"]["k"] == "agg" and st["rv"].get("adt") == "kanata_keyberon::action::Action":
                kinds.add(st["rv"]["v"])
    res.inst("src_keys-contents", variants=sorted(kinds))
    if not kinds or not kinds <= {"KeyCode", "NoOp"}:
        res.viol("src_keys-contents", f.loc, "create_defsrc_layer stores %s in the defsrc row; Src recursion is only bounded for KeyCode/NoOp" % sorted(kinds))
    return res


def run_parse(prog):
    return run_for(prog, PARSE_ROOTS, [], "R-REC/parse", None)
