"""R-LOOP (C07): the processing loop blocks only when the idle predicate allows it, and on wake-up
resets last_tick to the present before converting elapsed wall-clock time into ticks."""
from kq.analysis import backward_slice, blocks_calling
from kq.core import callee_name, proj_fields
from kq.report import RuleResult

KAN = "kanata_state_machine::kanata::Kanata"


def run(prog):
    res = RuleResult("R-LOOP", "blocking recv only under can_block; wake-up resets last_tick before ticking", floor=4)
    cl = [f for f in prog.closures_of(prog.fn(KAN + "::start_processing_loop"))
          if blocks_calling(f, f.reachable(), [KAN + "::can_block_update_idle_waiting"])]
    if len(cl) != 1:
        res.viol("shape", "src/kanata/mod.rs", "expected one processing-loop closure calling can_block_update_idle_waiting, found %d" % len(cl))
        return res
    f = cl[0]
    res.fn(f)
    cb = blocks_calling(f, f.reachable(), [KAN + "::can_block_update_idle_waiting"])
    recv = blocks_calling(f, f.reachable(), ["std::sync::mpsc::Receiver::recv"])
    tryr = blocks_calling(f, f.reachable(), ["std::sync::mpsc::Receiver::try_recv"])
    ticks = blocks_calling(f, f.reachable(), [KAN + "::handle_time_ticks"])
    inputs = blocks_calling(f, f.reachable(), [KAN + "::handle_input_event"])
    res.inst("anchors", can_block=len(cb), recv=len(recv), try_recv=len(tryr), handle_time_ticks=len(ticks))
    if len(cb) != 1 or not recv or not ticks:
        res.viol("anchors", f.loc, "processing loop lost an anchor (can_block=%d recv=%d ticks=%d)" % (len(cb), len(recv), len(ticks)))
        return res
    b_can, t_can = cb[0]
    # the branch on can_block's result
    sw = None
    for b in f.reach_from(t_can["t"], avoid=[b_can]):
        t = f.term(b)
        if t["k"] == "switch" and t.get("dty") == "bool":
            flds, callees, _ = backward_slice(f, t["d"])
            if KAN + "::can_block_update_idle_waiting" in callees:
                sw = (b, t)
                break
    if sw is None:
        res.viol("branch", f.loc, "no branch on the result of can_block_update_idle_waiting")
        return res
    b_sw, t_sw = sw
    false_succ = [tb for v, tb in t_sw["ts"] if v == 0]
    true_succ = [t_sw["o"]] if false_succ else []
    for v, tb in t_sw["ts"]:
        if v == 1:
            true_succ = [tb]
            false_succ = [t_sw["o"]]
    for (rb, rt) in recv:
        bad = any(rb in f.reach_from(s, avoid=[b_can]) for s in false_succ)
        ok = (not bad) and any(rb in f.reach_from(s, avoid=[b_can]) for s in true_succ)
        res.inst("recv-gated", where="%s:%s" % (f.file, rt.get("ln")), ok=ok)
        res.oblige(ok)
        if not ok:
            res.viol("recv-gated", "%s:%s" % (f.file, rt.get("ln")),
                     "the blocking recv() can be reached when can_block_update_idle_waiting returned false")
    # wake-up path: from recv to the next can_block
    for (rb, rt) in recv:
        path = f.reach_from(rt["t"], avoid=[b_can]) if rt["t"] is not None else set()
        tks = [(b, t) for (b, t) in ticks if b in path]
        ins = [(b, t) for (b, t) in inputs if b in path]
        stores = []
        for bi, si, st in f.all_rvalues():
            if bi in path:
                pf = proj_fields(st["p"])
                if pf and pf[-1][0] == KAN and pf[-1][2] == "last_tick":
                    stores.append((bi, si, st))
        res.inst("wake/last_tick-stores", n=len(stores))
        for (tb, tt) in tks:
            good = False
            for (bi, si, st) in stores:
                flds, callees, _ = backward_slice(f, st["rv"]["a"] if "a" in st["rv"] else None)
                fresh = "std::time::Instant::now" in callees and (KAN, "last_tick") not in flds
                # ... and that clock reading is taken after the thread woke up, not before it went to sleep
                now_blocks = _call_blocks_in_slice(f, st["rv"]["a"] if "a" in st["rv"] else None, "std::time::Instant::now")
                after_wake = bool(now_blocks) and all(nb in path and f.dominates(rb, nb) for nb in now_blocks)
                if f.dominates(bi, tb) and fresh and after_wake:
                    good = True
            res.inst("wake/reset-before-ticks", where="%s:%s" % (f.file, tt.get("ln")), ok=good)
            res.oblige(good)
            if not good:
                res.viol("wake/reset-before-ticks", "%s:%s" % (f.file, tt.get("ln")),
                         "after waking from the blocking recv, handle_time_ticks runs without last_tick having been reset to a "
                         "value taken from Instant::now() alone: the whole blocked interval is replayed as ticks")
            ok_in = any(f.dominates(ib, tb) for (ib, _) in ins)
            res.inst("wake/input-before-ticks", ok=ok_in)
            if not ok_in:
                res.viol("wake/input-before-ticks", "%s:%s" % (f.file, tt.get("ln")), "the waking key event is not handed to handle_input_event before ticking")
        if not tks:
            res.viol("wake/no-ticks", f.loc, "no handle_time_ticks on the wake-up path")
    return res


def _call_blocks_in_slice(f, operand, callee):
    """blocks of the calls to `callee` on the backward slice of operand"""
    from kq.core import callee_name, is_place, rvalue_operands
    out, seen, work = set(), set(), [operand]
    while work:
        o = work.pop()
        if not is_place(o) or o["l"] in seen:
            continue
        seen.add(o["l"])
        for (bb, idx, kind, payload) in f.defs().get(o["l"], []):
            if kind == "assign":
                work.extend(rvalue_operands(payload))
            elif kind == "call":
                if callee_name(payload) == callee:
                    out.add(bb)
                work.extend(payload["args"])
    return out
