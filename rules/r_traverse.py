"""R-TRAVERSE (C09, C14): the recursive walkers over the Action tree visit every nested action.
From the Action type derive, per variant, the fields through which another Action is reachable; each
traversal must read every one of them in that variant's arm (and recurse there)."""
from kq.analysis import backward_slice, discr_switches
from kq.core import callee_name, is_place, norm_name, proj_fields, rvalue_operands
from kq.report import RuleResult

ACTION = "kanata_keyberon::action::Action"
TRAVERSALS = {
    "kanata_parser::cfg::find_chords_coords": "chord resolution (registers which coordinates take part in a defchords group)",
    "kanata_parser::cfg::fill_chords": "chord resolution (replaces chord placeholders by the resolved group)",
    "kanata_parser::cfg::key_outputs::add_key_output_from_action_to_key_pos": "repeat table (which keys a position may output)",
}


# arms that are the walker's base case, with the reason
BASE_CASES = {
    ("find_chords_coords", "Chords"): "the unresolved chord placeholder is what this walker collects; it has no nested actions yet",
    ("fill_chords", "Chords"): "the unresolved chord placeholder is what this walker replaces; it has no nested actions yet",
}


def nested_fields(prog):
    """variant -> set of (adt, field) leading to a nested Action; ('<direct>', variant) for direct payloads"""
    out = {}
    act = prog.adt(ACTION)
    for v in act["variants"]:
        s = set()
        for fl in v["fields"]:
            if ACTION in fl["adts"]:
                s.add(("<direct>", v["name"]))
            for a in fl["adts"]:
                if a == ACTION or a not in prog.adts or prog.adts[a]["kind"] != "struct":
                    continue
                for vv in prog.adts[a]["variants"]:
                    for f2 in vv["fields"]:
                        if ACTION in f2["adts"]:
                            s.add((a, f2["name"]))
        if s:
            out[v["name"]] = s
    return out


def region_reads(prog, f, region, rec_name=None):
    reads = set()
    calls = set()
    rec_names = ({rec_name} | set(getattr(f, "inlined", ()))) if rec_name is not None else set()
    fns = [(f, region)]
    # closures created inside the region
    for b in region:
        for st in f.stmts(b):
            if st["k"] == "assign" and st["rv"]["k"] == "agg" and "clo" in st["rv"]:
                c = prog.fn_opt(norm_name(st["rv"]["clo"]))
                if c is not None:
                    fns.append((c, c.reachable()))
                    for cc in prog.closures_of(c):
                        fns.append((cc, cc.reachable()))
    for g, blocks in fns:
        for b in blocks:
            for st in g.stmts(b):
                if st["k"] == "assign":
                    for o in rvalue_operands(st["rv"]) + [st["p"]]:
                        if is_place(o):
                            for (a, v, fl) in proj_fields(o):
                                reads.add((a, fl))
            t = g.term(b)
            if t["k"] == "call":
                calls.add(callee_name(t))
                if rec_name is None or callee_name(t) in rec_names:
                    for o in t["args"]:
                        flds, _, _ = backward_slice(g, o)
                        reads |= flds
    if rec_name is not None:
        # only what flows into the recursive calls counts
        reads2 = set()
        for g, blocks in fns:
            for b in blocks:
                t = g.term(b)
                if t["k"] == "call" and callee_name(t) in rec_names:
                    for o in t["args"]:
                        flds, _, _ = backward_slice(g, o)
                        reads2 |= flds
        # closures handed to an iterator adaptor (`xs.iter().map(|x| rec(x))`): what flows into the
        # adaptor's receiver flows into the closure's parameter
        for b in region:
            for st in f.stmts(b):
                if st["k"] == "assign" and st["rv"]["k"] == "agg" and "clo" in st["rv"]:
                    c = prog.fn_opt(norm_name(st["rv"]["clo"]))
                    if c is None:
                        continue
                    has_rec = any(callee_name(t) in rec_names for g in [c] + prog.closures_of(c) for _, t in g.calls())
                    if not has_rec:
                        continue
                    cl = st["p"]["l"]
                    for b2 in region:
                        t = f.term(b2)
                        if t["k"] != "call":
                            continue
                        uses = False
                        for o in t["args"]:
                            if is_place(o):
                                _, _, _ = (None, None, None)
                                r_ = o["l"]
                                if r_ == cl:
                                    uses = True
                                else:
                                    d = f.single_def(r_)
                                    if d and d[2] == "assign" and d[3]["k"] == "use" and is_place(d[3]["a"]) and d[3]["a"]["l"] == cl:
                                        uses = True
                        if uses:
                            for o in t["args"]:
                                flds, _, _ = backward_slice(f, o)
                                reads2 |= flds
        return reads2, calls
    return reads, calls


def run(prog, only=None):
    res = RuleResult("R-TRAVERSE", "Action-tree walkers visit every nested action of every variant", floor=20)
    nf = nested_fields(prog)
    res.notes.append("nested-action fields: %s" % {k: sorted(x[1] for x in v) for k, v in nf.items()})
    if len(nf) < 7:
        res.viol("adt/census", "keyberon/src/action.rs", "only %d Action variants with nested actions found (expected >= 7)" % len(nf))
    for name, what in TRAVERSALS.items():
        if only and name not in only:
            continue
        f = prog.fn(name)
        res.fn(f)
        sws = discr_switches(prog, f, ACTION)
        if not sws:
            res.viol("%s/shape" % name, f.loc, "%s no longer matches on the Action variant" % name)
            continue
        sw = max(sws, key=lambda s: len(s.arms))
        short = name.split("::")[-1]
        for v, need in sorted(nf.items()):
            if (short, v) in BASE_CASES:
                res.inst("%s/%s" % (short, v), base_case=BASE_CASES[(short, v)])
                continue
            region = sw.arm_region(v)
            reads, calls = region_reads(prog, f, region, rec_name=name)
            # the walk may recurse through a helper of its own (a generic `for_each_..(action, visit)` that the anchor only
            # wraps): helpers unknown to the inventory that were inlined into the anchor and call themselves are the walk too
            recurses = bool(({name} | set(getattr(f, "inlined", ()))) & calls)
            missing = sorted(x for x in need if x[0] != "<direct>" and x not in reads)
            res.inst("%s/%s" % (short, v), needs=sorted(x[1] for x in need), missing=[m[1] for m in missing], recurses=recurses)
            ok = not missing and recurses
            res.oblige(ok)
            if v not in sw.arms and sw.otherwise is not None:
                res.viol("%s/%s/wildcard" % (short, v), f.loc, "%s handles Action::%s in a wildcard arm although it carries nested actions" % (short, v))
                continue
            if not recurses:
                res.viol("%s/%s/no-recursion" % (short, v), "%s:%s" % (f.file, f.line_of(sw.target(v))),
                         "%s: the Action::%s arm does not recurse into its nested action(s) — %s misses them" % (short, v, what))
            for (a, fl) in missing:
                res.viol("%s/%s/%s" % (short, v, fl), "%s:%s" % (f.file, f.line_of(sw.target(v))),
                         "%s: the Action::%s arm never looks at %s.%s, which holds a nested action — %s misses it"
                         % (short, v, a.split("::")[-1], fl, what))
    return res


def run_repeat(prog):
    r = run(prog, only=["kanata_parser::cfg::key_outputs::add_key_output_from_action_to_key_pos"])
    r.rule = "R-TRAVERSE"
    r.floor = 7
    return r


def run_chords(prog):
    r = run(prog, only=["kanata_parser::cfg::find_chords_coords", "kanata_parser::cfg::fill_chords"])
    r.floor = 14
    # The two walkers stop at a chord placeholder and never look inside a chord group's own actions. That is only
    # complete if such actions cannot contain chord actions: both places that parse them (defchords groups,
    # defchordsv2 entries) reject an action for which contains_chord_action() is true, and that predicate itself
    # descends into every nested-action field (it is one of the walkers checked above).
    from kq.core import callee_name
    CCA = "kanata_parser::cfg::contains_chord_action"
    r2 = run(prog, only=[CCA])
    r.instances += r2.instances
    r.violations += r2.violations
    r.obligations += r2.obligations
    r.discharged += r2.discharged
    for nm in ("kanata_parser::cfg::resolve_chord_groups", "kanata_parser::cfg::chord::parse_single_chord"):
        f = prog.fn(nm)
        ok = False
        for g in [f] + prog.closures_of(f):
            for bi, t in g.calls():
                if callee_name(t) != CCA or t["t"] is None:
                    continue
                tt = g.term(t["t"])
                if tt["k"] == "switch":
                    true_t = [tb for v, tb in tt["ts"] if v == 1] or ([tt["o"]] if any(v == 0 for v, _ in tt["ts"]) else [])
                    # the true edge ends in an Err(..) / `?`: it never reaches an Ok construction of the action
                    if true_t:
                        reach = g.reach_from(true_t[0], avoid=[t["t"]])
                        builds_ok = any(st["rv"]["k"] == "agg" and st["rv"].get("adt") == "core::result::Result" and st["rv"].get("v") == "Ok"
                                        for b in reach for st in g.stmts(b) if st["k"] == "assign")
                        if not builds_ok:
                            ok = True
        r.inst("nested-chord-rejected/" + nm.split("::")[-1], ok=ok)
        r.oblige(ok)
        if not ok:
            r.viol("nested-chord-rejected/" + nm.split("::")[-1], f.loc,
                   "%s accepts an action that contains a (chord ..) action: the chord walkers never look inside chord definitions, so "
                   "that chord is never connected to its group and does nothing" % nm.split("::")[-1])
    return r


def run_rebuild(prog):
    """R-REBUILD (C09, C10): when the chord-resolution pass rebuilds an action, every branch stays in its place.

    fill_chords walks every action of every layer (with or without defchords) and rebuilds the composite ones whose
    inner actions changed: `Fork { left: new_left.unwrap_or(left), right: new_right.unwrap_or(right), ..fcfg }` and the
    like. A field of the rebuilt struct must be computed from the *same* field of the original (or from the walker's
    result for it) and never from a sibling field of the same type: `right: new_right.unwrap_or(left)` makes the fork
    take its right branch and run the left action."""
    from kq.analysis import backward_slice
    res = RuleResult("R-REBUILD", "fill_chords rebuilds composite actions field by field, never crossing sibling branches", floor=4)
    f = prog.fn_opt("kanata_parser::cfg::fill_chords")
    if f is None:
        res.viol("anchor", "parser/src/cfg/mod.rs", "fill_chords not found")
        return res
    n = 0
    for g in [f] + prog.closures_of(f):
        res.fn(g)
        for bi, si, st in g.all_rvalues():
            rv = st["rv"]
            if rv["k"] != "agg" or not (rv.get("adt") or "").startswith("kanata_keyberon::action::") or len(rv.get("fn", [])) < 2:
                continue
            adt = rv["adt"]
            try:
                a = prog.adt(adt)
            except Exception:
                continue
            if a.get("kind") == "enum":
                continue
            tys = {fl["name"]: fl["ty"] for v in a.get("variants", []) for fl in v.get("fields", [])} or {fl["name"]: fl["ty"] for fl in a.get("fields", [])}
            for name, op in zip(rv["fn"], rv["ops"]):
                sib = [m for m in rv["fn"] if m != name and tys.get(m) == tys.get(name) and "Action" in (tys.get(name) or "")]
                if not sib:
                    continue
                fields, _c, _k = backward_slice(g, op, maxdepth=14)
                crossed = [m for m in sib if (adt, m) in fields]
                own = (adt, name) in fields
                n += 1
                key = "%s.%s" % (adt.split("::")[-1], name)
                ok = not crossed
                res.inst(key, where="%s:%s" % (g.file, g.line_of(bi, si)), reads_own_field=own, reads_sibling=crossed, ok=ok)
                res.oblige(ok)
                if not ok:
                    res.viol(key, "%s:%s" % (g.file, g.line_of(bi, si)),
                             "the rebuilt %s takes its field `%s` from the original's field `%s`: the branches of the action are crossed, "
                             "the layout chooses one branch and performs the other one's action" % (adt.split("::")[-1], name, crossed[0]))
    # ---- lists of inner actions (multi, tap-dance, switch cases) are rebuilt one for one
    import re as _re
    from rules.r_buildall import _stores, _skipping_path
    from rules.r_loopvar import loops_of
    CHANGING = ("Filter<", "FilterMap<", "Skip<", "Take<", "SkipWhile<", "TakeWhile<", "StepBy<", "Flatten<", "FlatMap<", "Chain<",
                "MapWhile<", "Scan<", "Rev<", "Cycle<", "Dedup")
    n_lists = 0
    for g in [f] + prog.closures_of(f):
        k = 0
        for bi, t in g.calls():
            short = (callee_name(t) or "").split("::")[-1]
            if short not in ("collect", "from_iter") or not t["args"]:
                continue
            a = t["args"][0]
            ty = (g.local_ty(a["l"]) if "l" in a and not a.get("p") else g.place_ty(a)) or ""
            bad = [c for c in CHANGING if c in ty]
            key = "list-rebuilt-one-for-one/collect%s" % ("#%d" % k if k else "")
            k += 1
            n_lists += 1
            res.inst(key, where="%s:%s" % (g.file, t.get("ln")), iterator=_re.sub(r"\{closure[^}]*\}", "{closure}", ty)[:120], ok=not bad)
            res.oblige(not bad)
            if bad:
                res.viol(key, "%s:%s" % (g.file, t.get("ln")),
                         "fill_chords rebuilds a list of inner actions / switch cases through a %s adaptor: the rebuilt list can be "
                         "shorter than (or ordered differently from) the original, so cases or actions that were configured silently "
                         "disappear from every action that contains a chord" % "/".join(x.rstrip("<") for x in bad))
        for li, lp in enumerate(loops_of(g)):
            for table, blocks in sorted(_stores(g, lp).items()):
                skip = _skipping_path(g, lp, blocks)
                key = "list-rebuilt-one-for-one/loop/%s" % table
                n_lists += 1
                res.inst(key, where="%s:%s" % (g.file, g.line_of(lp.h)), ok=skip is None)
                res.oblige(skip is None)
                if skip is not None:
                    res.viol(key, "%s:%s" % (g.file, g.line_of(lp.h)),
                             "the loop of fill_chords that rebuilds `%s` can go round without storing an item (branch lines %s): an inner "
                             "action / switch case of the original is dropped from the rebuilt action" % (table, skip))
    if n_lists < 4:
        res.viol("list-rebuilt-one-for-one/anchor", f.loc, "the list rebuilds of fill_chords (multi, tap-dance, switch) were not found (%d)" % n_lists)
    return res
