"""R-COUNTDOWN (C06, and every other count-down timer on the tick path): expiry is level-triggered.

kanata's timers are fields that a tick function counts down (`t = t.saturating_sub(1)`, `t -= 1`) and compares with
zero to decide that something expires (a one-shot is released, a held virtual key is let go, a macro delay ends).
Every such timer in the tree is written in one of two level-triggered shapes:

    t = t.saturating_sub(1); if t == 0 { expire }          (post-test: decrement, then look at the level)
    if t == 0 { expire; reload } else { t -= 1 }            (pre-test: look at the level, then decrement)

Both expire a timer that is *already* zero (set to zero by another path: `timeout = min(delay, timeout)` with a
zero delay, a zero written by a re-arm, a configured zero). The edge-triggered shape

    if t > 0 { t -= 1; if t == 0 { expire } }      (also: match t { 0 => no, n => { t = n - 1; t == 0 } }, checked_sub)

only notices the 1 -> 0 transition: a timer that is already zero never expires, and whatever waits for it (a
one-shot modifier, a held key) stays active for ever.

Rule. For every tick-path function F and field T with a decrement store D (`T = T - c` in any spelling: `-=`,
saturating_sub, `n - 1` with n bound to T): it is a violation if D is *conditional on a test of T* (a switch that
dominates D, whose operand's backward slice reads T, and that D does not post-dominate) and a *comparison of T is
made after D* (a comparison / switch reading T in a block dominated by D). The instances (F, T) are discovered
from the code; a floor keeps the discovery from going blind."""
from kq.analysis import backward_slice
from kq.core import callee_name, is_const, is_place, proj
from kq.gf2 import root_desc
from kq.report import RuleResult, norm_key
from rules.r_panic import RT_ROOTS, RT_STOP

DEC_CALLS = ("saturating_sub", "wrapping_sub", "checked_sub")
# timers for which zero is, by design, the "not armed" value: (function/field key) -> reason
DISARMED_AT_ZERO = {
    "kanata_state_machine::kanata::output_logic::zippychord::ZchDynamicState::zchd_tick/zchd_ticks_until_disable":
        "zero means that no chord deadline is pending (documented at the test); every arming site stores the configured deadline, "
        "and the state is reset to zero on enable / soft reset. Consequence (recorded, C20 is not claimed): a *configured* deadline "
        "of 0 (`on-first-press-chord-deadline 0` is accepted) arms nothing, i.e. means 'no deadline', not 'expires at once'",
}
CMP_OPS = ("Eq", "Ne", "Lt", "Le", "Gt", "Ge")


def _field_of(desc):
    return desc.split(".")[-1].split("@")[0] if desc else None


def _chase(f, op, depth=0):
    """follow copies of whole locals"""
    while depth < 8 and is_place(op) and not proj(op):
        dd = f.single_def(op["l"])
        if dd and dd[2] == "assign" and dd[3]["k"] == "use" and is_place(dd[3]["a"]):
            op = dd[3]["a"]
            depth += 1
        else:
            break
    return op


def _is_decrement_of(f, op, d):
    op = _chase(f, op)
    if not is_place(op):
        return False
    pr = proj(op)
    dd = f.single_def(op["l"])
    if dd is None:
        return False
    if pr:
        # `.0` of a checked subtraction, or the payload of checked_sub(..) == Some
        if dd[2] == "assign" and dd[3]["k"] == "bin" and dd[3]["op"] in ("SubWithOverflow", "Sub") and is_const(dd[3]["b"]) \
                and is_place(dd[3]["a"]) and root_desc(f, _chase(f, dd[3]["a"])) == d:
            return True
        if dd[2] == "call" and (callee_name(dd[3]) or "").split("::")[-1] == "checked_sub" and dd[3]["args"] \
                and is_place(dd[3]["args"][0]) and root_desc(f, _chase(f, dd[3]["args"][0])) == d:
            return True
        return False
    if dd[2] == "call" and (callee_name(dd[3]) or "").split("::")[-1] in ("saturating_sub", "wrapping_sub") \
            and len(dd[3]["args"]) == 2 and is_const(dd[3]["args"][1]) and is_place(dd[3]["args"][0]) \
            and root_desc(f, _chase(f, dd[3]["args"][0])) == d:
        return True
    if dd[2] == "assign" and dd[3]["k"] == "bin" and dd[3]["op"] in ("Sub", "SubUnchecked") and is_const(dd[3]["b"]) \
            and is_place(dd[3]["a"]) and root_desc(f, _chase(f, dd[3]["a"])) == d:
        return True
    return False


def decrements(f):
    """[(bb, idx, desc)] stores `T = T - c` (c > 0) to a field place"""
    out = []
    for bi, si, st in f.all_rvalues():
        if not proj(st["p"]):
            continue
        d = root_desc(f, st["p"])
        if not d or "." not in d:
            continue
        rv = st["rv"]
        hit = False
        if rv["k"] == "use" and is_place(rv["a"]):
            hit = _is_decrement_of(f, rv["a"], d)
        elif rv["k"] == "bin" and rv["op"] in ("Sub", "SubUnchecked") and is_const(rv["b"]) and is_place(rv["a"]) and root_desc(f, _chase(f, rv["a"])) == d:
            hit = True
        if hit:
            out.append((bi, si, d))
    return out


def reads_field(f, op, fld):
    fields, _c, _k = backward_slice(f, op, maxdepth=12)
    return any(x[1] == fld for x in fields)


def run(prog):
    res = RuleResult("R-COUNTDOWN", "count-down timers expire on their level (zero), not only on the 1 -> 0 transition", floor=15)
    reach = prog.reachable_from(RT_ROOTS, stop=RT_STOP)
    for nm in sorted(reach):
        for f in prog.by_norm.get(nm, []):
            if not f.crate.startswith("kanata") or f.derive:
                continue
            decs = decrements(f)
            if not decs:
                continue
            res.fn(f)
            pd = None
            seen = set()
            for (db, di, desc) in decs:
                fld = _field_of(desc)
                key = "%s/%s" % (norm_key(f.norm), desc.split(".", 1)[1] if "." in desc else desc)
                if key in seen:
                    continue
                seen.add(key)
                # tests of T that guard the decrement
                pre = []
                for b in sorted(f.reachable()):
                    if b == db or not f.dominates(b, db):
                        continue
                    t = f.term(b)
                    if t["k"] != "switch" or not is_place(t["d"]):
                        continue
                    if not reads_field(f, t["d"], fld):
                        continue
                    if pd is None:
                        pd = f.postdominators()
                    if f.postdominates(db, b, pd):
                        continue
                    pre.append(b)
                # comparisons of T after the decrement
                post = []
                for b in sorted(f.reachable()):
                    if not f.dominates(db, b):
                        continue
                    for si, st in enumerate(f.stmts(b)):
                        if st["k"] != "assign" or st["rv"]["k"] != "bin" or st["rv"]["op"] not in CMP_OPS:
                            continue
                        if b == db and si <= di:
                            continue
                        rv = st["rv"]
                        if (is_const(rv["b"]) and reads_field(f, rv["a"], fld)) or (is_const(rv["a"]) and reads_field(f, rv["b"], fld)):
                            post.append((b, f.line_of(b, si)))
                    t = f.term(b)
                    if b != db and t["k"] == "switch" and is_place(t["d"]) and t.get("dty") != "bool" and reads_field(f, t["d"], fld):
                        post.append((b, t.get("ln")))
                ok = not (pre and post)
                if not ok and key in DISARMED_AT_ZERO:
                    res.inst(key, where="%s:%s" % (f.file, f.line_of(db, di)), how="reviewed: " + DISARMED_AT_ZERO[key], ok=True)
                    res.oblige(True)
                    continue
                res.inst(key, where="%s:%s" % (f.file, f.line_of(db, di)), guarded_by_test_of_timer=bool(pre), compared_after_decrement=bool(post), ok=ok)
                res.oblige(ok)
                if not ok:
                    res.viol(key, "%s:%s" % (f.file, f.line_of(db, di)),
                             "the timer %s is decremented only when a test of its own value allows it (line %s) and compared again after the "
                             "decrement (line %s): expiry is noticed only on the transition to zero. A timer that is already zero when this "
                             "runs (set by another path, or configured as zero) never expires, so what waits for it stays active for ever"
                             % (fld, f.term(pre[0]).get("ln"), post[0][1]))
    return res


def rule_nowrap(prog):
    """R-NOWRAP (C05, C06, C07, C18): counters and timers of the run-time state never wrap around.

    Every timer / age / counter field that the tick path updates uses saturating or checked arithmetic: a timeout that
    has reached 0 stays 0 (and expires), an age that has reached its maximum stays there. `wrapping_sub(1)` on a timer
    that is already 0 (rapid-event-delay 0 sets the one-shot timeout to 0) gives 65535: the one-shot stays active for
    65 more seconds and modifies every key typed meanwhile. Rule: on the functions reachable from the event / tick
    roots, no value stored into a struct field derives from a `wrapping_*` / `overflowing_*` / `unchecked_*`
    operation. (The pinned tree has none at all; the arithmetic sites examined are counted as instances.)"""
    res = RuleResult("R-NOWRAP", "no run-time state field is updated with wrapping arithmetic", floor=30)
    reach = prog.reachable_from(RT_ROOTS, stop=RT_STOP)
    for n in sorted(reach):
        for f in prog.by_norm.get(n, []):
            if not f.crate.startswith("kanata") or f.derive:
                continue
            k = 0
            for bi, t in f.calls():
                short = (callee_name(t) or "").split("::")[-1]
                cn = callee_name(t) or ""
                if not cn.startswith("core::num::"):
                    continue
                arith = short.split("_")[0] in ("saturating", "checked", "wrapping", "overflowing", "unchecked") and \
                    short.split("_")[-1] in ("add", "sub", "mul", "neg", "shl", "shr")
                if not arith:
                    continue
                bad = short.split("_")[0] in ("wrapping", "overflowing", "unchecked")
                if bad:
                    # only a result that becomes run-time state counts (a hash or a checksum may wrap as it likes): the
                    # destination is a field, or a local that is copied into a field / returned to a caller
                    d = t["dest"]
                    into_state = bool(proj(d))
                    if not into_state:
                        for b2 in f.reachable():
                            for st in f.stmts(b2):
                                if st["k"] == "assign" and st["rv"]["k"] == "use" and is_place(st["rv"]["a"]) and not proj(st["rv"]["a"]) \
                                        and st["rv"]["a"]["l"] == d["l"] and (proj(st["p"]) or st["p"]["l"] == 0):
                                    into_state = True
                    bad = into_state
                key = "%s/%s%s" % (f.norm.split("::{closure")[0].split("::")[-1], short, "#%d" % k if k else "")
                k += 1
                res.fn(f)
                res.inst(key, where="%s:%s" % (f.file, t.get("ln")), ok=not bad)
                res.oblige(not bad)
                if bad:
                    res.viol(key, "%s:%s" % (f.file, t.get("ln")),
                             "%s updates run-time state with `%s`: a timer that is already 0 (or an age at its maximum) wraps round "
                             "instead of staying there - a one-shot whose timeout was set to 0 stays active for 65535 more ticks, an "
                             "old key looks recent again" % (f.norm.split("::")[-1], short))
    return res
