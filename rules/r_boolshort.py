"""R-BOOL-SHORTCUT (C10): the two short-circuit decisions of the switch evaluator agree, and match the operators' meaning.

`evaluate_boolean` (keyberon/src/action/switch.rs) decides in two places whether the rest of an `and` / `or` / `not`
group can be skipped: after a *leaf* operand was evaluated, and after a *nested group* ended and its parent was popped
from the operator stack. Both implement the same function of (operator of the group, value of the operand):

    or  + true  -> group is true,  skip the rest          and + false -> group is false, skip the rest
    not + true  -> group is false, skip the rest          anything else -> go on with the next operand

They are written differently (one negates for `not` before its test, the other after), so a one-sided edit - dropping
`Not` from one `matches!`, or moving both tests into one helper without accounting for the negation order - leaves each
looking plausible while `(not (or a b) c)` is no longer decided by `(or a b)`.

Rule: abstract evaluation of the MIR over the finite domain {or, and, not} x {true, false}. Booleans, the operator
enum, tuples of them, `!`, `==` / `!=` on the operator, `matches!` switches and calls of keyberon helper functions whose
arguments are known (evaluated the same way, to the set of values they can return) are interpreted; every other
branch is followed both ways. A *site* is a statement `current_index = current_end_index` (the skip); its entry is the
earliest point from which every path to it is interpretable, i.e. lies after the last opaque definition of `ret` /
`current_op` (the popped operator, the leaf's value). For each of the six inputs the two sites must agree on (a)
whether skipping is *forced* (every path skips) and (b) the value of the group when it is; and both must match the
truth table above."""
from kq.core import callee_name, callee_written, is_const, is_place, norm_name, proj
from kq.analysis import _promoted_variant
from kq.report import RuleResult

FN = "kanata_keyberon::action::switch::evaluate_boolean"
OP = "kanata_keyberon::action::switch::BooleanOperator"


def _tupidx(p):
    pr = proj(p)
    if len(pr) == 1 and isinstance(pr[0], dict) and pr[0].get("tup"):
        return pr[0]["i"]
    return None


class Abs:
    def __init__(self, prog):
        self.prog = prog
        self.variants = prog.enum_variants(OP)          # discr -> name
        self.discr = {v: k for k, v in self.variants.items()}
        self.depth = 0

    def val(self, f, env, o):
        if is_const(o):
            c = o["c"]
            if c.get("ty") == "bool" and c.get("v") in (0, 1):
                return ("b", c["v"])
            pv = _promoted_variant(f, o, OP)
            return ("e", pv) if pv else None
        if not is_place(o):
            return None
        pr = proj(o)
        if not pr:
            return env.get(o["l"])
        ti = _tupidx(o)
        if ti is not None:
            return env.get((o["l"], ti))
        return None

    def deref_val(self, f, env, o):
        """value behind a `&x` temporary (or the value itself)"""
        if is_place(o) and not proj(o):
            if o["l"] in env:
                return env[o["l"]]
            d = f.single_def(o["l"])
            if d and d[2] == "assign" and d[3]["k"] == "ref":
                p = d[3]["p"]
                if not proj(p):
                    return env.get(p["l"])
                if proj(p) == ["*"]:
                    d2 = f.single_def(p["l"])
                    if d2 and d2[2] == "assign" and d2[3]["k"] == "use":
                        return self.val(f, env, d2[3]["a"])
                    return env.get(p["l"])
        if is_const(o):
            return self.val(f, env, o)
        return None

    def assign(self, f, env, s):
        p, rv = s["p"], s["rv"]
        if proj(p):
            return
        l = p["l"]
        new = {}
        if rv["k"] == "use":
            x = self.val(f, env, rv["a"])
            if x is not None:
                new[l] = x
            elif is_place(rv["a"]) and not proj(rv["a"]):
                for k in [k for k in env if isinstance(k, tuple) and k[0] == rv["a"]["l"]]:
                    new[(l, k[1])] = env[k]          # a tuple moved as a whole
        elif rv["k"] == "un" and rv.get("op") == "Not":
            x = self.val(f, env, rv["a"])
            if x is not None and x[0] == "b":
                new[l] = ("b", 1 - x[1])
        elif rv["k"] == "agg" and rv.get("tup"):
            for i, o in enumerate(rv["ops"]):
                x = self.val(f, env, o)
                if x is not None:
                    new[(l, i)] = x
        elif rv["k"] == "agg" and rv.get("adt") == OP:
            new[l] = ("e", rv.get("v"))
        elif rv["k"] == "discr":
            x = self.val(f, env, rv["p"])
            if x is not None and x[0] == "e":
                new[l] = ("d", self.discr[x[1]])
        for k in [k for k in env if k == l or (isinstance(k, tuple) and k[0] == l)]:
            del env[k]
        env.update(new)

    def call(self, f, env, t):
        """abstract result of a call: a value, or None when it is not interpretable"""
        cn = callee_written(t) or ""
        if cn in ("core::cmp::PartialEq::eq", "core::cmp::PartialEq::ne") and len(t["args"]) == 2:
            a, b_ = self.deref_val(f, env, t["args"][0]), self.deref_val(f, env, t["args"][1])
            if a is not None and b_ is not None and a[0] == "e" and b_[0] == "e":
                eq = a[1] == b_[1]
                return ("b", int(eq if cn.endswith("::eq") else not eq))
            return None
        g = self.prog.fn_opt(norm_name(callee_name(t) or ""))
        if g is None or g.crate != "kanata_keyberon" or self.depth >= 3:
            return None
        if "bool" != (g.local_ty(0) or ""):
            return None
        args = [self.deref_val(f, env, a) for a in t["args"]]
        if any(a is None for a in args):
            return None
        self.depth += 1
        try:
            env0 = {i + 1: a for i, a in enumerate(args)}
            outs = self.explore(g, 0, 0, env0, stop=lambda f_, b, si, s, env_: None, collect_ret=True)
        finally:
            self.depth -= 1
        vals = {x for k, x in outs if k == "ret"}
        if len(vals) == 1 and all(k == "ret" for k, _ in outs):
            v = vals.pop()
            return ("b", v) if v in (0, 1) else None
        return None

    def explore(self, f, entry, first_stmt, env0, stop, collect_ret=False, limit=600, watch=None):
        """paths from (entry, first_stmt). `stop(f, block, stmt index, stmt, env)` may return an outcome kind for an
        assignment (the path ends there). Outcomes: (kind, value of the watched local / returned value)."""
        out, seen = set(), set()
        st = [(entry, frozenset(env0.items()), True)]
        while st and limit > 0:
            limit -= 1
            b, fenv, first = st.pop()
            if (b, fenv, first) in seen:
                continue
            seen.add((b, fenv, first))
            env = dict(fenv)
            done = None
            for si_, s in enumerate(f.stmts(b)):
                if first and si_ < first_stmt:
                    continue
                if s["k"] != "assign":
                    continue
                k = stop(f, b, si_, s, env)
                if k is not None:
                    done = k
                    break
                self.assign(f, env, s)
            w = (env.get(watch, (None, None))[1]) if watch is not None else None
            if done is not None:
                out.add((done, w))
                continue
            t = f.term(b)
            succs = [s_ for s_ in f.succs(b) if not f.is_cleanup(s_)]
            if t["k"] == "call":
                d = t["dest"]
                x = self.call(f, env, t)
                if not proj(d):
                    for k in [k for k in env if k == d["l"] or (isinstance(k, tuple) and k[0] == d["l"])]:
                        del env[k]
                    if x is not None:
                        env[d["l"]] = x
                if x is None:
                    out.add(("next", w))          # an opaque call: the evaluator went on to something else
                    continue
            elif t["k"] == "switch":
                x = self.val(f, env, t["d"])
                if x is not None and x[0] in ("b", "d"):
                    tgt = None
                    for val_, tb in t["ts"]:
                        if val_ == x[1]:
                            tgt = tb
                    succs = [tgt if tgt is not None else t["o"]]
            elif t["k"] == "return":
                if collect_ret:
                    r = env.get(0)
                    out.add(("ret", r[1] if r is not None and r[0] == "b" else None))
                else:
                    out.add(("next", w))
                continue
            if not succs:
                out.add(("next", w))
                continue
            fe = frozenset(env.items())
            for s_ in succs:
                st.append((s_, fe, False))
        if limit <= 0:
            out.add(("limit", None))
        return out


def _is_end_copy(f, rv, end):
    src = rv.get("a") if rv["k"] == "use" else None
    if src is None or not is_place(src) or proj(src):
        return False
    if src["l"] == end:
        return True
    d = f.single_def(src["l"])
    return bool(d and d[2] == "assign" and d[3]["k"] == "use" and is_place(d[3]["a"]) and not proj(d[3]["a"]) and d[3]["a"]["l"] == end)


def run(prog):
    res = RuleResult("R-BOOL-SHORTCUT", "the leaf-level and the group-level short-circuit tests of evaluate_boolean agree on all six cases", floor=6)
    f = prog.fn_opt(FN)
    if f is None:
        res.viol("anchor", "keyberon/src/action/switch.rs", "evaluate_boolean not found")
        return res
    res.fn(f)
    byname = {}
    for l in range(1, 400):
        try:
            n = f.local_name(l)
        except Exception:
            break
        if n and n not in byname:
            byname[n] = l
    need = ("ret", "current_op", "current_index", "current_end_index")
    if any(n not in byname for n in need):
        res.viol("anchor/locals", f.loc, "evaluate_boolean: locals %s not all found (%s)" % (need, sorted(byname)[:12]))
        return res
    ret, op, idx, end = (byname[n] for n in need)
    ab = Abs(prog)

    # ---- sites: the statements `current_index = current_end_index`
    skips = []
    for b in sorted(f.reachable()):
        for si, s in enumerate(f.stmts(b)):
            if s["k"] == "assign" and not proj(s["p"]) and s["p"]["l"] == idx and _is_end_copy(f, s["rv"], end):
                skips.append((b, si))
    if len(skips) != 2:
        res.inst("sites", where=f.loc, ok=False)
        res.viol("anchor/sites", f.loc, "expected two statements `current_index = current_end_index` in evaluate_boolean, found %d" % len(skips))
        return res

    def opaque_def(b, si_to=None):
        """index of the last statement ('T' for the terminator) of block b that gives ret / current_op an opaque value"""
        last = None
        for si, s in enumerate(f.stmts(b)):
            if si_to is not None and si >= si_to:
                break
            if s["k"] == "assign" and not proj(s["p"]) and s["p"]["l"] in (ret, op):
                rv = s["rv"]
                ok = (rv["k"] == "un" and rv.get("op") == "Not") or (rv["k"] == "use" and is_const(rv["a"])) or \
                     (rv["k"] == "agg" and rv.get("adt") == OP)
                if rv["k"] == "use" and is_place(rv["a"]) and not proj(rv["a"]):
                    d = f.single_def(rv["a"]["l"])
                    if d and d[2] == "assign" and d[3]["k"] == "un":
                        ok = True          # ret = move tmp, tmp = !ret
                if not ok:
                    last = si
        t = f.term(b)
        if si_to is None and t["k"] == "call" and not proj(t["dest"]) and t["dest"]["l"] in (ret, op):
            last = "T"
        return last

    reach_to = {}

    def can_reach(x, target):
        if target not in reach_to:
            # backward reachability
            seen, st = set(), [target]
            while st:
                y = st.pop()
                if y in seen:
                    continue
                seen.add(y)
                st.extend(f.preds(y))
            reach_to[target] = seen
        return x in reach_to[target]
    entries = []
    for (sb, ssi) in skips:
        o = opaque_def(sb, ssi)
        if o is not None:
            entries.append((sb, o + 1))
            continue
        entry, cur = (sb, 0), sb
        for _ in range(80):
            cands = [p for p in f.reachable() if p != cur and f.dominates(p, cur) and all(f.dominates(q, p) or not f.dominates(q, cur) or q == p
                                                                                               for q in f.reachable() if q != cur and f.dominates(q, cur))]
            # immediate dominator = the dominator of cur that every other dominator of cur dominates
            idom = None
            ds = [p for p in f.reachable() if p != cur and f.dominates(p, cur)]
            for p in ds:
                if all(f.dominates(q, p) for q in ds):
                    idom = p
            if idom is None:
                break
            # blocks on a path idom -> skip that does not come back through idom (one iteration of the evaluator loop)
            back, stb = set(), [sb]
            while stb:
                y = stb.pop()
                if y in back or y == idom:
                    continue
                back.add(y)
                stb.extend(f.preds(y))
            between = (f.reach_from(idom, avoid=[sb]) & back) - {idom, sb}
            if any(opaque_def(x) is not None for x in between):
                break
            o = opaque_def(idom)
            if o == "T":
                break
            if o is not None:
                entry = (idom, o + 1)
                break
            entry, cur = (idom, 0), idom
        entries.append(entry)
    order = sorted(range(2), key=lambda i: f.line_of(skips[i][0], skips[i][1]))
    names = {order[0]: "after-nested-group", order[1]: "after-leaf"}
    variants = list(prog.enum_variants(OP).values())

    def stop_at(skip):
        def stop(f_, b, si, s, env):
            if f_ is f and not proj(s["p"]) and s["p"]["l"] == idx:
                return "skip" if (b, si) == skip else "next"
            return None
        return stop
    table = {}
    for i in range(2):
        (eb, esi) = entries[i]
        for v in variants:
            for r in (1, 0):
                outs = ab.explore(f, eb, esi, {ret: ("b", r), op: ("e", v)}, stop_at(skips[i]), watch=ret)
                kinds = {k for k, _ in outs}
                forced = kinds == {"skip"}
                vals = sorted({x for k, x in outs if k == "skip" and x is not None})
                table[(i, v, r)] = (forced, vals if forced else None, sorted(outs, key=str))
    res.notes.append("site entries: %s" % {names[i]: "bb%d:%d (line %s)" % (entries[i][0], entries[i][1], f.line_of(entries[i][0])) for i in range(2)})
    for v in variants:
        for r in (1, 0):
            a, b = table[(order[0], v, r)], table[(order[1], v, r)]
            na, nb = names[order[0]], names[order[1]]
            lim = ("limit", None) in a[2] or ("limit", None) in b[2]
            ok = a[0] == b[0] and a[1] == b[1] and not lim
            key = "%s/%s" % (v, "true" if r else "false")
            res.inst(key, where=f.loc, after_nested_group="skip, group=%s" % a[1] if a[0] else "not forced",
                     after_leaf="skip, group=%s" % b[1] if b[0] else "not forced", ok=ok)
            res.oblige(ok)
            want = {("Or", 1): (True, [1]), ("And", 0): (True, [0]), ("Not", 1): (True, [0])}.get((v, r), (False, None))
            for nm_, got, sk in ((na, a, skips[order[0]]), (nb, b, skips[order[1]])):
                okt = (got[0], got[1]) == want
                res.oblige(okt)
                if not okt and ok:
                    res.viol(key + "/table/" + nm_, "%s:%s" % (f.file, f.line_of(sk[0], sk[1])),
                             "operator `%s`, operand value %s: the short-circuit test %s gives %s; the meaning of the operator requires %s"
                             % (v, bool(r), nm_, ("skip with group value %s" % got[1]) if got[0] else "no forced skip",
                                ("skip with group value %s" % want[1]) if want[0] else "no forced skip (later operands still count)"))
            if not ok:
                sa, sb_ = skips[order[0]], skips[order[1]]
                res.viol(key, "%s:%s" % (f.file, f.line_of(sa[0], sa[1])),
                         "operator `%s`, operand value %s: the short-circuit test %s (skip at line %s) gives %s but the test %s (skip at line %s) "
                         "gives %s. Both must skip the rest of the group in the same cases (or+true, and+false, not+true) with the same group "
                         "value: as it is, a nested list inside `%s` is treated differently from a plain key in the same position"
                         % (v, bool(r), na, f.line_of(sa[0], sa[1]), ("skip with group value %s" % a[1]) if a[0] else "no forced skip",
                            nb, f.line_of(sb_[0], sb_[1]), ("skip with group value %s" % b[1]) if b[0] else "no forced skip", v.lower()))
    return res
