"""R-BOOL-SHORTCUT (C10): the two short-circuit decisions of the switch evaluator agree.

`evaluate_boolean` (keyberon/src/action/switch.rs) decides in two places whether the rest of an `and` / `or` / `not`
group can be skipped: after a *leaf* operand was evaluated, and after a *nested group* ended and its parent was popped
from the operator stack. Both implement the same function of (operator of the group, value of the operand):

    or  + true  -> group is true,  skip the rest          and + false -> group is false, skip the rest
    not + true  -> group is false, skip the rest          anything else -> go on with the next operand

They are written differently (one negates for `not` before its test, the other after), so a one-sided edit - dropping
`Not` from one `matches!` - leaves each looking plausible while `(not (or a b) c)` is no longer decided by `(or a b)`.

Rule: abstract evaluation of the MIR of both sites over the finite domain {or, and, not} x {true, false}: booleans,
the operator enum, tuples of them, `!`, `==` on the operator, and `matches!` switches are interpreted; every other
branch is followed both ways. For each of the six inputs the sites must agree on (a) whether skipping is *forced* (every
path skips) and (b) the value of the group when it is."""
from kq.core import Resolver, callee_written, is_const, is_place, proj
from kq.analysis import _promoted_variant
from kq.report import RuleResult

FN = "kanata_keyberon::action::switch::evaluate_boolean"
OP = "kanata_keyberon::action::switch::BooleanOperator"


def _tupidx(p):
    pr = proj(p)
    if len(pr) == 1 and isinstance(pr[0], dict) and pr[0].get("tup"):
        return pr[0]["i"]
    return None


class Site:
    def __init__(self, prog, f, names):
        self.prog, self.f = prog, f
        self.ret, self.op, self.idx, self.end = names
        self.variants = prog.enum_variants(OP)          # discr -> name
        self.discr = {v: k for k, v in self.variants.items()}
        self.R = Resolver(f)

    def val(self, env, o):
        if is_const(o):
            c = o["c"]
            if c.get("ty") == "bool" and c.get("v") in (0, 1):
                return ("b", c["v"])
            pv = _promoted_variant(self.f, o, OP)
            return ("e", pv) if pv else None
        if not is_place(o):
            return None
        pr = proj(o)
        if not pr:
            return env.get(o["l"])
        ti = _tupidx(o)
        if ti is not None:
            return env.get((o["l"], ti))
        return None

    def deref_val(self, env, o):
        """value behind a `&x` temporary"""
        if is_place(o) and not proj(o):
            d = self.f.single_def(o["l"])
            if d and d[2] == "assign" and d[3]["k"] == "ref":
                p = d[3]["p"]
                if not proj(p):
                    return env.get(p["l"])
                if proj(p) == ["*"]:
                    d2 = self.f.single_def(p["l"])
                    if d2 and d2[2] == "assign" and d2[3]["k"] == "use":
                        return self.val(env, d2[3]["a"])
        return None

    def run(self, entry, v, r, limit=400, first_stmt=0):
        """outcomes {(kind, ret value)}: kind 'skip' = current_index set to current_end_index, 'next' = anything else"""
        f = self.f
        out = set()
        seen = set()
        st0 = frozenset({self.ret: ("b", r), self.op: ("e", v)}.items())
        st = [(entry, st0)]
        while st and limit > 0:
            limit -= 1
            b, fenv = st.pop()
            if (b, fenv) in seen:
                continue
            seen.add((b, fenv))
            env = dict(fenv)
            done = None
            for si_, s in enumerate(f.stmts(b)):
                if b == entry and si_ < first_stmt and fenv == st0:
                    continue
                if s["k"] != "assign":
                    continue
                p, rv = s["p"], s["rv"]
                if proj(p):
                    continue
                l = p["l"]
                if l == self.idx:
                    src = rv.get("a") if rv["k"] == "use" else None
                    # current_index = current_end_index (possibly through a temporary)
                    isend = False
                    if src is not None and is_place(src) and not proj(src):
                        if src["l"] == self.end:
                            isend = True
                        else:
                            d = f.single_def(src["l"])
                            isend = bool(d and d[2] == "assign" and d[3]["k"] == "use" and is_place(d[3]["a"]) and not proj(d[3]["a"]) and d[3]["a"]["l"] == self.end)
                    done = "skip" if isend else "next"
                    break
                for k in [k for k in env if k == l or (isinstance(k, tuple) and k[0] == l)]:
                    del env[k]
                if rv["k"] == "use":
                    x = self.val(env, rv["a"])
                    if x is not None:
                        env[l] = x
                elif rv["k"] == "un" and rv.get("op") == "Not":
                    x = self.val(env, rv["a"])
                    if x is not None and x[0] == "b":
                        env[l] = ("b", 1 - x[1])
                elif rv["k"] == "agg" and rv.get("tup"):
                    for i, o in enumerate(rv["ops"]):
                        x = self.val(env, o)
                        if x is not None:
                            env[(l, i)] = x
                elif rv["k"] == "discr":
                    x = self.val(env, rv["p"])
                    if x is not None and x[0] == "e":
                        env[l] = ("d", self.discr[x[1]])
            if done is not None:
                out.add((done, env.get(self.ret, (None, None))[1]))
                continue
            t = f.term(b)
            succs = [s_ for s_ in f.succs(b) if not f.is_cleanup(s_)]
            if t["k"] == "call":
                d = t["dest"]
                if not proj(d):
                    for k in [k for k in env if k == d["l"] or (isinstance(k, tuple) and k[0] == d["l"])]:
                        del env[k]
                    cn = callee_written(t) or ""
                    if cn in ("core::cmp::PartialEq::eq", "core::cmp::PartialEq::ne") and len(t["args"]) == 2:
                        a, b_ = self.deref_val(env, t["args"][0]), self.deref_val(env, t["args"][1])
                        if a is not None and b_ is not None and a[0] == "e" and b_[0] == "e":
                            eq = a[1] == b_[1]
                            env[d["l"]] = ("b", int(eq if cn.endswith("::eq") else not eq))
                    elif cn.split("::")[-1] not in ("eq", "ne"):
                        # any other call ends the site: the evaluator went on to something else
                        if f.term(b).get("ln") and False:
                            pass
                if (callee_written(t) or "").split("::")[-1] not in ("eq", "ne"):
                    out.add(("next", env.get(self.ret, (None, None))[1]))
                    continue
            if t["k"] == "switch":
                x = self.val(env, t["d"])
                if x is not None and x[0] in ("b", "d"):
                    tgt = None
                    for val_, tb in t["ts"]:
                        if val_ == x[1]:
                            tgt = tb
                    succs = [tgt if tgt is not None else t["o"]]
            elif t["k"] == "return" or not succs:
                out.add(("next", env.get(self.ret, (None, None))[1]))
                continue
            fe = frozenset(env.items())
            for s_ in succs:
                st.append((s_, fe))
        if limit <= 0:
            out.add(("limit", None))
        return out


def run(prog):
    res = RuleResult("R-BOOL-SHORTCUT", "the leaf-level and the group-level short-circuit tests of evaluate_boolean agree on all six cases", floor=6)
    f = prog.fn_opt(FN)
    if f is None:
        res.viol("anchor", "keyberon/src/action/switch.rs", "evaluate_boolean not found")
        return res
    res.fn(f)
    byname = {}
    for l in range(1, 400):
        try:
            n = f.local_name(l)
        except Exception:
            break
        if n and n not in byname:
            byname[n] = l
    need = ("ret", "current_op", "current_index", "current_end_index")
    if any(n not in byname for n in need):
        res.viol("anchor/locals", f.loc, "evaluate_boolean: locals %s not all found (%s)" % (need, sorted(byname)[:12]))
        return res
    ret, op, idx, end = (byname[n] for n in need)
    site = Site(prog, f, (ret, op, idx, end))
    # a site = a `matches!((ret, current_op), ..)`: the block that builds the tuple; its entry is that block or, when the
    # `current_op == Not` negation comes first (dominates it and nothing else of interest lies between), the block of that test
    tuples = []
    for b in sorted(f.reachable()):
        for s in f.stmts(b):
            if s["k"] == "assign" and s["rv"]["k"] == "agg" and s["rv"].get("tup") and len(s["rv"]["ops"]) == 2:
                srcs = []
                for o in s["rv"]["ops"]:
                    if is_place(o) and not proj(o):
                        d = f.single_def(o["l"])
                        if d and d[2] == "assign" and d[3]["k"] == "use" and is_place(d[3]["a"]) and not proj(d[3]["a"]):
                            srcs.append(d[3]["a"]["l"])
                if srcs == [ret, op]:
                    first = min(i for i, s2 in enumerate(f.stmts(b)) if s2["k"] == "assign" and not proj(s2["p"])
                                and s2["p"]["l"] in [o["l"] for o in s["rv"]["ops"]])
                    tuples.append((b, first))
    if len(tuples) != 2:
        res.viol("anchor/sites", f.loc, "expected two `matches!((ret, current_op), ..)` tests in evaluate_boolean, found %d" % len(tuples))
        return res
    entries, firsts = [], []
    for tb, first in tuples:
        entry = tb
        # walk back over straight-line predecessors / the diamond of `if current_op == Not { ret = !ret }`
        cur = tb
        for _ in range(6):
            ps = [p for p in f.preds(cur) if not f.is_cleanup(p)]
            if len(ps) == 2 and all(len(f.succs(p)) == 1 for p in ps):
                heads = set()
                for p in ps:
                    heads |= set(f.preds(p))
                if len(heads) == 1:
                    h = heads.pop()
                    hp = f.preds(h)
                    if f.term(h)["k"] == "switch" and len(hp) == 1 and f.term(hp[0])["k"] == "call" and \
                            (callee_written(f.term(hp[0])) or "").endswith("PartialEq::eq"):
                        entry, first = hp[0], 0
                break
            if len(ps) != 1:
                break
            cur = ps[0]
        entries.append(entry)
        firsts.append(first)
    names = ["after-nested-group" if f.line_of(e) < f.line_of(entries[1 - i]) else "after-leaf" for i, e in enumerate(entries)]
    variants = list(prog.enum_variants(OP).values())
    table = {}
    for e, nm, fs in zip(entries, names, firsts):
        for v in variants:
            for r in (1, 0):
                outs = site.run(e, v, r, first_stmt=fs)
                kinds = {k for k, _ in outs}
                forced = kinds == {"skip"}
                vals = sorted({x for k, x in outs if k == "skip" and x is not None})
                table[(nm, v, r)] = (forced, vals if forced else None, sorted(outs, key=str))
    for v in variants:
        for r in (1, 0):
            a = table[(names[0], v, r)]
            b = table[(names[1], v, r)]
            ok = a[0] == b[0] and a[1] == b[1] and ("limit", None) not in a[2] and ("limit", None) not in b[2]
            key = "%s/%s" % (v, "true" if r else "false")
            res.inst(key, where=f.loc, **{names[0].replace("-", "_"): "skip, group=%s" % a[1] if a[0] else "not forced",
                                          names[1].replace("-", "_"): "skip, group=%s" % b[1] if b[0] else "not forced"}, ok=ok)
            res.oblige(ok)
            # the meaning of or / and / not fixes the table itself, not only the agreement
            want = {("Or", 1): (True, [1]), ("And", 0): (True, [0]), ("Not", 1): (True, [0])}.get((v, r), (False, None))
            for nm_, got, e_ in ((names[0], a, entries[0]), (names[1], b, entries[1])):
                okt = (got[0], got[1]) == want
                res.oblige(okt)
                if not okt and ok:
                    res.viol(key + "/table/" + nm_, "%s:%s" % (f.file, f.line_of(e_)),
                             "operator `%s`, operand value %s: the short-circuit test %s gives %s; the meaning of the operator requires %s"
                             % (v, bool(r), nm_, ("skip with group value %s" % got[1]) if got[0] else "no forced skip",
                                ("skip with group value %s" % want[1]) if want[0] else "no forced skip (later operands still count)"))
            if not ok:
                res.viol(key, "%s:%s" % (f.file, f.line_of(entries[0])),
                         "operator `%s`, operand value %s: the short-circuit test %s (line %s) gives %s but the test %s (line %s) gives %s. "
                         "Both must skip the rest of the group in the same cases (or+true, and+false, not+true) with the same group value: "
                         "as it is, a nested list inside `%s` is treated differently from a plain key in the same position"
                         % (v, bool(r), names[0], f.line_of(entries[0]), ("skip with group value %s" % a[1]) if a[0] else "no forced skip",
                            names[1], f.line_of(entries[1]), ("skip with group value %s" % b[1]) if b[0] else "no forced skip", v.lower()))
    return res
