"""R-STICKY (C16 and every accumulating flag): a flag that accumulates over a loop is not overwritten in it.

Many loops in kanata answer "did anything in this collection ..." with a bool that is set (`x = true`) or OR-ed
(`x |= f(item)`) per item. If another statement of the same loop overwrites the flag with a fresh, non-constant
value (`x = f(item)`), the answer only reflects the last item: e.g. evaluate_conditionals forgets that an earlier
sibling list changed and template expansion stops one pass early, leaving `(if-equal ..)` in the output.

Contradiction rule (no table): inside one loop, a named bool local that has an accumulating assignment
(`x = true`, or `x = x | v`) must not also have an assignment of a non-constant value that does not depend on x.
Constant assignments (`x = false`) are deliberate resets and are not flagged.

Majority rule (reviewed minority): of the named bools that are declared outside a loop and assigned inside it, all
but the ones listed in OVERWRITTEN_BY_DESIGN are only set to constants or accumulated. A bool outside that list
which is overwritten in a loop with a fresh non-constant value makes the loop's result depend on the last item only;
it is reported."""
from kq.analysis import backward_slice
from kq.core import is_const, is_place, proj
from kq.report import RuleResult, norm_key
from rules.r_loopvar import loops_of


OVERWRITTEN_BY_DESIGN = {
    "kanata_keyberon::action::switch::evaluate_boolean/ret": "the evaluation register of the boolean expression machine: each operand "
                                                             "overwrites it, the operators combine it through short-circuit jumps",
    "kanata_parser::cfg::parse_sequence_keys/do_release_mod": "look-ahead carried to the next event by design (release->release: the next release is a modifier)",
}


def _depends_on(f, op, l, depth=0):
    if depth > 10 or not is_place(op):
        return False
    if op["l"] == l:
        return True
    for d in f.defs().get(op["l"], []):
        if d[2] == "assign":
            from kq.core import rvalue_operands
            if any(_depends_on(f, x, l, depth + 1) for x in rvalue_operands(d[3])):
                return True
    return False


def run(prog):
    res = RuleResult("R-STICKY", "a bool that accumulates over a loop (`= true`, `|=`) is not overwritten with a fresh value in the same loop", floor=12)
    for f in prog.fns.values():
        if not f.crate.startswith("kanata") or f.derive:
            continue
        lps = None
        for l, ds in f.defs().items():
            if f.local_ty(l) != "bool" or not f.local_name(l) or len(ds) < 2:
                continue
            # `val` / `residual`: the bindings the `?` operator expands to are not variables of the program
            def _try_binding(rv):
                return rv["k"] == "use" and is_place(rv["a"]) and any(isinstance(e, dict) and e.get("dc") == "Continue" for e in proj(rv["a"]))
            if any(d[2] == "assign" for d in ds) and all(_try_binding(d[3]) for d in ds if d[2] == "assign"):
                continue
            if lps is None:
                lps = loops_of(f)
            if not lps:
                break
            for lp in lps:
                acc, over = [], []
                for (bb, idx, kind, payload) in ds:
                    if bb not in lp.body or kind != "assign":
                        continue
                    rv = payload
                    if rv["k"] == "use" and is_const(rv["a"]):
                        if rv["a"]["c"].get("v") in (1, True):
                            acc.append((bb, idx))
                        continue
                    if rv["k"] == "bin" and rv["op"] == "BitOr" and (_depends_on(f, rv["a"], l) or _depends_on(f, rv["b"], l)):
                        acc.append((bb, idx))
                        continue
                    from kq.core import rvalue_operands
                    if any(_depends_on(f, x, l) for x in rvalue_operands(rv)):
                        continue
                    over.append((bb, idx))
                key = "%s/%s" % (norm_key(f.norm), f.local_name(l))
                # declared (initialised) before the loop: a definition outside the body from which the loop is entered. A
                # definition on a path that has left the loop for good (e.g. the copy of a `?` binding in a duplicated exit
                # path, kq/inline.py) is not a declaration of a variable the loop accumulates into.
                declared_outside = any(d[0] not in lp.body and lp.h in f.reach_from(d[0]) for d in ds)
                if not acc and not (over and declared_outside):
                    continue
                if not acc and key in OVERWRITTEN_BY_DESIGN:
                    res.fn(f)
                    res.inst(key, where="%s:%s" % (f.file, f.line_of(*over[0])), how="reviewed: " + OVERWRITTEN_BY_DESIGN[key], ok=True)
                    res.oblige(True)
                    break
                # a variable without a definition before the loop is a per-iteration `let` (`let send = if a { f() } else { true };`):
                # nothing carries over from one iteration to the next, so nothing can be lost
                ok = not (over and declared_outside)
                res.fn(f)
                res.inst(key, where="%s:%s" % (f.file, f.line_of(*(acc or over)[0])), accumulating=len(acc), overwriting=len(over), ok=ok)
                res.oblige(ok)
                if not ok:
                    res.viol(key, "%s:%s" % (f.file, f.line_of(*over[0])),
                             "the flag `%s` is declared outside the loop%s but is overwritten inside it with a fresh value at line %s: "
                             "what earlier iterations found is lost, only the last item counts"
                             % (f.local_name(l), (" and accumulates at line %s" % f.line_of(*acc[0])) if acc else "", f.line_of(*over[0])))
                break
    return res
