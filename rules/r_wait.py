"""C05 rules over keyberon::layout.
R-WAIT   a consumed decision cannot be taken twice (slot cleared before do_action); the action performed
         by waiting_into_X comes from field X of the waiting state; tick and process_extra_waitings
         dispatch WaitingAction identically.
R-WAIT-OUTCOME  in handle_hold_tap, Hold is produced only by a per-variant early trigger; the common
         release-vs-timeout tail produces only Tap / Timeout.
R-GATE   the input queue is not dequeued while a decision is pending or input processing is paused.
"""
import re

from kq.analysis import backward_slice, blocks_calling, discr_switches
from kq.core import callee_name, callee_written, is_place, proj_fields
from kq.report import RuleResult
from rules.r_doaction import receiver_fields

L = "kanata_keyberon::layout::Layout::"
WS = "kanata_keyberon::layout::WaitingState"
WA = "kanata_keyberon::layout::WaitingAction"
LAYOUT = "kanata_keyberon::layout::Layout"


def rule_wait(prog):
    res = RuleResult("R-WAIT", "waiting state is consumed exactly once and performs its own outcome's action", floor=9)
    expect = {"waiting_into_hold": "hold", "waiting_into_tap": "tap", "waiting_into_timeout": "timeout_action"}
    for fn_name, field in expect.items():
        f = prog.fn(L + fn_name)
        res.fn(f)
        das = blocks_calling(f, f.reachable(), [L + "do_action"])
        clears = []
        for bi, si, st in f.all_rvalues():
            pf = proj_fields(st["p"])
            if pf and pf[-1][0] == LAYOUT and pf[-1][2] == "waiting":
                clears.append(bi)
        for bi, t in f.calls():
            if (callee_name(t) or "").endswith("ArrayDeque::remove"):
                fl = receiver_fields(f, t)
                if fl and fl[-1] == "extra_waiting":
                    clears.append(bi)
            # `self.waiting.take()` empties the main slot as well as `self.waiting = None`
            if (callee_name(t) or "") in ("core::option::Option::take", "core::mem::take", "core::mem::replace") and t["args"]:
                fl = receiver_fields(f, t)
                if fl and fl[-1] == "waiting":
                    clears.append(bi)
        res.inst("%s/anchors" % fn_name, do_action=len(das), clears=len(clears))
        if not das or len(clears) < 2:
            res.viol("%s/anchors" % fn_name, f.loc, "%s lost its do_action call or one of its two slot-clearing statements" % fn_name)
            continue
        # every do_action is reachable only through a clearing statement
        free = f.reach_from(0, avoid=clears)
        for n, (b, t) in enumerate(das):
            ok = b not in free
            res.inst("%s/cleared-before#%d" % (fn_name, n), ok=ok)
            res.oblige(ok)
            if not ok:
                res.viol("%s/cleared-before#%d" % (fn_name, n), "%s:%s" % (f.file, t.get("ln")),
                         "%s performs its action while the waiting slot may still be occupied: the same undecided key could be "
                         "resolved a second time" % fn_name)
            # the action operand comes from the expected field of the waiting state
            flds, _, _ = backward_slice(f, t["args"][1])
            wfields = {x[1] for x in flds if x[0] == WS and x[1] in ("hold", "tap", "timeout_action")}
            ok2 = wfields == {field}
            res.inst("%s/action-source#%d" % (fn_name, n), fields=sorted(wfields))
            res.oblige(ok2)
            if not ok2:
                res.viol("%s/action-source#%d" % (fn_name, n), "%s:%s" % (f.file, t.get("ln")),
                         "%s performs an action taken from WaitingState.%s; it must perform `%s` only" % (fn_name, sorted(wfields), field))
    # dispatch agreement
    want = {"Hold": L + "waiting_into_hold", "Tap": L + "waiting_into_tap", "Timeout": L + "waiting_into_timeout", "NoOp": L + "drop_waiting"}
    for fn_name in ("tick", "process_extra_waitings"):
        f = prog.fn(L + fn_name)
        res.fn(f)
        sws = [s for s in discr_switches(prog, f, WA)]
        if not sws:
            res.viol("%s/dispatch" % fn_name, f.loc, "%s no longer dispatches on WaitingAction" % fn_name)
            continue
        sw = sws[0]
        for v, callee in want.items():
            region = sw.arm_region(v)
            got = sorted({callee_name(t) for b in region for t in [f.term(b)] if t["k"] == "call" and (callee_name(t) or "").startswith(L)
                          and ("waiting_into" in callee_name(t) or "drop_waiting" in callee_name(t))})
            ok = got == [callee]
            res.inst("%s/dispatch/%s" % (fn_name, v), callee=got)
            res.oblige(ok)
            if not ok:
                res.viol("%s/dispatch/%s" % (fn_name, v), f.loc, "%s sends WaitingAction::%s to %s, expected %s" % (fn_name, v, got, callee))
    return res


def rule_outcome(prog):
    res = RuleResult("R-WAIT-OUTCOME", "Hold comes only from an early trigger; the release/timeout tail yields Tap or Timeout", floor=3)
    f = prog.fn(WS + "::handle_hold_tap")
    res.fn(f)
    sws = discr_switches(prog, f, "kanata_keyberon::action::HoldTapConfig")
    if not sws:
        res.viol("shape", f.loc, "handle_hold_tap no longer matches on HoldTapConfig")
        return res
    sw = sws[0]
    in_arm = set()
    for v in sw.all_variants:
        if v in sw.arms:
            in_arm |= sw.arm_region(v)
    produced_tail = set()
    for bi, si, st in f.all_rvalues():
        rv = st["rv"]
        if rv["k"] == "agg" and rv.get("adt") == WA:
            where = "arm" if bi in in_arm else "tail"
            res.inst("%s/%s@%d" % (where, rv["v"], bi), line=st.get("ln"))
            if where == "tail":
                # the per-variant early triggers are evaluated before the release-vs-timeout decision: the tail is
                # only reached through the match on the HoldTapConfig variant
                dom = f.dominates(sw.bb, bi)
                res.inst("tail/%s@%d/after-early-triggers" % (rv["v"], bi), ok=dom)
                res.oblige(dom)
                if not dom:
                    res.viol("tail/%s/before-early-triggers" % rv["v"], "%s:%s" % (f.file, st.get("ln")),
                             "WaitingAction::%s of the release-vs-timeout decision can be produced without first evaluating the "
                             "per-variant early triggers (the match on HoldTapConfig does not dominate it): when a trigger and the "
                             "key's own release are seen in the same evaluation the early hold is lost" % rv["v"])
                produced_tail.add(rv["v"])
                ok = rv["v"] in ("Tap", "Timeout")
                res.oblige(ok)
                if not ok:
                    res.viol("tail/%s" % rv["v"], "%s:%s" % (f.file, st.get("ln")),
                             "the common release-vs-timeout tail of handle_hold_tap yields WaitingAction::%s; with no early trigger "
                             "a tap-hold must resolve to Tap (released in time) or Timeout only" % rv["v"])
    for need in ("Tap", "Timeout"):
        if need not in produced_tail:
            res.viol("tail/missing-%s" % need, f.loc, "the tail of handle_hold_tap can no longer yield WaitingAction::%s" % need)
    return res


def rule_gate(prog):
    res = RuleResult("R-GATE", "buffered keys are not processed while a decision is pending or processing is paused", floor=3)
    f = prog.fn(L + "tick")
    res.fn(f)
    pops = []
    for bi, t in f.calls():
        if (callee_name(t) or "").endswith("ArrayDeque::pop_front"):
            fl = receiver_fields(f, t)
            if fl and fl[-1] == "queue":
                pops.append((bi, t))
    res.inst("pop_front(queue)", n=len(pops))
    if len(pops) != 1:
        res.viol("pop/census", f.loc, "expected exactly one queue.pop_front() in Layout::tick, found %d" % len(pops))
        return res
    pb, pt = pops[0]
    # (1) only in the None arm of the match on self.waiting
    ok1 = False
    for sw in discr_switches(prog, f, "core::option::Option"):
        pf = proj_fields(sw.place)
        flds, _, _ = backward_slice(f, sw.place) if not pf else (set(), None, None)
        is_waiting = (pf and pf[-1][2] == "waiting") or ((LAYOUT, "waiting") in flds)
        if is_waiting and "Some" in sw.arms:
            some_reach = sw.arm_reach("Some")
            none_reach = sw.arm_reach("None")
            if pb in none_reach and pb not in some_reach:
                ok1 = True
    res.inst("gate/waiting-none", ok=ok1)
    res.oblige(ok1)
    if not ok1:
        res.viol("gate/waiting-none", "%s:%s" % (f.file, pt.get("ln")), "queue.pop_front() is reachable while self.waiting is Some: buffered keys would be processed before the tap-hold decision")
    # (2) only on the true edge of extra_waiting.is_empty()
    ok2 = False
    for bi, t in f.calls():
        if (callee_name(t) or "").endswith("ArrayDeque::is_empty"):
            fl = receiver_fields(f, t)
            if fl and fl[-1] == "extra_waiting" and f.dominates(bi, pb):
                nb = t["t"]
                tt = f.term(nb)
                if tt["k"] == "switch":
                    false_t = [tb for v, tb in tt["ts"] if v == 0]
                    if false_t and pb not in f.reach_from(false_t[0], avoid=[nb]):
                        ok2 = True
    res.inst("gate/extra-waiting-empty", ok=ok2)
    res.oblige(ok2)
    if not ok2:
        res.viol("gate/extra-waiting-empty", "%s:%s" % (f.file, pt.get("ln")), "queue.pop_front() is reachable while extra_waiting holds undecided tap-holds")
    # (3) only when pause_input_processing_ticks is not > 0
    ok3 = False
    for bi, si, st in f.all_rvalues():
        rv = st["rv"]
        if rv["k"] == "bin" and rv["op"] in ("Gt", "Ne", "Eq", "Lt", "Le", "Ge"):
            flds = set()
            for o in (rv["a"], rv["b"]):
                fl, _, _ = backward_slice(f, o)
                flds |= fl
            if ("kanata_keyberon::layout::OneShotState", "pause_input_processing_ticks") in flds and f.dominates(bi, pb):
                ok3 = True
    res.inst("gate/pause", ok=ok3)
    res.oblige(ok3)
    if not ok3:
        res.viol("gate/pause", "%s:%s" % (f.file, pt.get("ln")), "queue.pop_front() no longer depends on pause_input_processing_ticks")
    return res


def run_all(prog):
    return [rule_wait(prog), rule_outcome(prog), rule_gate(prog), rule_permissive(prog), rule_queue_cap(prog)]


def rule_permissive(prog):
    """R-PERMISSIVE (C05): tap-hold-release looks for the other key's release only after that key's press."""
    from kq.core import rvalue_operands
    res = RuleResult("R-PERMISSIVE", "tap-hold-release searches the release after the press it belongs to", floor=1)
    f = prog.fn(WS + "::handle_hold_tap")
    res.fn(f)
    sws = discr_switches(prog, f, "kanata_keyberon::action::HoldTapConfig")
    if not sws:
        res.viol("shape", f.loc, "handle_hold_tap no longer matches on HoldTapConfig")
        return res
    _permissive_scan(res, f, sws[0].arm_region("PermissiveHold"), "")
    # the configurable variants (tap-hold-release-keys etc.) implement the same search in closures built by the parser
    n_custom = 0
    for g in prog.fns.values():
        if g.norm.startswith("kanata_parser::cfg::custom_tap_hold::") and g.parent:
            reg = g.reachable()
            has_next = any(f_.term(b)["k"] == "call" and (callee_name(f_.term(b)) or "").endswith("::next") for f_ in [g] for b in reg)
            has_any = any(g.term(b)["k"] == "call" and (callee_written(g.term(b)) or "").endswith("Iterator::any") for b in reg)
            if has_next and has_any:
                n_custom += 1
                res.fn(g)
                _permissive_scan(res, g, reg, g.norm.split("custom_tap_hold::")[-1] + "/")
    # the early triggers of the configurable variants react to *presses* of other keys (documented: "a listed key
    # pressed", "another key pressed and released"): inside the closures every decision taken while scanning the queue
    # lies on the true edge of Event::is_press()
    for g in prog.fns.values():
        if not (g.norm.startswith("kanata_parser::cfg::custom_tap_hold::") and g.parent):
            continue
        isp = [(bi, t) for bi, t in g.calls() if (callee_name(t) or "").endswith("Event::is_press")]
        nexts = [bi for bi, t in g.calls() if (callee_name(t) or "").endswith("::next")]
        if not isp or not nexts:
            continue
        loop_blocks = set()
        for nb in nexts:
            loop_blocks |= g.reach_from(nb)
        for bi, si, st in g.all_rvalues():
            rv = st["rv"]
            if rv["k"] == "agg" and rv.get("adt") == WA and bi in loop_blocks:
                ok = False
                for (pb, pt) in isp:
                    nb2 = pt["t"]
                    tt = g.term(nb2) if nb2 is not None else None
                    if tt and tt["k"] == "switch" and g.dominates(pb, bi):
                        false_t = [tb for v, tb in tt["ts"] if v == 0] or ([tt["o"]] if any(v == 1 for v, _ in tt["ts"]) else [])
                        if false_t and bi not in g.reach_from(false_t[0], avoid=[nb2, pb] + nexts):
                            ok = True
                if not ok:
                    # ... or on the release of a key whose press was seen while waiting: the decision is dominated by a
                    # `contains` test on a list that is only pushed to on the press edge
                    from kq.gf2 import root_desc as _rd

                    def press_only(blk):
                        for (pb, pt) in isp:
                            nb2 = pt["t"]
                            tt = g.term(nb2) if nb2 is not None else None
                            if tt and tt["k"] == "switch" and g.dominates(pb, blk):
                                false_t = [tb for v, tb in tt["ts"] if v == 0] or ([tt["o"]] if any(v == 1 for v, _ in tt["ts"]) else [])
                                if false_t and blk not in g.reach_from(false_t[0], avoid=[nb2, pb] + nexts):
                                    return True
                        return False
                    for cb, ct in g.calls():
                        if (callee_name(ct) or "").split("::")[-1] != "contains" or not g.dominates(cb, bi) or not ct["args"]:
                            continue
                        lst = (_rd(g, ct["args"][0]) or "").split(".")[0].split("[")[0]
                        pushes = [pb_ for pb_, pt_ in g.calls() if (callee_name(pt_) or "").split("::")[-1] == "push" and pt_["args"]
                                  and (_rd(g, pt_["args"][0]) or "").split(".")[0].split("[")[0] == lst]
                        nxt_c = ct.get("t")
                        tc = g.term(nxt_c) if nxt_c is not None else None
                        taken = tc is not None and tc["k"] == "switch" and bi not in g.reach_from(
                            ([tb for v, tb in tc["ts"] if v == 0] or [tc["o"]])[0], avoid=[nxt_c, cb] + nexts)
                        # the list starts empty: nothing but the press-guarded pushes fills it
                        m_ = re.match(r"_(\d+)$", lst or "")
                        starts_empty = False
                        if m_:
                            d_ = g.single_def(int(m_.group(1)))
                            starts_empty = bool(d_ and d_[2] == "call" and (callee_name(d_[3]) or "").split("::")[-1] in ("new", "with_capacity", "default"))
                        if lst and pushes and all(press_only(pb_) for pb_ in pushes) and taken and starts_empty:
                            ok = True
                key = "%s/decision-%s-on-press-only" % (g.norm.split("custom_tap_hold::")[-1], rv["v"])
                res.inst(key, ok=ok)
                res.oblige(ok)
                if not ok:
                    res.viol(key, "%s:%s" % (g.file, st.get("ln")),
                             "the closure decides WaitingAction::%s while scanning the queue without having checked that the event is "
                             "a press (or the release of a key whose press it saw while waiting): the release of a key that was already "
                             "down triggers the early decision" % rv["v"])
    res.inst("custom-closures", n=n_custom)
    if n_custom == 0:
        res.viol("custom-closures", "parser/src/cfg/custom_tap_hold.rs", "no tap-hold-release-keys style closure with a press loop and a release search was found")
    return res


def _permissive_scan(res, f, region, prefix):
    from kq.core import rvalue_operands
    nexts = [(b, t) for b in region for t in [f.term(b)] if t["k"] == "call" and (callee_name(t) or "").endswith("::next")]
    anys = [(b, t) for b in region for t in [f.term(b)] if t["k"] == "call" and (callee_written(t) or "").endswith("Iterator::any")]
    res.inst(prefix + "anchors", next_calls=len(nexts), any_calls=len(anys))
    if not nexts or not anys:
        res.viol(prefix + "anchors", f.loc, "the press loop / release search was not found")
        return
    # the loop iterator local: `next(&mut it)`
    loop_iters = set()
    for b, t in nexts:
        a0 = t["args"][0]
        d = f.single_def(a0["l"]) if is_place(a0) else None
        if d and d[2] == "assign" and d[3]["k"] == "ref":
            loop_iters.add(d[3]["p"]["l"])
    for n, (b, t) in enumerate(anys):
        # locals on the backward slice of the receiver
        seen, work = set(), [t["args"][0]]
        while work:
            o = work.pop()
            if not is_place(o) or o["l"] in seen:
                continue
            seen.add(o["l"])
            for (bb, i_, kind, payload) in f.defs().get(o["l"], []):
                if kind == "assign":
                    work.extend(rvalue_operands(payload))
                elif kind == "call":
                    work.extend(payload["args"])
        if not any("Queued" in (f.local_ty(l) or "") for l in seen):
            continue   # an any() over something else (e.g. the configured key list), not a search in the event queue
        ok = bool(seen & loop_iters)
        res.inst(prefix + "release-search#%d" % n, starts_at_loop_position=ok)
        res.oblige(ok)
        if not ok:
            res.viol(prefix + "release-search#%d" % n, "%s:%s" % (f.file, t.get("ln")),
                     "the release of the other key is searched in the whole queue instead of after that key's press: a key released "
                     "before it was (re)pressed triggers the hold action early")
    return


def rule_queue_cap(prog):
    """R-QUEUE-CAP (C05): the property promises that fewer than 32 events are buffered behind an undecided key."""
    res = RuleResult("R-QUEUE-CAP", "the event queue holds at least the documented 32 events", floor=2)
    cap = prog.const("kanata_keyberon::layout::QUEUE_SIZE")
    res.inst("QUEUE_SIZE", value=cap)
    res.oblige(cap >= 32)
    if cap < 32:
        res.viol("QUEUE_SIZE", "keyberon/src/layout.rs", "QUEUE_SIZE is %d: fewer than the 32 events that may be buffered while a tap-hold "
                 "decision is pending; the overflow path forces the decision and emits a buffered key early" % cap)
    adt = prog.adt(LAYOUT)
    ty = None
    for v in adt["variants"]:
        for fld in v["fields"]:
            if fld["name"] == "queue":
                ty = fld["ty"]
    import re
    m = re.search(r"ArrayDeque<[^,]+,\s*(\d+|(?:[A-Za-z_:]*::)?QUEUE_SIZE)\b", ty or "")
    n = (cap if m.group(1).endswith("QUEUE_SIZE") else int(m.group(1))) if m else None
    ok = n is not None and n == cap
    res.inst("Layout.queue", ty=ty, capacity=n)
    res.oblige(ok)
    if not ok:
        res.viol("Layout.queue/capacity", "keyberon/src/layout.rs", "Layout.queue (%s) is not an ArrayDeque of QUEUE_SIZE (%d) events" % (ty, cap))
    return res


def rule_lookahead(prog):
    """R-WAIT-LOOKAHEAD (C05): a tap-hold decision closure looks ahead in the queue without consuming it.

    The custom tap-hold closures (tap-hold-release-keys, tap-hold-except-keys ..) walk the queued events with
    `while let Some(q) = queued.next()` and, for each press, look further ahead for the matching release. The
    look-ahead must run on a *clone* of the iterator: run on the iterator itself (`queued.by_ref().any(..)`) it eats
    the rest of the queue, so only the first press after the tap-hold key is ever examined - a second key pressed and
    released while the first is still down no longer triggers the hold, a listed key after another key no longer
    triggers the early tap.

    Rule: in every function that receives a QueuedIter, inside a loop that is driven by `next` on an iterator, no other
    call in the loop body gets mutable access to the same iterator (directly or through by_ref)."""
    from kq.core import proj
    from rules.r_loopvar import loops_of
    res = RuleResult("R-WAIT-LOOKAHEAD", "tap-hold decision closures never consume the queue iterator inside their scan of it", floor=1)

    def base(f, op, depth=0):
        """the local an iterator operand ultimately borrows from (through &mut, by_ref, into_iter, moves)"""
        while depth < 8 and is_place(op):
            l = op["l"]
            d = f.single_def(l)
            if d is None:
                return l
            if d[2] == "assign":
                rv = d[3]
                if rv["k"] == "ref" and not [e for e in proj(rv["p"]) if e != "*"]:
                    op = {"l": rv["p"]["l"]}
                elif rv["k"] == "use" and is_place(rv["a"]) and not [e for e in proj(rv["a"]) if e != "*"]:
                    op = {"l": rv["a"]["l"]}
                else:
                    return l
            elif d[2] == "call" and (callee_name(d[3]) or "").split("::")[-1] in ("by_ref", "into_iter", "borrow_mut", "deref_mut") and d[3]["args"]:
                op = d[3]["args"][0]
            else:
                return l
            depth += 1
        return op.get("l") if is_place(op) else None
    n = 0
    for f in prog.fns.values():
        if not f.crate.startswith("kanata") or f.derive:
            continue
        if not any("layout::QueuedIter" in (f.local_ty(i) or "") for i in range(1, f.nargs + 1)):
            continue
        for li, lp in enumerate(loops_of(f)):
            drivers = [b for b in lp.body if f.term(b)["k"] == "call" and (callee_name(f.term(b)) or "").endswith("::next")
                       and f.term(b)["args"] and all(f.dominates(b, l_) for l_ in lp.latches)]
            if not drivers:
                continue
            drv = drivers[0]
            it = base(f, f.term(drv)["args"][0])
            if it is None or "QueuedIter" not in (f.local_ty(it) or ""):
                continue
            n += 1
            bad = []
            for b in sorted(lp.body):
                t = f.term(b)
                if b == drv or t["k"] != "call" or not t["args"] or not is_place(t["args"][0]):
                    continue
                a = t["args"][0]
                ty = f.local_ty(a["l"]) or ""
                if not ty.startswith("&mut"):
                    continue
                if base(f, a) == it:
                    bad.append((b, (callee_name(t) or "?").split("::")[-1]))
            key = "%s/loop%s" % (f.norm.split("::{closure")[0].split("::")[-1], "#%d" % li if li else "")
            res.fn(f)
            res.inst(key, where="%s:%s" % (f.file, f.line_of(lp.h)), ok=not bad)
            res.oblige(not bad)
            if bad:
                res.viol(key, "%s:%s" % (f.file, f.line_of(bad[0][0])),
                         "inside its scan of the queued events the tap-hold decision closure of %s hands the iterator it is scanning to `%s` "
                         "(mutable access, no clone): the look-ahead consumes the events the scan has still to visit, so only the first "
                         "press after the tap-hold key is examined - rolled keys no longer trigger the hold / the early tap"
                         % (f.norm.split("::{closure")[0].split("::")[-1], bad[0][1]))
    return res


def rule_slot_index(prog):
    """R-WAIT-SLOT (C05): the three outcome functions agree on how the slot index of an undecided key is read.

    `waiting_into_hold`, `waiting_into_tap` and `waiting_into_timeout` receive `idx`: -1 means the main `waiting` slot,
    0.. an entry of `extra_waiting`. Each reads the slot and then clears it, both under `idx < 0`. The six tests are
    copies of one another; if one of them becomes `idx <= 0`, entry 0 of extra_waiting is treated as the main slot:
    the wrong undecided key is dropped (it gets no outcome at all) and the decided one stays and fires a second time."""
    from kq.core import Resolver, const_val, is_const
    res = RuleResult("R-WAIT-SLOT", "every test of the waiting-slot index in the outcome functions separates -1 from 0..", floor=3)
    n = 0
    for name in ("waiting_into_hold", "waiting_into_tap", "waiting_into_timeout", "drop_waiting"):
        f = prog.fn_opt("kanata_keyberon::layout::Layout::" + name)
        if f is None:
            if name != "drop_waiting":
                res.viol("anchor/" + name, "keyberon/src/layout.rs", "Layout::%s not found" % name)
            continue
        params = {i: f.local_name(i) for i in range(1, f.nargs + 1)}
        idxp = [i for i, nm in params.items() if nm == "idx"]
        if not idxp or (f.local_ty(idxp[0]) or "") not in ("i8", "i16", "i32", "i64", "isize"):
            # the slot as a value of an enum (`WaitingSlot::Primary | Extra(usize)`): the main slot cannot be mistaken for entry 0
            # by a comparison any more - the clause holds by construction
            enum_params = [i for i in range(1, f.nargs + 1) if (prog.adts.get(f.local_adt(i) or "") or {}).get("kind") == "enum"
                           and (f.local_adt(i) or "").startswith("kanata_keyberon::layout::")]
            if enum_params and name != "drop_waiting":
                res.fn(f)
                res.inst("%s/slot-is-an-enum" % name, where=f.loc, type=f.local_adt(enum_params[0]), ok=True)
                res.oblige(True)
            continue
        res.fn(f)
        k = 0
        for bi, si, st in f.all_rvalues():
            rv = st["rv"]
            if rv["k"] != "bin" or rv["op"] not in ("Lt", "Le", "Gt", "Ge", "Eq", "Ne"):
                continue
            r = Resolver(f).root(rv["a"])
            if r[0] != "param" or r[1] != idxp[0] or not is_const(rv["b"]):
                continue
            c = const_val(rv["b"])
            if c is not None and c >= 128:
                c -= 256          # i8 constants are recorded as their bit pattern
            pred = {"Lt": lambda x: x < c, "Le": lambda x: x <= c, "Gt": lambda x: x > c, "Ge": lambda x: x >= c,
                    "Eq": lambda x: x == c, "Ne": lambda x: x != c}[rv["op"]]
            # any test that separates -1 (main slot) from every index 0.. is fine: `idx < 0`, `idx == -1`, `idx >= 0` ...
            ok = c is not None and pred(-1) != pred(0) and pred(0) == pred(1) == pred(7)
            key = "%s/test%s" % (name, "#%d" % k if k else "")
            k += 1
            n += 1
            res.inst(key, where="%s:%s" % (f.file, f.line_of(bi, si)), test="idx %s %s" % (rv["op"], const_val(rv["b"])), ok=ok)
            res.oblige(ok)
            if not ok:
                res.viol(key, "%s:%s" % (f.file, f.line_of(bi, si)),
                         "%s tests the slot index with `idx %s %s`; the sibling tests (and the callers, which pass -1 for the main slot and "
                         "0.. for extra_waiting) use `idx < 0`. Entry 0 of extra_waiting is then handled as the main slot: the key waiting "
                         "there is dropped without an outcome and the decided key fires again later" % (name, rv["op"], const_val(rv["b"])))
        if k == 0 and name != "drop_waiting":
            # six copies on the reviewed tree; a shared helper may reduce them, but each outcome function has to tell the main
            # slot from extra_waiting somewhere (in itself or in a helper analysed inlined)
            res.viol("anchor/%s/test" % name, f.loc, "Layout::%s takes a slot index but never tests it: the analysis lost sight of how "
                     "the main waiting slot is told from the entries of extra_waiting" % name)
    return res


def rule_scan_order(prog):
    """R-WAIT-SCAN (C05): the custom tap-hold closures decide on the first deciding event in the order of the queue.

    (a) tap-hold-except-keys: "a listed key pressed while waiting triggers the tap" holds for *every* press, so the scan
        over the queued events is only left early by the Tap decision - never by a bare `return (None, ..)` at the first
        press of some other key, after which a listed key pressed next is no longer seen.
    (b) tap-hold-release-keys: the closure takes the events one by one; it does not decide a press by searching a clone
        of the iterator for that key's release *before* it has looked at the presses in between (a listed key pressed
        before the other key's release must win)."""
    from kq.analysis import discr_switches
    from rules.r_loopvar import loops_of
    res = RuleResult("R-WAIT-SCAN", "custom tap-hold closures scan the queued events in order and only stop at a decision", floor=2)
    WA_ = "kanata_keyberon::layout::WaitingAction"
    n = 0
    for g in sorted(prog.fns.values(), key=lambda x: x.norm):
        if not (g.norm.startswith("kanata_parser::cfg::custom_tap_hold::") and g.parent):
            continue
        if not any("layout::QueuedIter" in (g.local_ty(i) or "") for i in range(1, g.nargs + 1)):
            continue
        name = g.norm.split("custom_tap_hold::")[-1].split("::{")[0]
        res.fn(g)
        for lp in loops_of(g):
            drivers = [b for b in lp.body if g.term(b)["k"] == "call" and (callee_name(g.term(b)) or "").endswith("::next")
                       and all(g.dominates(b, l_) for l_ in lp.latches)]
            if not drivers:
                continue
            n += 1
            # exits of the loop other than "iterator exhausted" (the None edge right after next())
            drv = drivers[0]
            bad_exits, clones = [], []
            for b in sorted(lp.body):
                for s_ in g.succs(b):
                    if s_ in lp.body or g.is_cleanup(s_):
                        continue
                    if b == drv or (g.term(b)["k"] == "switch" and drv in g.preds(b)) or _is_after_next(g, drv, b):
                        continue          # the iterator is exhausted
                    # leaving with a decision: every way from here to the return builds a WaitingAction on its way
                    agg_blocks = {y for y in g.reachable() for st in g.stmts(y)
                                  if st["k"] == "assign" and st["rv"]["k"] == "agg" and st["rv"].get("adt") == WA_}
                    rets = set(g.return_blocks())
                    decides = s_ in agg_blocks or not (rets & g.reach_from(s_, avoid=list(agg_blocks) + [lp.h]))
                    if not decides:
                        bad_exits.append(g.line_of(b))
                t = g.term(b)
                if t["k"] == "call" and (callee_name(t) or "").split("::")[-1] == "clone" and t["args"] and \
                        "QueuedIter" in (g.local_ty(t["args"][0]["l"]) or "").replace("&", ""):
                    clones.append(t.get("ln"))
            ok = not bad_exits and not clones
            res.inst("%s/scan" % name, where="%s:%s" % (g.file, g.line_of(lp.h)), exits_without_decision=bad_exits, lookahead_clones=clones, ok=ok)
            res.oblige(ok)
            if bad_exits:
                res.viol("%s/scan/stops-without-decision" % name, "%s:%s" % (g.file, bad_exits[0]),
                         "the decision closure of %s leaves its scan of the queued events at line %s without a decision: presses that come "
                         "after that point are never looked at - a listed key pressed after a key that is not listed no longer triggers "
                         "the early tap and is typed with the hold action applied" % (name, bad_exits[0]))
            if clones:
                res.viol("%s/scan/lookahead" % name, "%s:%s" % (g.file, clones[0]),
                         "the decision closure of %s searches a clone of the queue iterator (line %s) for the release that belongs to the "
                         "press it is looking at, before it has looked at the presses in between: when several events are evaluated at "
                         "once (the key waited behind another decision, two events in one millisecond) a listed key pressed before that "
                         "release is missed" % (name, clones[0]))
    if n < 2:
        res.viol("anchor", "parser/src/cfg/custom_tap_hold.rs", "the scan loops of the custom tap-hold closures were not found (%d)" % n)
    return res


def _is_after_next(g, drv, b):
    """b is the switch on the Option returned by the driver `next` call (possibly through one copy block)"""
    cur = g.term(drv).get("t")
    for _ in range(3):
        if cur is None:
            return False
        if cur == b:
            return True
        ss = g.succs(cur)
        cur = ss[0] if len(ss) == 1 else None
    return False
