"""R-PANIC: census and discharge of partial operations (index, slice, unsigned subtraction, narrow
addition, division, shift) in functions reachable from given roots.  Used by C02 (run-time roots)
and C03 (parse roots).

Discharge procedures, in order:
  1. gf2 data-flow inside the function (constant guards, relational guards, range/enumerate loops)
  2. closure inheritance: a non-escaping closure inherits the facts about its captured places that
     hold where it is created
  3. caller preconditions: an obligation on a parameter becomes `len(param) >= k` / `param >= c`,
     re-checked at every call site (bounded depth)
  4. wide counters: +,* on 64-bit integers (cannot overflow before memory / time runs out)
  5. the reviewed table (tables in rules/panic_tables.py), keyed by function + kind + operand shape
"""
import re

from kq.core import rvalue_operands, Resolver, callee_name, callee_written, const_val, is_const, is_place, norm_name, place_str, proj
from kq.gf2 import GF2, St, root_desc
from kq.guardflow import INF, IS, ty_range
from kq.report import RuleResult

WIDE = ("usize", "u64", "u128", "i64", "i128", "isize")
BITS = {"u8": 8, "i8": 8, "u16": 16, "i16": 16, "u32": 32, "i32": 32, "u64": 64, "i64": 64, "usize": 64, "isize": 64, "u128": 128, "i128": 128}


KAN = "kanata_state_machine::kanata::"
RT_ROOTS = [KAN + "Kanata::handle_input_event", KAN + "Kanata::tick_ms", KAN + "Kanata::handle_time_ticks",
            KAN + "Kanata::can_block_update_idle_waiting", KAN + "handle_fakekey_action"]
RT_STOP = [KAN + "Kanata::do_live_reload"]
PARSE_ROOTS = [
    "kanata_parser::cfg::new_from_str", "kanata_parser::cfg::new_from_file",
    "<kanata_parser::cfg::sexpr::SExpr as core::fmt::Debug>::fmt",
    "<kanata_parser::cfg::sexpr::Span as core::fmt::Debug>::fmt",
    "<miette::eyreish::Report as core::convert::From<kanata_parser::cfg::error::ParseError>>::from",
    "<kanata_parser::cfg::error::ParseError as core::convert::From<anyhow::Error>>::from",
    "<kanata_parser::keys::OsCode as core::fmt::Display>::fmt",
]


class Site:
    def __init__(self, fn, bb, kind, detail, line, mac):
        self.fn, self.bb, self.kind, self.detail, self.line, self.mac = fn, bb, kind, detail, line, mac
        self.status = None
        self.how = None
        self.key = None

    @property
    def where(self):
        return "%s:%s" % (self.fn.file, self.line)


def _is_ub(t):
    return t["msg"].get("kind", "").startswith("UB:")


def sites_of(fn):
    out = []
    for bi in sorted(fn.reachable()):
        t = fn.term(bi)
        if t["k"] == "assert":
            if _is_ub(t):
                continue
            m = t["msg"]
            k = m["kind"]
            if k == "BoundsCheck":
                out.append(Site(fn, bi, "index", {"index": m["index"], "len": m["len"]}, t.get("ln"), t.get("mac")))
            elif k == "Overflow":
                out.append(Site(fn, bi, "ovf:" + m["op"], {"a": m["a"], "b": m["b"]}, t.get("ln"), t.get("mac")))
            elif k == "OverflowNeg":
                out.append(Site(fn, bi, "ovf:Neg", {"a": m["a"]}, t.get("ln"), t.get("mac")))
            elif k in ("DivisionByZero", "RemainderByZero"):
                out.append(Site(fn, bi, "div0", {"cond": t["c"], "a": m["a"]}, t.get("ln"), t.get("mac")))
        elif t["k"] == "call":
            cn = callee_name(t) or ""
            cw = callee_written(t) or ""
            ga = t.get("ga", "")
            if cw == "core::ops::index::Index::index" or cw == "core::ops::index::IndexMut::index_mut":
                if cn.startswith("kanata"):
                    continue  # kanata's own Index impls are analysed as functions
                recv_ty = fn.place_ty(t["args"][0]) or ""
                idx_ty = fn.place_ty(t["args"][1]) if len(t["args"]) > 1 and is_place(t["args"][1]) else (t["args"][1]["c"]["ty"] if len(t["args"]) > 1 and is_const(t["args"][1]) else "")
                if "HashMap" in cn or "BTreeMap" in cn:
                    out.append(Site(fn, bi, "mapindex", {"recv": t["args"][0]}, t.get("ln"), t.get("mac")))
                elif idx_ty in ("usize",):
                    out.append(Site(fn, bi, "vecindex", {"recv": t["args"][0], "index": t["args"][1]}, t.get("ln"), t.get("mac")))
                elif "Range" in (idx_ty or ""):
                    out.append(Site(fn, bi, "slice", {"recv": t["args"][0], "range": t["args"][1], "rty": idx_ty, "str": "str" in recv_ty or "String" in recv_ty}, t.get("ln"), t.get("mac")))
                else:
                    out.append(Site(fn, bi, "index-other", {"recv": t["args"][0], "ity": idx_ty}, t.get("ln"), t.get("mac")))
            elif cn in ("alloc::vec::Vec::remove", "alloc::vec::Vec::swap_remove"):
                out.append(Site(fn, bi, "vecindex", {"recv": t["args"][0], "index": t["args"][1], "op": cn.split("::")[-1]}, t.get("ln"), t.get("mac")))
            elif cn in ("alloc::vec::Vec::insert",):
                out.append(Site(fn, bi, "vecinsert", {"recv": t["args"][0], "index": t["args"][1]}, t.get("ln"), t.get("mac")))
            elif cn in ("core::slice::split_at", "core::slice::split_at_mut", "core::str::split_at"):
                out.append(Site(fn, bi, "vecinsert", {"recv": t["args"][0], "index": t["args"][1], "op": "split_at"}, t.get("ln"), t.get("mac")))
            elif cn in ("core::slice::copy_from_slice",):
                out.append(Site(fn, bi, "copylen", {"recv": t["args"][0]}, t.get("ln"), t.get("mac")))
            elif cn in ("core::option::Option::unwrap", "core::option::Option::expect", "core::result::Result::unwrap", "core::result::Result::expect"):
                out.append(Site(fn, bi, "unwrap", {"recv": t["args"][0], "m": cn.split("::")[-1]}, t.get("ln"), t.get("mac")))
            elif cn in EXT_PANICKY:
                out.append(Site(fn, bi, "ext", {"callee": cn, "args": t["args"]}, t.get("ln"), t.get("mac")))
            elif cn in ("core::iter::traits::iterator::Iterator::collect", "core::iter::traits::collect::FromIterator::from_iter") \
                    and not proj(t["dest"]) and re.match(r"heapless::vec::Vec<.*, (\d+)>$", fn.local_ty(t["dest"]["l"]) or ""):
                # heapless::Vec's FromIterator panics when the iterator yields more items than the fixed capacity
                cap = int(re.match(r"heapless::vec::Vec<.*, (\d+)>$", fn.local_ty(t["dest"]["l"])).group(1))
                out.append(Site(fn, bi, "ext", {"callee": "heapless::vec::Vec::from_iter", "args": t["args"], "cap": cap}, t.get("ln"), t.get("mac")))
            elif cn.startswith("core::panicking::"):
                out.append(Site(fn, bi, "explicit", {"callee": cn}, t.get("ln"), t.get("mac")))
    return out


# library calls that panic on a violated precondition (beyond indexing / unwrap, handled above)
EXT_PANICKY = {
    "heapless::vec::Vec::extend": "panics when the fixed capacity is exceeded",
    "arraydeque::ArrayDeque::drain": "panics when the range is out of bounds",
    "core::slice::swap": "panics when an index is out of bounds",
    "core::slice::clone_from_slice": "panics when the lengths differ",
    "core::cell::RefCell::borrow_mut": "panics when already borrowed",
    "core::cell::RefCell::borrow": "panics when mutably borrowed",
    "bytemuck::cast_slice": "panics on size/alignment mismatch",
    "core::slice::chunks": "panics when the chunk size is 0",
    "core::slice::chunks_exact": "panics when the chunk size is 0",
    "core::slice::windows": "panics when the window size is 0",
    "core::iter::traits::iterator::Iterator::step_by": "panics when the step is 0",
    "alloc::vec::Vec::drain": "panics when the range is out of bounds",
    "alloc::vec::Vec::split_off": "panics when at > len",
    "alloc::string::String::remove": "panics when the index is out of bounds",
    "alloc::string::String::insert": "panics when the index is out of bounds",
    "core::char::methods::from_digit": "panics when radix > 36",
    "core::char::methods::to_digit": "panics when radix > 36",
}


def _range_parts(fn, op):
    """(kind, start_operand, end_operand) of a Range* aggregate operand"""
    r = Resolver(fn).root(op)
    if r[0] == "agg":
        rv = r[1][2]
        adt = rv.get("adt", "")
        ops = rv["ops"]
        if adt == "core::ops::range::RangeFrom":
            return ("from", ops[0], None)
        if adt == "core::ops::range::RangeTo":
            return ("to", None, ops[0])
        if adt == "core::ops::range::RangeToInclusive":
            return ("toi", None, ops[0])
        if adt == "core::ops::range::Range":
            return ("range", ops[0], ops[1])
        if adt == "core::ops::range::RangeFull":
            return ("full", None, None)
        if adt == "core::ops::range::RangeInclusive":
            return ("rangei", ops[0], ops[1])
    if r[0] == "const" and "RangeFull" in str(r[1]["c"].get("ty", "")):
        return ("full", None, None)
    if r[0] == "call" and (callee_name(r[1][1]) or "").endswith("RangeInclusive::new"):
        a = r[1][1]["args"]
        return ("rangei", a[0], a[1])
    return None


class Engine:
    def __init__(self, prog, reach, table=None, max_depth=3):
        self.prog = prog
        self.reach = reach
        self.table = table or {}
        self.max_depth = max_depth
        self._gf = {}
        self._entry = {}

    def gf(self, fn):
        g = self._gf.get(fn.name)
        if g is None:
            self._gf[fn.name] = None  # recursion guard
            g = GF2(fn, entry=self._closure_entry(fn), summaries=self.summary_at_call, oklen=self.oklen_at_call)
            self._gf[fn.name] = g
        return g

    # ---------------------------------------------------------------- "Ok implies len(param)" postconditions
    def oklen_summary(self, fn):
        """{param_no: IS} such that whenever fn returns Ok/Some, len(param) lies in IS; None if nothing is known.
        Sound only if every success value of fn is built by an Ok(..)/Some(..) aggregate in fn itself."""
        if not hasattr(self, "_oklen"):
            self._oklen = {}
        if fn.name in self._oklen:
            return self._oklen[fn.name]
        self._oklen[fn.name] = None
        ret = fn.ret or ""
        if not (("Result<" in ret) or ("Option<" in ret)) or fn.kind == "closure":
            return None
        want = "Ok" if "Result<" in ret.split("Option<")[0] or ret.lstrip().startswith(("core::result::Result", "Result")) else "Some"
        adt = "core::result::Result" if want == "Ok" else "core::option::Option"
        # every definition of the return place
        oks = []
        for (bb, idx, kind, payload) in fn.defs().get(0, []):
            if kind == "assign" and payload["k"] == "agg" and payload.get("adt") == adt:
                if payload.get("v") == want:
                    oks.append((bb, idx))
                continue
            if kind == "call" and "from_residual" in (callee_name(payload) or ""):
                continue   # `?`: an error / None is returned
            return None    # success values may come from elsewhere (tail call, copy): unknown
        if not oks:
            return None
        g = self.gf(fn)
        if g is None:
            return None
        out = {}
        for j in range(1, fn.nargs + 1):
            ty = fn.local_ty(j) or ""
            if not (ty.startswith("&[") or "Vec<" in ty.split("&")[-1][:8] or ty.startswith("&alloc::vec::Vec<")):
                continue
            total = None
            for (bb, idx) in oks:
                stt = g.block_in.get(bb)
                if stt is None:
                    continue
                stt = stt.copy()
                for stm in fn.stmts(bb)[:idx]:
                    if stm["k"] == "assign":
                        g._assign(stt, stm)
                v = stt.get(("LEN", "_%d" % j))
                total = v if total is None else total.union(v)
            # the parameter must not be re-bound / mutated: slices are immutable borrows
            if total is not None and not total.is_top() and ty.startswith("&[") and not ty.startswith("&mut"):
                out[j] = total
        self._oklen[fn.name] = out or None
        return self._oklen[fn.name]

    def oklen_at_call(self, t):
        f = self.prog.fn_opt(callee_name(t) or "")
        if f is None:
            return None
        return self.oklen_summary(f)

    # ---------------------------------------------------------------- integer return summaries
    INT_RET = re.compile(r"(?:Result|Option)<(u8|u16|u32|u64|usize|i8|i16|i32|i64|isize)[,>]|^(u8|u16|u32|u64|usize|i8|i16|i32|i64|isize)$")

    def ret_summary(self, fn, ctx=None):
        """{'iv': IS of every Ok/Some integer payload built in fn or its closures,
            'lo_param': j | None, 'hi_param': j | None}  or None if unknown.
        ctx: optional {param_no: constant} — the summary is then specialised to those argument values."""
        if not hasattr(self, "_sum"):
            self._sum = {}
        ckey = (fn.name, tuple(sorted(ctx.items())) if ctx else None)
        if ckey in self._sum:
            return self._sum[ckey]
        self._sum[ckey] = None
        m = self.INT_RET.search(fn.ret or "")
        if not m:
            return None
        ity = m.group(1) or m.group(2)
        units = [fn] + self.prog.closures_of(fn)
        local_gf = {}
        if ctx:
            e0 = St()
            for j, val in ctx.items():
                e0.iv[("L", j)] = IS.exact(val)
            local_gf[fn.name] = GF2(fn, entry=e0, summaries=self.summary_at_call)
            # closures ordered so that parents come first
            for u in sorted(units[1:], key=lambda x: x.norm.count("{closure")):
                par = self.prog.fn_opt(norm_name(u.iparent)) if u.iparent else None
                pgf = local_gf.get(par.name) if par is not None else None
                local_gf[u.name] = GF2(u, entry=self._closure_entry(u, parent_gf=pgf), summaries=self.summary_at_call)
        _orig_gf = self.gf
        if ctx:
            self_gf = lambda f_: local_gf.get(f_.name) or _orig_gf(f_)  # noqa: E731
        else:
            self_gf = _orig_gf
        total = None
        lo_params, hi_params = None, None
        found = False
        for u in units:
            g = self_gf(u)
            if g is None:
                return None
            for bi, si, st_ in u.all_rvalues():
                rv = st_["rv"]
                if rv["k"] == "agg" and rv.get("adt") in ("core::option::Option", "core::result::Result") and rv.get("v") in ("Some", "Ok") and len(rv["ops"]) == 1:
                    o = rv["ops"][0]
                    oty = u.place_ty(o) if is_place(o) else (o["c"]["ty"] if is_const(o) else None)
                    if oty != ity:
                        continue
                    # state just before this statement
                    stt = g.block_in.get(bi)
                    if stt is None:
                        continue
                    stt = stt.copy()
                    for stm in u.stmts(bi)[:si]:
                        if stm["k"] == "assign":
                            g._assign(stt, stm)
                    v = g.value(stt, o)
                    found = True
                    total = v if total is None else total.union(v)
                    # relational bounds against captured parameters of the parent
                    los, his = set(), set()
                    if is_place(o) and u.kind == "closure":
                        keys = set(g.alias_chain(o))
                        for r in stt.rel:
                            if r[0] in ("LE", "LT") and r[2] in keys and r[1][0] == "P":
                                j = self._upvar_param(u, r[1][1])
                                if j:
                                    los.add((j, 1 if r[0] == "LT" else 0))
                            if r[0] in ("LE", "LT") and r[1] in keys and r[2][0] == "P":
                                j = self._upvar_param(u, r[2][1])
                                if j:
                                    his.add((j, 1 if r[0] == "LT" else 0))
                    lo_params = los if lo_params is None else (lo_params & los)
                    hi_params = his if hi_params is None else (hi_params & his)
        if not found and m.group(2):
            # plain integer return: union of the values assigned to the return place
            g = self_gf(fn)
            if g is not None:
                for bi, si, st_ in fn.all_rvalues():
                    if st_["p"]["l"] == 0 and not proj(st_["p"]):
                        stt = g.block_in.get(bi)
                        if stt is None:
                            continue
                        stt = stt.copy()
                        for stm in fn.stmts(bi)[:si]:
                            if stm["k"] == "assign":
                                g._assign(stt, stm)
                        rv = st_["rv"]
                        v = IS.top()
                        if rv["k"] == "use":
                            v = g.value(stt, rv["a"])
                        else:
                            tmp = stt.copy()
                            g._assign(tmp, st_)
                            v = tmp.get(("L", 0))
                        found = True
                        total = v if total is None else total.union(v)
                for bi, t in fn.calls():
                    if t["dest"]["l"] == 0 and not proj(t["dest"]):
                        found = False  # returns another call's result: unknown
                        break
        if not found:
            return None
        res = {"iv": total, "lo_params": lo_params or set(), "hi_params": hi_params or set(), "ty": ity}
        self._sum[ckey] = res
        return res

    def _upvar_param(self, clo, placestr):
        """closure upvar place string -> parameter number of the (immediate) parent it captures"""
        m = re.match(r"^\(\*\(?\*?_1\)?\.(\d+)\)$|^\(\*_1\)\.(\d+)$|^_1\.(\d+)$|^\(\*\(\(\*_1\)\.(\d+)\)\)$|^\(\*\(_1\.(\d+)\)\)$", placestr)
        if not m:
            return None
        idx = int([x for x in m.groups() if x is not None][0])
        parent = self.prog.fn_opt(norm_name(clo.iparent)) if clo.iparent else None
        if parent is None:
            return None
        for bi, si, st in parent.all_rvalues():
            rv = st["rv"]
            if rv["k"] == "agg" and rv.get("clo") and norm_name(rv["clo"]) == clo.norm:
                if idx < len(rv["ops"]) and is_place(rv["ops"][idx]):
                    d = root_desc(parent, rv["ops"][idx])
                    mm = re.match(r"^_(\d+)$", d or "")
                    if mm and 1 <= int(mm.group(1)) <= parent.nargs:
                        return int(mm.group(1))
        return None

    def closure_summary(self, clo, parent_gf):
        """payload interval of the Some/Ok/plain integer a closure returns, evaluated with the facts of its
        creation site in parent_gf"""
        m = self.INT_RET.search(clo.ret or "")
        if not m:
            return None
        ity = m.group(1) or m.group(2)
        g = GF2(clo, entry=self._closure_entry(clo, parent_gf=parent_gf), summaries=self.summary_at_call)
        total = None
        for bi, si, st_ in clo.all_rvalues():
            rv = st_["rv"]
            o = None
            if rv["k"] == "agg" and rv.get("adt") in ("core::option::Option", "core::result::Result") and rv.get("v") in ("Some", "Ok") and len(rv["ops"]) == 1:
                o = rv["ops"][0]
            elif m.group(2) and st_["p"]["l"] == 0 and not proj(st_["p"]) and rv["k"] == "use":
                o = rv["a"]
            if o is None:
                continue
            oty = clo.place_ty(o) if is_place(o) else (o["c"]["ty"] if is_const(o) else None)
            if oty != ity:
                continue
            stt = g.block_in.get(bi)
            if stt is None:
                continue  # unreachable under the creation-site facts
            stt = stt.copy()
            for stm in clo.stmts(bi)[:si]:
                if stm["k"] == "assign":
                    g._assign(stt, stm)
            v = g.value(stt, o)
            total = v if total is None else total.union(v)
        return total

    def summary_at_call(self, t, gf, st):
        cn = callee_name(t) or ""
        if cn in ("core::option::Option::and_then", "core::option::Option::map", "core::result::Result::and_then", "core::result::Result::map"):
            if len(t["args"]) < 2:
                return None
            r = Resolver(gf.fn).root(t["args"][1])
            if r[0] == "agg" and r[1][2].get("clo"):
                clo = self.prog.fn_opt(norm_name(r[1][2]["clo"]))
                if clo is not None:
                    return self.closure_summary(clo, gf)
            return None
        f = self.prog.fn_opt(cn)
        if f is None or f.kind == "closure":
            return None
        ctx = {}
        for j, a in enumerate(t["args"], start=1):
            if is_const(a) and const_val(a) is not None:
                ctx[j] = const_val(a)
        sm = self.ret_summary(f, ctx or None) if ctx else self.ret_summary(f)
        if not sm and ctx:
            sm = self.ret_summary(f)
        if not sm:
            return None
        iv = sm["iv"]
        for (j, strict) in sm["lo_params"]:
            if j - 1 < len(t["args"]):
                v = gf.value(st, t["args"][j - 1])
                if not v.is_empty() and v.lo() != -INF:
                    iv = iv.inter(IS.range(v.lo() + strict, INF))
        for (j, strict) in sm["hi_params"]:
            if j - 1 < len(t["args"]):
                v = gf.value(st, t["args"][j - 1])
                if not v.is_empty() and v.hi() != INF:
                    iv = iv.inter(IS.range(-INF, v.hi() - strict))
        tr = ty_range(sm["ty"])
        if tr:
            iv = iv.inter(IS.range(*tr))
        return iv

    # ---------------------------------------------------------------- closure inheritance
    def _closure_entry(self, fn, parent_gf=None):
        if fn.kind != "closure" or not fn.iparent:
            return None
        parent = self.prog.fn_opt(norm_name(fn.iparent))
        if parent is None:
            # the closure was written in a helper that is analysed inlined: it is created in the body of a function the
            # helper was inlined into (the first one that contains the creation site)
            for host, helpers in sorted(getattr(self.prog, "adopted", {}).items()):
                if norm_name(fn.iparent) in helpers:
                    h = self.prog.fn_opt(host)
                    if h is not None and any(st_["rv"]["k"] == "agg" and st_["rv"].get("clo") and norm_name(st_["rv"]["clo"]) == fn.norm
                                             for _b, _s, st_ in h.all_rvalues()):
                        parent = h
                        break
        if parent is None:
            return None
        # creation site in the parent
        site = None
        for bi, si, st in parent.all_rvalues():
            rv = st["rv"]
            if rv["k"] == "agg" and rv.get("clo") and norm_name(rv["clo"]) == fn.norm:
                site = (bi, si, st)
                break
        if site is None:
            return None
        bi, si, st = site
        # the closure must flow into a call (non-escaping use): the aggregate local is an argument of some call
        cl = st["p"]["l"]
        used_in_call = False
        for b2, t2 in parent.calls():
            for a in t2["args"]:
                if is_place(a) and not proj(a):
                    if a["l"] == cl:
                        used_in_call = True
                    else:
                        d = parent.single_def(a["l"])
                        if d and d[2] == "assign" and d[3]["k"] == "use" and is_place(d[3]["a"]) and d[3]["a"]["l"] == cl:
                            used_in_call = True
        if not used_in_call:
            return None
        pg = parent_gf if parent_gf is not None else self.gf(parent)
        if pg is None:
            return None
        pst = pg.block_in.get(bi)
        if pst is None:
            return None
        pst = pst.copy()
        for stm in parent.stmts(bi)[:si]:
            if stm["k"] == "assign":
                pg._assign(pst, stm)
        entry = St()
        # the closure is handed to an iterator adaptor over chunks_exact(n): its element parameter has length n
        for b2, t2 in parent.calls():
            if len(t2["args"]) >= 2:
                a1 = t2["args"][1]
                uses = is_place(a1) and (a1["l"] == cl or (parent.single_def(a1["l"]) and parent.single_def(a1["l"])[2] == "assign"
                                                         and parent.single_def(a1["l"])[3]["k"] == "use" and is_place(parent.single_def(a1["l"])[3]["a"])
                                                         and parent.single_def(a1["l"])[3]["a"]["l"] == cl))
                if uses and (callee_written(t2) or "").startswith("core::iter::traits::iterator::Iterator::"):
                    st2 = pg.before_term(b2)
                    if st2 is not None:
                        k0s = pg.src_keys(t2["args"][0])
                        for r in st2.rel:
                            if r[0] == "CHUNKS" and r[1] in k0s:
                                entry.iv[("LEN", "_2")] = IS.exact(r[2])
        for i, op in enumerate(st["rv"]["ops"]):
            if not is_place(op):
                continue
            # captured by reference: op = &place ; in the closure it is `(*(_1.i))` -> root_desc "_1.i"
            lk = pg.len_key(op)
            if lk is not None:
                v = pst.get(lk)
                if not v.is_top():
                    entry.iv[("LEN", "_1.%d" % i)] = v
                # nested containers: LEN keys with this prefix
                for k2, v2 in pst.iv.items():
                    if k2[0] == "LEN" and (k2[1].startswith(lk[1] + ".") or k2[1].startswith(lk[1] + "[")):
                        entry.iv[("LEN", "_1.%d" % i + k2[1][len(lk[1]):])] = v2
            # captured integers
            v = pg.value(pst, op)
            d = parent.single_def(op["l"]) if not proj(op) else None
            if d and d[2] == "assign" and d[3]["k"] == "ref":
                if d[3].get("mut"):
                    continue      # captured `&mut`: the closure (called any number of times) changes it - the value at creation is no fact
                v = pg.value(pst, d[3]["p"])
            if not v.is_top():
                entry.iv[("P", "_1.%d" % i)] = v
        return entry

    # ---------------------------------------------------------------- discharge
    def discharge(self, s):
        fn = s.fn
        g = self.gf(fn)
        st = g.before_term(s.bb)
        if st is None:
            s.status, s.how = "ok", "unreachable block"
            return
        k, d = s.kind, s.detail
        if k == "index":
            if g.lt_holds(st, d["index"], d["len"]):
                s.status, s.how = "ok", "guard: index %s < len %s" % (g.value(st, d["index"]), g.value(st, d["len"]))
                return
            s.need = ("len>", d["len"], d["index"])
        elif k == "vecindex":
            lk = g.len_key(d["recv"])
            iv = g.value(st, d["index"])
            lv = st.get(lk) if lk else IS.top()
            ok = (not iv.is_empty() and not lv.is_empty() and iv.hi() < lv.lo())
            if not ok and lk:
                ok = g.lt_key(st, d["index"], lk, strict=True)
            if ok:
                s.status, s.how = "ok", "guard: index %s < len(%s) %s" % (iv, lk[1] if lk else "?", lv)
                return
            s.need = ("veclen>", d["recv"], d["index"])
        elif k == "vecinsert":
            lk = g.len_key(d["recv"])
            iv = g.value(st, d["index"])
            lv = (st.get(lk) if lk else IS.top()).inter(IS.range(0, INF))
            ok = (not iv.is_empty() and not lv.is_empty() and iv.hi() <= lv.lo())
            if not ok and lk:
                ok = g.lt_key(st, d["index"], lk, strict=False)
            if ok:
                s.status, s.how = "ok", "guard: position %s <= len %s" % (iv, lv)
                return
            s.need = ("veclen>=", d["recv"], d["index"])
        elif k == "slice":
            rp = _range_parts(fn, d["range"])
            lk = g.len_key(d["recv"])
            lv = st.get(lk) if lk else IS.top()
            if rp is not None:
                kind, so, eo = rp
                def le_len(o, strict=False):
                    if o is None:
                        return True
                    v = g.value(st, o)
                    if not v.is_empty() and not lv.is_empty() and (v.hi() < lv.lo() if strict else v.hi() <= lv.lo()):
                        return True
                    ka = set(g.alias_chain(o)) | g.len_aliases(st, o) if is_place(o) else set()
                    if lk and lk in ka and not strict:
                        return True
                    return bool(lk) and any(r[0] in (("LT",) if strict else ("LT", "LE")) and r[1] in ka and r[2] == lk for r in st.rel)
                ok = False
                if kind == "full":
                    ok = True
                elif kind == "from":
                    ok = le_len(so)
                elif kind == "to":
                    ok = le_len(eo)
                elif kind == "toi":
                    ok = le_len(eo, strict=True)
                elif kind == "range":
                    ok = le_len(eo) and (g.le_holds(st, so, eo) if is_place(so) or is_place(eo) else (const_val(so) or 0) <= (const_val(eo) or 0))
                elif kind == "rangei":
                    ok = le_len(eo, strict=True) and g.le_holds(st, so, eo)
                if ok and not d.get("str"):
                    s.status, s.how = "ok", "guard: range %s within len %s" % (kind, lv)
                    return
                if ok and d.get("str"):
                    s.status, s.how = None, None
                    s.need = ("str-boundary", d["recv"], d["range"])
                    s.range_ok = True
                    return
                s.need = ("slice:" + kind, d["recv"], so if so is not None else eo)
            else:
                s.need = ("slice:?", d["recv"], None)
        elif k.startswith("ovf:"):
            op = k[4:]
            a, b = d.get("a"), d.get("b")
            ty = fn.place_ty(a) if is_place(a) else (a["c"]["ty"] if is_const(a) else None)
            if op == "Sub":
                if g.le_holds(st, b, a):
                    s.status, s.how = "ok", "guard: %s <= %s" % (g.value(st, b), g.value(st, a))
                    return
                s.need = ("ge", a, b)
            elif op in ("Add", "Mul"):
                va, vb = g.value(st, a), g.value(st, b)
                tr = ty_range(ty or "")
                if tr and not va.is_empty() and not vb.is_empty():
                    hi = (va.hi() + vb.hi()) if op == "Add" else (va.hi() * vb.hi() if va.hi() != INF and vb.hi() != INF else INF)
                    if hi <= tr[1] and (op == "Mul" or (va.lo() + vb.lo()) >= tr[0]):
                        s.status, s.how = "ok", "bound: %s %s %s fits %s" % (va, op, vb, ty)
                        return
                if ty in WIDE:
                    s.status, s.how = "ok", "wide counter (%s)" % ty
                    return
                s.need = ("fits", a, b)
            elif op in ("Shl", "Shr"):
                vb = g.value(st, b)
                bits = BITS.get(ty or "", None)
                if bits and not vb.is_empty() and 0 <= vb.lo() and vb.hi() < bits:
                    s.status, s.how = "ok", "shift amount %s < %d" % (vb, bits)
                    return
                s.need = ("shift", a, b)
            else:
                va = g.value(st, a)
                tr = ty_range(ty or "")
                if tr and not va.is_empty() and va.lo() > tr[0]:
                    s.status, s.how = "ok", "negated value %s is never %s::MIN" % (va, ty)
                    return
                s.need = ("neg", a, None)
        elif k == "div0":
            c = d["cond"]
            div = None
            if is_place(c) and not proj(c):
                df = fn.single_def(c["l"])
                if df and df[2] == "assign" and df[3]["k"] == "bin" and df[3]["op"] == "Eq":
                    div = df[3]["a"] if not (is_const(df[3]["a"]) and const_val(df[3]["a"]) == 0) else df[3]["b"]
            if div is not None:
                v = g.value(st, div)
                if not v.contains(0):
                    s.status, s.how = "ok", "divisor %s is non-zero" % v
                    return
                s.need = ("nonzero", div, None)
            else:
                s.need = ("nonzero", None, None)
        elif k == "unwrap":
            # Some/Ok known from a length fact: first()/last() of a non-empty container, get(k) with k < len
            r = Resolver(fn).root(d["recv"])
            if r[0] == "call":
                ct = r[1][1]
                cn2 = callee_name(ct) or ""
                stc = g.before_term(r[1][0])
                if stc is not None and ct["args"]:
                    lk = g.len_key(ct["args"][0])
                    lv = stc.get(lk).inter(IS.range(0, INF)) if lk else IS.range(0, INF)
                    if cn2 in ("core::slice::first", "core::slice::last", "core::slice::first_mut", "core::slice::last_mut",
                               "core::slice::split_first", "core::slice::split_last") and lv.lo() >= 1:
                        s.status, s.how = "ok", "%s() of a container with len %s" % (cn2.split("::")[-1], lv)
                        return
                    if cn2 in ("core::slice::get", "alloc::vec::Vec::get") and len(ct["args"]) > 1:
                        iv = g.value(stc, ct["args"][1])
                        if not iv.is_empty() and iv.hi() < lv.lo():
                            s.status, s.how = "ok", "get(%s) of a container with len %s" % (iv, lv)
                            return
            s.need = ("some", d["recv"], None)
        elif k == "ext":
            cn = d["callee"]
            if cn in ("core::slice::chunks", "core::slice::chunks_exact", "core::slice::windows",
                      "core::iter::traits::iterator::Iterator::step_by") and len(d["args"]) > 1:
                v = g.value(st, d["args"][1])
                if not v.is_empty() and v.lo() >= 1:
                    s.status, s.how = "ok", "size argument %s >= 1" % v
                    return
            if cn == "heapless::vec::Vec::from_iter" and d["args"] and is_place(d["args"][0]):
                # the source yields at most `cap` items: a fixed container of at most that capacity behind adaptors that
                # cannot lengthen it, or a take(k) with k <= cap in the chain
                cap = d["cap"]
                ty = fn.local_ty(d["args"][0]["l"]) or ""
                growing = ("Chain<", "FlatMap<", "Flatten<", "Cycle<", "Repeat<", "RepeatWith<", "Intersperse<")
                if not any(x in ty for x in growing):
                    m = re.search(r"(?:heapless::vec::IntoIter<[^<>]*(?:<[^<>]*>)?[^<>]*, (\d+)>|arraydeque::(?:Drain|IntoIter|Iter)<[^<>]*(?:\([^()]*\))?[^<>]*?, (\d+), )", ty)
                    if m and int(m.group(1) or m.group(2)) <= cap:
                        s.status, s.how = "ok", "source is a fixed container of capacity %s <= %d" % (m.group(1) or m.group(2), cap)
                        return
                    if "Take<" in ty:
                        # find the take(k) call that built it
                        cur, hops = d["args"][0], 0
                        while is_place(cur) and hops < 8:
                            dd = fn.single_def(cur["l"])
                            if dd is None:
                                break
                            if dd[2] == "call":
                                if (callee_name(dd[3]) or "").split("::")[-1] == "take" and len(dd[3]["args"]) > 1:
                                    kv = g.value(st, dd[3]["args"][1])
                                    if not kv.is_empty() and kv.hi() <= cap:
                                        s.status, s.how = "ok", "take(%s) with capacity %d" % (kv, cap)
                                        return
                                    break
                                cur = dd[3]["args"][0] if dd[3]["args"] else None
                            elif dd[2] == "assign" and dd[3]["k"] in ("use", "ref"):
                                cur = dd[3].get("a") or {"l": dd[3]["p"]["l"]}
                            else:
                                break
                            hops += 1
                s.need = (k, None, None)
                s.status = "no"
                return
            if cn.endswith("::drain") and len(d["args"]) > 1:
                rp = _range_parts(fn, d["args"][1])
                if rp is not None and rp[0] == "full":
                    s.status, s.how = "ok", "drain(..) over the full range"
                    return
                if rp is not None and rp[0] == "from":
                    sv = g.value(st, rp[1])
                    lk = g.len_key(d["args"][0])
                    lv = st.get(lk) if lk else IS.top()
                    if not sv.is_empty() and (sv.hi() == 0 or (not lv.is_empty() and sv.hi() <= lv.lo())
                                              or (lk and is_place(rp[1]) and g.lt_key(st, rp[1], lk, strict=False))):
                        s.status, s.how = "ok", "drain(%s..): start <= len" % sv
                        return
            s.need = (k, None, None)
        elif k in ("explicit", "mapindex", "index-other", "copylen"):
            s.need = (k, None, None)
        s.status = "no"

    # ---------------------------------------------------------------- caller preconditions
    def param_requirement(self, s):
        """translate an undischarged obligation into a requirement on a parameter: (param_no, 'len', min) |
        (param_no, 'val', lo, hi) | None. Only for constant bounds."""
        fn = s.fn
        need = getattr(s, "need", None)
        if not need:
            return None
        g = self.gf(fn)
        st = g.before_term(s.bb)
        kind = need[0]

        def param_of_desc(desc):
            m = re.match(r"^_(\d+)((?:\.[A-Za-z0-9_]+)*)$", desc or "")
            if m and 1 <= int(m.group(1)) <= fn.nargs:
                return int(m.group(1)), m.group(2)
            return None

        if kind in ("len>", "veclen>", "veclen>=") or kind.startswith("slice:"):
            if kind == "len>":
                lens = g.len_aliases(st, need[1])
                descs = [lk[1] for lk in lens]
            else:
                lk = g.len_key(need[1])
                descs = [lk[1]] if lk else []
            idx = need[2]
            if idx is None:
                return None
            iv = g.value(st, idx)
            if iv.is_empty() or iv.hi() == INF:
                return None
            extra = 1 if kind in ("len>", "veclen>") or kind in ("slice:toi", "slice:rangei") else 0
            for dsc in descs:
                p = param_of_desc(dsc)
                if p:
                    if fn.kind == "closure" and p[0] == 1:
                        continue
                    return (p[0], "len" + p[1], int(iv.hi()) + extra)
        if kind == "explicit":
            # the panic block is guarded by a comparison of a parameter with a constant
            idom = fn.dominators()
            b = s.bb
            steps = 0
            while b in idom and idom[b] != b and steps < 6:
                steps += 1
                p_ = idom[b]
                t_ = fn.term(p_)
                if t_["k"] == "switch" and t_.get("dty") == "bool" and is_place(t_["d"]) and not proj(t_["d"]):
                    # which edge leads to the panic block?
                    succ_to_panic = [x for x in fn.succs(p_) if fn.dominates(x, s.bb) or x == s.bb]
                    if len(succ_to_panic) != 1:
                        break
                    vals = [v for v, tb in t_["ts"] if tb == succ_to_panic[0]]
                    panic_when = bool(vals[0]) if vals else (not bool(t_["ts"][0][0]))
                    cd = g._cond_def(t_["d"]["l"])
                    neg = 0
                    while cd and cd[0] == "not" and is_place(cd[1]) and not proj(cd[1]) and neg < 3:
                        panic_when = not panic_when
                        cd = g._cond_def(cd[1]["l"])
                        neg += 1
                    if cd and cd[0] == "cmp":
                        op, a_, b_ = cd[1], cd[2], cd[3]
                        from kq.guardflow import NEG as _NEG, SWAP as _SWAP
                        need_op = _NEG[op] if panic_when else op   # relation that must hold
                        if is_const(a_) and is_place(b_):
                            a_, b_, need_op = b_, a_, _SWAP[need_op]
                        if is_place(a_) and is_const(b_) and const_val(b_) is not None:
                            c_ = const_val(b_)
                            for k_ in g.alias_chain(a_):
                                pk = None
                                if k_[0] == "L" and 1 <= k_[1] <= fn.nargs:
                                    pk = (k_[1], "")
                                elif k_[0] == "P":
                                    pp = param_of_desc(k_[1])
                                    if pp and not (fn.kind == "closure" and pp[0] == 1):
                                        pk = pp
                                if pk:
                                    rel = {"Lt": ("le", c_ - 1), "Le": ("le", c_), "Gt": ("ge", c_ + 1), "Ge": ("ge", c_)}.get(need_op)
                                    if rel:
                                        return (pk[0], rel[0] + pk[1], rel[1])
                    break
                b = p_
            return None
        if kind in ("nonzero",) and need[1] is not None:
            for k_ in g.alias_chain(need[1]):
                if k_[0] == "L" and 1 <= k_[1] <= fn.nargs:
                    return (k_[1], "nonzero", 1)
        if kind == "ge" and is_place(need[1]):
            vb = g.value(st, need[2]) if need[2] is not None else IS.top()
            if not vb.is_empty() and vb.hi() != INF:
                for k_ in g.alias_chain(need[1]):
                    if k_[0] == "L" and 1 <= k_[1] <= fn.nargs:
                        return (k_[1], "ge", int(vb.hi()))
                for lk in g.len_aliases(st, need[1]):
                    p = param_of_desc(lk[1])
                    if p and not (fn.kind == "closure" and p[0] == 1):
                        return (p[0], "len" + p[1], int(vb.hi()))
        return None

    def check_requirement(self, fn, req, depth=0, seen=None):
        """is `req` guaranteed at every call site of fn (transitively)? returns (ok, why)"""
        if seen is None:
            seen = set()
        keyr = (fn.norm, req)
        if keyr in seen:
            return True, "recursive"
        seen.add(keyr)
        if depth > self.max_depth:
            return False, "depth"
        pno, what, bound = req
        sites = [(f, b, t) for (f, b, t) in self.prog.call_sites(fn.norm) if f.norm in self.reach or True]
        if not sites:
            return False, "no call sites (root or called indirectly)"
        # fn passed as a value somewhere (fn item constant): indirect calls cannot be checked
        for f in self.prog.fns.values():
            pass
        whys = []
        for (cf, cb, ct) in sites:
            if len(ct["args"]) < pno:
                return False, "arity"
            arg = ct["args"][pno - 1]
            g = self.gf(cf)
            st = g.before_term(cb)
            if st is None:
                continue
            ok = False
            if what.startswith("len"):
                lk = g.len_key(arg)
                if lk is not None:
                    sub = what[3:]
                    lk2 = ("LEN", lk[1] + sub)
                    v = st.get(lk2)
                    if not v.is_empty() and v.lo() >= bound:
                        ok = True
                    if not ok:
                        # slice argument built as &x[k..] of a container with known length
                        pass
                if not ok:
                    ok = self._slice_arg_len(cf, g, st, arg, bound)
                if not ok:
                    # propagate to the caller's own parameter
                    m = re.match(r"^_(\d+)((?:\.[A-Za-z0-9_]+)*)$", (lk[1] + what[3:]) if lk else "")
                    if m and 1 <= int(m.group(1)) <= cf.nargs and not (cf.kind == "closure" and int(m.group(1)) == 1):
                        ok2, why2 = self.check_requirement(cf, (int(m.group(1)), "len" + m.group(2), bound), depth + 1, seen)
                        ok = ok2
            elif what == "nonzero":
                v = g.value(st, arg)
                ok = not v.contains(0)
                if not ok:
                    for k_ in g.alias_chain(arg):
                        if k_[0] == "L" and 1 <= k_[1] <= cf.nargs:
                            ok, _ = self.check_requirement(cf, (k_[1], "nonzero", 1), depth + 1, seen)
            elif what.startswith("ge") or what.startswith("le"):
                sub = what[2:]
                v = None
                if not sub:
                    v = g.value(st, arg)
                else:
                    dd = root_desc(cf, arg)
                    if dd is not None:
                        v = st.get(("P", dd + sub))
                        # tuple built right at the call: (a, b) aggregate operand
                        r_ = Resolver(cf).root(arg)
                        if r_[0] == "agg" and r_[1][2].get("tup") and re.match(r"^\.\d+$", sub):
                            iop = r_[1][2]["ops"][int(sub[1:])]
                            stc = g.before_term(r_[1][0]) if False else st
                            v = g.value(st, iop)
                if v is not None and not v.is_empty():
                    ok = v.lo() >= bound if what.startswith("ge") else v.hi() <= bound
            if not ok:
                return False, "call site %s:%s does not guarantee %s" % (cf.file, ct.get("ln"), (what, bound))
            whys.append("%s:%s" % (cf.file, ct.get("ln")))
        return True, "all %d call sites guarantee it (%s)" % (len(whys), ", ".join(whys[:4]))

    def _slice_arg_len(self, cf, g, st, arg, bound):
        """argument is `&container[k..]` / result of a range index call: len = len(container) - k"""
        r = Resolver(cf).root(arg)
        if r[0] == "call":
            t = r[1][1]
            cw = callee_written(t) or ""
            if cw in ("core::ops::index::Index::index",) and len(t["args"]) == 2:
                rp = _range_parts(cf, t["args"][1])
                lk = g.len_key(t["args"][0])
                if rp and lk:
                    stc = g.before_term(r[1][0])
                    lv = stc.get(lk) if stc else IS.top()
                    if rp[0] == "from" and not lv.is_empty():
                        sv = g.value(stc, rp[1])
                        if not sv.is_empty() and sv.hi() != INF and lv.lo() - sv.hi() >= bound:
                            return True
        return False


def op_sig(eng, fn, st, op):
    """stable textual signature of an operand (no local numbers unless unavoidable)"""
    if op is None:
        return "-"
    if is_const(op):
        v = const_val(op)
        return str(v) if v is not None else "const"
    g = eng.gf(fn)
    if st is not None:
        la = sorted(g.len_aliases(st, op))
        if la:
            return "len(%s)" % _desc_sig(fn, la[0][1])
    d = root_desc(fn, op)
    return _desc_sig(fn, d) if d else "?"


def _desc_sig(fn, d, depth=0):
    if depth > 4:
        return "expr"
    m = re.match(r"^_(\d+)(.*)$", d or "")
    if not m:
        return d or "?"
    l, suf = int(m.group(1)), m.group(2)
    suf = re.sub(r"\[_\d+\]", "[i]", suf)
    if 1 <= l <= fn.nargs:
        return "arg%d%s" % (l, suf)
    ds = [x for x in fn.defs().get(l, []) if x[2] != "partial"]
    if len(ds) == 1 and ds[0][2] == "call":
        return "%s()%s" % ((callee_name(ds[0][3]) or "?").split("::")[-1], suf)
    if len(ds) == 1 and ds[0][2] == "assign":
        rv = ds[0][3]
        if rv["k"] == "bin":
            return "(%s %s %s)%s" % (_desc_sig(fn, root_desc(fn, rv["a"]) or "", depth + 1) if is_place(rv["a"]) else const_val(rv["a"]),
                                     rv["op"].replace("WithOverflow", ""),
                                     _desc_sig(fn, root_desc(fn, rv["b"]) or "", depth + 1) if is_place(rv["b"]) else const_val(rv["b"]), suf)
        if rv["k"] == "cast" and is_place(rv["a"]):
            return _desc_sig(fn, root_desc(fn, rv["a"]) or "", depth + 1) + suf
    n = fn.local_name(l)
    if n:
        return "var:%s%s" % (n, suf)
    return "tmp%s" % suf


def site_sig(eng, s):
    fn = s.fn
    st = eng.gf(fn).before_term(s.bb)
    d = s.detail
    if s.kind == "index":
        return "[%s] of %s" % (op_sig(eng, fn, st, d["index"]), op_sig(eng, fn, st, d["len"]))
    if s.kind in ("vecindex", "vecinsert"):
        return "%s[%s]%s" % (op_sig(eng, fn, None, d["recv"]), op_sig(eng, fn, st, d["index"]), ("." + d["op"]) if d.get("op") else "")
    if s.kind == "slice":
        rp = _range_parts(fn, d["range"])
        if rp:
            return "%s[%s..%s]%s" % (op_sig(eng, fn, None, d["recv"]), op_sig(eng, fn, st, rp[1]) if rp[1] is not None else "",
                                     op_sig(eng, fn, st, rp[2]) if rp[2] is not None else "", " (str)" if d.get("str") else "")
        return "%s[range]" % op_sig(eng, fn, None, d["recv"])
    if s.kind.startswith("ovf:"):
        return "%s %s %s" % (op_sig(eng, fn, st, d.get("a")), s.kind[4:], op_sig(eng, fn, st, d.get("b")))
    if s.kind == "div0":
        return "/ %s" % op_sig(eng, fn, st, getattr(s, "need", (None, None))[1] if getattr(s, "need", None) else None)
    if s.kind == "unwrap":
        return "%s.%s" % (op_sig(eng, fn, None, d["recv"]), d.get("m"))
    if s.kind == "explicit":
        m = [x for x in (s.mac or []) if x in ("assert", "debug_assert", "unreachable", "panic", "assert_eq", "assert_ne", "todo", "unimplemented")]
        return (m[-1] if m else d.get("callee", "").split("::")[-1])
    if s.kind in ("mapindex", "index-other", "copylen"):
        return op_sig(eng, fn, None, d.get("recv"))
    if s.kind == "ext":
        return "%s(%s)" % (d["callee"].split("::")[-1], op_sig(eng, fn, None, d["args"][0]) if d["args"] else "")
    return ""


def run_engine(prog, roots, stop, rule_name, clause, table, floor):
    res = RuleResult(rule_name, clause, floor=floor)
    reach = prog.reachable_from(roots, stop=stop)
    eng = Engine(prog, reach, table)
    sites = []
    for n in sorted(reach):
        for f in prog.by_norm.get(n, []):
            if not f.crate.startswith("kanata") or f.derive or f.crate == "kanata":
                continue
            if f.mac and any(m_.startswith(("bitflags", "__impl", "serde", "$crate::__")) or "bitflags" in m_ for m_ in f.mac):
                continue  # code generated by a third-party macro
            res.fn(f)
            sites.extend(sites_of(f))
    counts = {}
    per_fn_ord = {}
    for s in sites:
        eng.discharge(s)
        if s.status == "no" or s.status is None:
            req = eng.param_requirement(s)
            if req is not None:
                ok, why = eng.check_requirement(s.fn, req)
                if ok:
                    s.status, s.how = "ok", "callers: param %d %s >= %s — %s" % (req[0], req[1], req[2], why)
                else:
                    s.how = "needs param %d %s >= %s; %s" % (req[0], req[1], req[2], why)
            if s.status is None:
                s.status = "no"
        # stable key: function + kind + operand signature (+ ordinal only for identical signatures)
        s.sig = site_sig(eng, s) if s.status in ("no",) else ""
        # closure ordinals are positional (inserting an unrelated closure renumbers the later ones): not part of the key
        base = "%s|%s|%s" % (re.sub(r"\{closure#\d+\}", "{closure}", s.fn.norm), s.kind, s.sig)
        # the ordinal distinguishes equally-shaped operations of one function by source position; two copies of one source
        # line (a helper inlined at two call sites, kq/inline.py) are the same operation
        seen_at = per_fn_ord.setdefault(base, {})
        o = seen_at.setdefault(s.where, len(seen_at))
        s.key = base if o == 0 else "%s#%d" % (base, o)
        counts[(s.kind, s.status)] = counts.get((s.kind, s.status), 0) + 1
    return res, eng, sites, counts


def _guarded_by_not(fn, bb, callee):
    """block bb is only reachable through the false edge of a switch on the result of `callee`"""
    for bi, t in fn.calls():
        if callee_name(t) != callee or t["t"] is None or not fn.dominates(bi, bb):
            continue
        nb = t["t"]
        # follow Not / copies to the switch
        for sb in sorted(fn.reach_from(nb)):
            tt = fn.term(sb)
            if tt["k"] == "switch" and tt.get("dty") == "bool" and fn.dominates(sb, bb):
                from kq.analysis import backward_slice
                _, callees, _ = backward_slice(fn, tt["d"])
                if callee not in callees:
                    continue
                # polarity: count Not on the way
                nots = 0
                d = tt["d"]
                cur = d
                while is_place(cur):
                    df = fn.single_def(cur["l"])
                    if df and df[2] == "assign" and df[3]["k"] == "un" and df[3]["op"] == "Not":
                        nots += 1
                        cur = df[3]["a"]
                    elif df and df[2] == "assign" and df[3]["k"] == "use":
                        cur = df[3]["a"]
                    else:
                        break
                want = 1 if nots % 2 == 1 else 0   # value of the switch operand when callee returned false
                tgt = [tb for v, tb in tt["ts"] if v == want] or ([tt["o"]] if all(v != want for v, _ in tt["ts"]) else [])
                other = [x for x in fn.succs(sb) if x not in tgt]
                if tgt and bb in fn.reach_from(tgt[0], avoid=[sb]) and not any(bb in fn.reach_from(o, avoid=[sb]) for o in other):
                    return True
    return False


def check_shape(eng, s, tag):
    fn = s.fn
    if tag.startswith("callers-pass-bounded-iterator:"):
        # the collected iterator is parameter N of fn; every call site hands in an iterator over a fixed container of at most
        # the capacity, an empty iterator, or (recursion) fn's own parameter / a clone of it
        pn = int(tag.split(":")[1])
        cap = s.detail.get("cap", 0)
        src = s.detail["args"][0]
        cur, hops = src, 0
        while is_place(cur) and cur["l"] != pn and hops < 6:
            dd = fn.single_def(cur["l"])
            if dd and dd[2] == "assign" and dd[3]["k"] in ("use", "ref"):
                cur = dd[3].get("a") or {"l": dd[3]["p"]["l"]}
                hops += 1
            else:
                break
        if not (is_place(cur) and cur["l"] == pn):
            return False, "the collected iterator is no longer parameter %d" % pn
        bad = []
        n = 0
        for (cf, bi, t) in eng.prog.call_sites(fn.norm):
            if len(t["args"]) < pn:
                continue
            n += 1
            a = t["args"][pn - 1]
            seen, ok = set(), False
            work = [a]
            while work and not ok:
                o = work.pop()
                if not is_place(o) or o["l"] in seen:
                    continue
                seen.add(o["l"])
                ty = cf.local_ty(o["l"]) or ""
                m = re.search(r"heapless::vec::IntoIter<u16, (\d+)>", ty)
                if (m and int(m.group(1)) <= cap) or "core::iter::sources::empty::Empty<" in ty:
                    ok = True
                    break
                if cf.norm == fn.norm and o["l"] == pn:
                    ok = True
                    break
                for dd in cf.defs().get(o["l"], []):
                    if dd[2] == "assign":
                        work.extend(rvalue_operands(dd[3]))
                    elif dd[2] == "call" and (callee_name(dd[3]) or "").split("::")[-1] in ("clone", "by_ref", "skip", "into_iter", "deref_mut") and dd[3]["args"]:
                        work.append(dd[3]["args"][0])
            if not ok:
                bad.append("%s:%s" % (cf.file, t.get("ln")))
        if bad or not n:
            return False, "call site(s) %s pass an iterator that is not bounded by a LayerStack" % (bad[:3] or "none found")
        return True, "%d call sites pass an iterator over a LayerStack (<= %d), an empty iterator, or the function's own parameter" % (n, cap)
    if tag == "index-is-min-with-len":
        from kq.analysis import backward_slice
        idx, ln = s.detail["index"], s.detail["len"]
        g = eng.gf(fn)
        st = g.before_term(s.bb)
        lens = g.len_aliases(st, ln) if st is not None else set()
        # the index is (a saturating decrement of) min(x, len(container))
        seen, work = set(), [idx]
        while work:
            o = work.pop()
            if not is_place(o) or o["l"] in seen:
                continue
            seen.add(o["l"])
            for (bb, i_, kind, payload) in fn.defs().get(o["l"], []):
                if kind == "call":
                    cn = callee_name(payload) or ""
                    if cn in ("core::cmp::min", "core::cmp::Ord::min"):
                        stc = g.before_term(bb)
                        for a in payload["args"]:
                            if stc is not None and (g.len_aliases(stc, a) & lens):
                                return True, "index = min(_, len) - 1"
                    if cn in ("core::num::saturating_sub", "core::convert::From::from", "core::convert::Into::into", "core::convert::num::from"):
                        work.extend(payload["args"][:1])
                elif kind == "assign":
                    if payload["k"] in ("use", "cast"):
                        work.extend(rvalue_operands(payload))
        return False, "the index is no longer clamped by min(.., len) of the indexed list"
    if tag.startswith("guarded-by-not:"):
        callee = tag.split(":", 1)[1]
        ok = _guarded_by_not(fn, s.bb, callee)
        return ok, ("guarded by !%s()" % callee.split("::")[-1]) if ok else ("not guarded by !%s()" % callee.split("::")[-1])
    if tag.startswith("callers-guarded-by-not:"):
        callee = tag.split(":", 1)[1]
        sites = eng.prog.call_sites(fn.norm)
        if not sites:
            return False, "no callers"
        for (cf, cb, ct) in sites:
            if not _guarded_by_not(cf, cb, callee):
                return False, "caller %s:%s is not guarded by !%s()" % (cf.file, ct.get("ln"), callee.split("::")[-1])
        return True, "every caller is guarded by !%s()" % callee.split("::")[-1]
    if tag.startswith("after-none-of:"):
        # the site lies only on the None edge of `callee(x)` for the same x whose other accessor is unwrapped here
        callee = tag.split(":", 1)[1]
        no_fallback = callee.endswith("#noclo")
        callee = callee.replace("#noclo", "")
        from kq.gf2 import root_desc
        recv = s.detail.get("recv")
        rd_site = None
        if recv is not None and is_place(recv):
            d0 = fn.single_def(recv["l"]) if not proj(recv) else None
            if d0 and d0[2] == "call" and d0[3]["args"]:
                rd_site = root_desc(fn, d0[3]["args"][0])
        for bi, t in fn.calls():
            if callee_name(t) != callee or not fn.dominates(bi, s.bb) or t["t"] is None:
                continue
            if rd_site is not None and root_desc(fn, t["args"][0]) != rd_site:
                continue
            # find the discriminant switch on the result
            dl = t["dest"]["l"]
            for sb in sorted(fn.reach_from(t["t"])):
                tt = fn.term(sb)
                if tt["k"] != "switch" or not is_place(tt["d"]) or proj(tt["d"]):
                    continue
                dd = fn.single_def(tt["d"]["l"])
                if not (dd and dd[2] == "assign" and dd[3]["k"] == "discr" and dd[3]["p"]["l"] == dl):
                    continue
                some_t = [tb for v, tb in tt["ts"] if v == 1] or ([tt["o"]] if any(v == 0 for v, _ in tt["ts"]) else [])
                if some_t and s.bb not in fn.reach_from(some_t[0], avoid=[sb]) and fn.dominates(sb, s.bb):
                    return True, "only on the None edge of %s() of the same expression" % callee.split("::")[-1]
        if not no_fallback:
            ok2, why2 = check_shape(eng, s, "none-closure-of:" + callee + "#noaft")
            if ok2:
                return True, why2
        return False, "no longer confined to the None edge of %s() of the same expression" % callee.split("::")[-1]
    if tag.startswith("none-closure-of:"):
        # the site is inside a closure that only runs when `callee(..)` returned None: the closure is the argument of
        # Option::unwrap_or_else / or_else / map_or_else whose receiver derives from that call
        callee = tag.split(":", 1)[1]
        no_fallback = callee.endswith("#noaft")
        callee = callee.replace("#noaft", "")
        from kq.analysis import backward_slice
        par = eng.prog.fn_opt(norm_name(fn.iparent)) if getattr(fn, "iparent", None) else None
        if par is None and no_fallback:
            return False, "not a closure"
        if par is None:
            return check_shape(eng, s, "after-none-of:" + callee + "#noclo")
        for bi, t in par.calls():
            if (callee_name(t) or "").split("::")[-1] not in ("unwrap_or_else", "or_else", "map_or_else", "ok_or_else"):
                continue
            if not (callee_name(t) or "").startswith("core::option::Option::"):
                continue
            is_arg = False
            for a_ in t["args"][1:]:
                r = Resolver(par).root(a_) if is_place(a_) else ("?",)
                if r[0] == "agg" and norm_name(r[1][2].get("clo", "")) == fn.norm:
                    is_arg = True
            if not is_arg:
                continue
            _, cals, _ = backward_slice(par, t["args"][0])
            if callee in cals:
                return True, "closure of %s on a value derived from %s()" % ((callee_name(t) or "").split("::")[-1], callee.split("::")[-1])
        # the same thing written as `match x.atom() { Some(a) => .., None => x.list().expect(..) }`
        if not no_fallback:
            ok2, why2 = check_shape(eng, s, "after-none-of:" + callee + "#noclo")
            if ok2:
                return True, why2
        return False, "the closure is no longer the None-branch of %s()" % callee.split("::")[-1]
    if tag.startswith("dominated-by-call:"):
        callee = tag.split(":", 1)[1]
        ok = any(callee_name(t) == callee and fn.dominates(bi, s.bb) for bi, t in fn.calls())
        return ok, ("after %s()" % callee.split("::")[-1]) if ok else ("no longer preceded by %s()" % callee.split("::")[-1])
    return False, "unknown shape requirement " + tag


def _key_variants(key):
    """a reviewed invariant is about the operation and its operands, not about whether the statement sits in the body
    of the function or in a closure of it: code that moves between the two (iterator chain <-> loop) keeps its entry"""
    out = [key]
    fnpart, sep, rest = key.partition("|")
    if fnpart.endswith("::{closure}"):
        out.append(fnpart[:-len("::{closure}")] + sep + rest)
    else:
        out.append(fnpart + "::{closure}" + sep + rest)
    return out


def _adopted_closure_variants(eng, s):
    """a closure written in a helper that is analysed inlined belongs to the functions the helper was inlined into: its
    sites are also looked up under `<that function>::{closure}`"""
    if eng is None or s.fn.kind != "closure" or not s.fn.parent:
        return []
    par = norm_name(s.fn.parent)
    out = []
    for host, helpers in getattr(eng.prog, "adopted", {}).items():
        if par in helpers:
            rest = s.key.partition("|")[2]
            out.append("%s::{closure}|%s" % (host, rest))
            out.append("%s|%s" % (host, rest))
    return out


def _moved_site_matches(s, pat):
    """a site inside a helper that is analysed inlined (kq/inline.py: code that a later change moved out of, or between,
    reviewed functions) keeps the reviewed invariant of the operation it is: the entry of a function of the *same impl /
    module* applies when kind and operand shape match. Only for inlined code - a site in a reviewed function is matched by
    its own function's entries only."""
    import fnmatch
    fn = s.fn
    try:
        moved = fn.origin(s.bb) != fn.norm
    except Exception:
        moved = False
    if not moved or "|" not in pat:
        return False
    pfn, _, prest = pat.partition("|")
    rest = s.key.partition("|")[2]
    if not fnmatch.fnmatchcase(rest, prest):
        return False
    # the entry's function must live in the same impl / module as the host of the moved code
    scope = pfn.lstrip("*").split("::{closure}")[0].rsplit("::", 1)[0].lstrip("*")
    return bool(scope) and scope in fn.norm


def _finish(res, sites, table, what, eng=None):
    import fnmatch
    from rules.panic_tables import REQUIRE
    used = set()
    for s in sites:
        if s.status == "no":
            for (pat, reason) in table:
                if any(fnmatch.fnmatchcase(k_, pat) for k_ in _key_variants(s.key) + _adopted_closure_variants(eng, s)) or _moved_site_matches(s, pat):
                    used.add(pat)
                    tag = REQUIRE.get(pat)
                    if tag and eng is not None:
                        ok, why = check_shape(eng, s, tag)
                        if not ok:
                            s.how = "table entry requires a shape that no longer holds: " + why
                            break
                        reason = reason + " [checked: " + why + "]"
                    s.status, s.how = "table", reason
                    break
        ok = s.status in ("ok", "table")
        d = res.inst(s.key if s.status != "ok" else "%s|%s@%s" % (s.fn.norm, s.kind, s.line), where=s.where, status=s.status, how=(s.how or "")[:160])
        res.oblige(ok)
        if not ok:
            res.viol(s.key, s.where,
                     "%s: a partial operation (%s: %s) on the %s path is neither discharged by the guard data-flow nor covered by a "
                     "reviewed invariant%s" % (s.fn.norm, s.kind, s.sig, what, ("; " + s.how) if s.how else ""))
    stale = [pat for pat, _ in table if pat not in used]
    res.notes.append("sites=%d discharged=%d table=%d undischarged=%d; table patterns unused: %d" % (
        len(sites), sum(1 for s in sites if s.status == "ok"), sum(1 for s in sites if s.status == "table"),
        sum(1 for s in sites if s.status == "no"), len(stale)))
    res.notes.extend("unused table pattern: " + p_ for p_ in stale[:10])
    return res


def run_rt(prog):
    from rules.panic_tables import RT, SEXPR
    RT = RT + SEXPR  # feature "cmd": cmd-output-keys parses the command's stdout with the s-expression reader at run time
    res, eng, sites, counts = run_engine(prog, RT_ROOTS, RT_STOP, "R-PANIC/rt",
                                         "no reachable partial operation on the event/tick path can fail", RT, 120)
    return _finish(res, sites, RT, "run-time", eng)


def run_parse(prog):
    from rules.panic_tables import PARSE
    res, eng, sites, counts = run_engine(prog, PARSE_ROOTS, [], "R-PANIC/parse",
                                         "no reachable partial operation in configuration parsing / diagnostics can fail", PARSE, 400)
    return _finish(res, sites, PARSE, "parse", eng)
