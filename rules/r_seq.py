"""C12 rules: sequences.
R-SEQ-CONFLICT every trie insert is guarded by both prefix-conflict checks on the same key sequence.
R-SEQ-BITS     bit layout constants of the u16 sequence encoding.
R-SEQ-RESET    SequenceState::activate resets every field of the sequence state.
R-SEQ-NORM     run-time left/right modifier normalisation never merges keys the parser encodes differently.
R-SEQ-SUPPRESS hidden modes press nothing while a sequence is in progress.
"""
from kq.analysis import backward_slice, blocks_calling, discr_switches, reach_under_variant
from kq.core import Resolver, callee_name, const_val, is_const, is_place, proj, proj_fields
from kq.effects import Effects
from kq.report import RuleResult

KAN = "kanata_state_machine::kanata::"
SS = KAN + "sequences::SequenceState"
OSC = "kanata_parser::keys::OsCode"
KC = "kanata_keyberon::key_code::KeyCode"
MODE = "kanata_parser::custom_action::SequenceInputMode"


def rule_conflict(prog):
    res = RuleResult("R-SEQ-CONFLICT", "a sequence is inserted only after both prefix-conflict checks passed on it", floor=1)
    f = prog.fn("kanata_parser::cfg::parse_sequences")
    res.fn(f)
    ins = blocks_calling(f, f.reachable(), ["kanata_parser::trie::Trie::insert"])
    anc = blocks_calling(f, f.reachable(), ["kanata_parser::trie::Trie::ancestor_exists"])
    des = blocks_calling(f, f.reachable(), ["kanata_parser::trie::Trie::descendant_exists"])
    res.inst("anchors", insert=len(ins), ancestor_exists=len(anc), descendant_exists=len(des))
    if not ins:
        res.viol("anchors", f.loc, "parse_sequences no longer inserts into the sequence trie")
        return res
    r = Resolver(f)
    for n, (ib, it) in enumerate(ins):
        key_root = r.root(it["args"][1])
        for nm, checks in (("ancestor_exists", anc), ("descendant_exists", des)):
            ok = False
            for cb, ct in checks:
                if not f.dominates(cb, ib):
                    continue
                same = r.root(ct["args"][1])[:2] == key_root[:2] or (
                    backward_slice(f, ct["args"][1])[0] == backward_slice(f, it["args"][1])[0]
                    and _root_local(f, ct["args"][1]) == _root_local(f, it["args"][1]))
                nb = ct["t"]
                tt = f.term(nb) if nb is not None else None
                if tt and tt["k"] == "switch":
                    true_t = [tb for v, tb in tt["ts"] if v == 1] or ([tt["o"]] if any(v == 0 for v, _ in tt["ts"]) else [])
                    if true_t and ib not in f.reach_from(true_t[0], avoid=[nb, cb]) and same:
                        ok = True
            res.inst("insert#%d/%s" % (n, nm), ok=ok)
            res.oblige(ok)
            if not ok:
                res.viol("insert#%d/%s" % (n, nm), "%s:%s" % (f.file, it.get("ln")),
                         "a sequence is inserted into the trie without %s(the same sequence) having returned false: two defined "
                         "sequences may be prefixes of one another" % nm)
    # nobody else inserts into a sequences trie
    others = [g.norm for g, b, t in prog.call_sites("kanata_parser::trie::Trie::insert") if g.norm != f.norm]
    res.inst("other-inserters", fns=others)
    if others:
        res.viol("other-inserters", f.loc, "Trie::insert is also called from %s without the conflict checks" % others)
    return res


def _root_local(f, o):
    r = Resolver(f).root(o)
    if r[0] in ("param", "multi", "undef"):
        return r[1]
    if r[0] == "call":
        return ("call", r[1][0])
    return None


def rule_bits(prog):
    res = RuleResult("R-SEQ-BITS", "sequence encoding: key codes, modifier bits and the overlap marker do not collide", floor=6)
    c = lambda n: prog.const("kanata_parser::sequences::" + n)  # noqa: E731
    mk, mm, ov = c("MASK_KEYCODES"), c("MASK_MODDED"), c("KEY_OVERLAP_MARKER")
    osc_max = max(v["discr"] for v in prog.adt(OSC)["variants"])
    where = "parser/src/sequences.rs"

    def chk(key, ok, msg):
        res.inst(key, ok=ok)
        res.oblige(ok)
        if not ok:
            res.viol(key, where, msg)
    chk("keycodes-fit", mk >= osc_max, "MASK_KEYCODES %#x is smaller than the largest OsCode %d" % (mk, osc_max))
    chk("masks-disjoint", (mk & mm) == 0 and (mk | mm) == 0xFFFF, "MASK_KEYCODES and MASK_MODDED must split the 16 bits")
    chk("overlap-in-modded", ov & mm == ov and bin(ov).count("1") == 1, "KEY_OVERLAP_MARKER must be one bit inside MASK_MODDED")
    # mod_mask_for_keycode return values: distinct single bits inside MASK_MODDED
    f = prog.fn("kanata_parser::sequences::mod_mask_for_keycode")
    res.fn(f)
    masks = mod_masks(prog, f)
    vals = {}
    for v, m in masks.items():
        if m:
            vals.setdefault(m, []).append(v)
    for m, vs in sorted(vals.items()):
        chk("mask/%#x" % m, (m & mm) == m and bin(m).count("1") == 1, "mod mask %#x of %s is not a single bit inside MASK_MODDED" % (m, vs))
    chk("mask/overlap-unique", vals.get(ov, []) == ["ErrorRollOver"], "only the overlap pseudo-key may map to KEY_OVERLAP_MARKER, found %s" % vals.get(ov))
    return res


def mod_masks(prog, f):
    """KeyCode variant -> mask constant returned by mod_mask_for_keycode"""
    out = {}
    sws = discr_switches(prog, f, KC)
    if not sws:
        return out
    sw = sws[0]
    for v in sw.all_variants:
        tb = sw.target(v)
        if tb is None:
            continue
        m = None
        for b in f.reach_from(tb, avoid=[sw.bb]):
            for st in f.stmts(b):
                if st["k"] == "assign" and st["p"]["l"] == 0 and not proj(st["p"]) and st["rv"]["k"] == "use" and is_const(st["rv"]["a"]):
                    m = const_val(st["rv"]["a"])
            if m is not None:
                break
        out[v] = m
    return out


def rule_reset(prog):
    res = RuleResult("R-SEQ-RESET", "starting a sequence resets every field of the sequence state", floor=6)
    f = prog.fn(SS + "::activate")
    res.fn(f)
    e = Effects(prog).direct(f)
    written = {x[1] for x in e["writes"] if x[0] == SS}
    fields = [fl["name"] for fl in prog.adt(SS)["variants"][0]["fields"]]
    for fl in fields:
        ok = fl in written
        res.inst("field/" + fl, reset=ok)
        res.oblige(ok)
        if not ok:
            res.viol("field/" + fl, f.loc,
                     "SequenceState::activate does not reset `%s`: progress of an earlier, abandoned sequence leaks into the next "
                     "activation" % fl)
    return res


def rule_norm(prog):
    res = RuleResult("R-SEQ-NORM", "keys merged by the run-time normalisation carry the same parser modifier bit", floor=3)
    f = prog.fn(KAN + "sequences::do_sequence_press_logic")
    res.fn(f)
    g = prog.fn("kanata_parser::sequences::mod_mask_for_keycode")
    masks = mod_masks(prog, g)
    osc_by_d = {v["discr"]: v["name"] for v in prog.adt(OSC)["variants"]}
    kc_by_d = {v["discr"]: v["name"] for v in prog.adt(KC)["variants"]}
    osc_d = {v: k for k, v in osc_by_d.items()}
    pairs = []
    for sw in discr_switches(prog, f, OSC):
        for v, tb in sw.arms.items():
            for st in f.stmts(tb):
                if st["k"] == "assign" and st["rv"]["k"] == "agg" and st["rv"].get("adt") == OSC:
                    pairs.append((v, st["rv"]["v"]))
    res.notes.append("normalisation pairs: %s" % pairs)
    for (a, b) in pairs:
        ka, kb = kc_by_d.get(osc_d.get(a)), kc_by_d.get(osc_d.get(b))
        ma, mb = masks.get(ka), masks.get(kb)
        ok = ka is not None and kb is not None and ma == mb and ma not in (None, 0)
        res.inst("merge/%s->%s" % (a, b), masks=(ma, mb))
        res.oblige(ok)
        if not ok:
            res.viol("merge/%s->%s" % (a, b), f.loc,
                     "while typing a sequence %s is rewritten to %s, but the parser encodes them with different modifier bits "
                     "(%s vs %s): a sequence written with the first key can never match" % (a, b, ma, mb))
    if len(pairs) < 3:
        res.viol("merge/census", f.loc, "expected >= 3 right->left modifier normalisations, found %d" % len(pairs))
    return res


def rule_suppress(prog):
    res = RuleResult("R-SEQ-SUPPRESS", "typed keys are pressed at the OS only outside hidden sequence modes", floor=3)
    sp = prog.fn(KAN + "sequences::do_sequence_press_logic")
    res.fn(sp)
    press = blocks_calling(sp, sp.reachable(), [KAN + "output_logic::press_key"])
    for m in prog.enum_variants(MODE).values():
        r = reach_under_variant(prog, sp, MODE, m)
        hit = any(b in r for b, _ in press)
        res.inst("press-logic/" + m, presses=hit)
        want = (m == "VisibleBackspaced")
        res.oblige(hit == want)
        if hit != want:
            res.viol("press-logic/" + m, sp.loc, "in mode %s do_sequence_press_logic %s the typed key at the OS" % (m, "presses" if hit else "does not press"))
    # handle_keystate_changes: the plain press_key of the press loop is not reachable when a sequence is active
    hk = prog.fn(KAN + "Kanata::handle_keystate_changes")
    res.fn(hk)
    seqcalls = blocks_calling(hk, hk.reachable(), [KAN + "sequences::do_sequence_press_logic"])
    presses = blocks_calling(hk, hk.reachable(), [KAN + "output_logic::press_key"])
    getact = blocks_calling(hk, hk.reachable(), [SS + "::get_active"])
    res.inst("keystate/anchors", seq_logic=len(seqcalls), press_key=len(presses), get_active=len(getact))
    ok = False
    for gb, gt in getact:
        nb = gt["t"]
        for sw in discr_switches(prog, hk, "core::option::Option"):
            if sw.bb == nb or hk.dominates(nb, sw.bb):
                flds_ok = is_place(sw.place) and sw.place["l"] == gt["dest"]["l"]
                if not flds_ok:
                    continue
                some_r = sw.arm_reach("Some")
                none_r = sw.arm_reach("None")
                seq_in_some = any(b in some_r for b, _ in seqcalls)
                # a press_key that follows the None arm but is not reachable from the Some arm before the loop continues
                press_none_only = [b for b, _ in presses if b in hk.dominated_by(sw.target("None"))]
                if seq_in_some and press_none_only:
                    ok = True
    res.inst("keystate/press-under-none", ok=ok)
    res.oblige(ok)
    if not ok:
        res.viol("keystate/press-under-none", hk.loc, "handle_keystate_changes presses typed keys at the OS even while a sequence is active")
    return res


def rule_complete(prog):
    """R-SEQ-COMPLETE: wherever the run time looks the typed keys up in the sequence trie, the "this is a complete
    sequence" outcome (HasValue) is matched and leads to do_successful_sequence_termination."""
    res = RuleResult("R-SEQ-COMPLETE", "a completed sequence found by a trie lookup is fired at every lookup place", floor=2)
    RES = "kanata_parser::trie::GetOrDescendentExistsResult"
    LOOK = "kanata_parser::trie::Trie::get_or_descendant_exists"
    TERM = KAN + "sequences::do_successful_sequence_termination"
    for f in prog.fns.values():
        if f.crate != "kanata_state_machine" or f.derive:
            continue
        looks = blocks_calling(f, f.reachable(), [LOOK])
        if not looks:
            continue
        res.fn(f)
        fires = False
        for sw in discr_switches(prog, f, RES):
            if "HasValue" in sw.arms and blocks_calling(f, sw.arm_region("HasValue"), [TERM]):
                fires = True
        # the sequence buffers are only meaningful while sequence mode is active (they are cleared by the next activation,
        # not when the mode ends): in Kanata's own methods every lookup lies on the Some edge of get_active()
        if f.norm.startswith(KAN + "Kanata::"):
            gas = [(bi, t) for bi, t in f.calls() if callee_name(t) == SS + "::get_active"]
            for n_, (lb, lt) in enumerate(looks):
                gated = False
                for (gb, gt) in gas:
                    if not f.dominates(gb, lb) or gt["t"] is None:
                        continue
                    for sb in sorted(f.reach_from(gt["t"])):
                        tt = f.term(sb)
                        if tt["k"] != "switch" or not is_place(tt["d"]) or proj(tt["d"]):
                            continue
                        dd = f.single_def(tt["d"]["l"])
                        if not (dd and dd[2] == "assign" and dd[3]["k"] == "discr" and dd[3]["p"]["l"] == gt["dest"]["l"]):
                            continue
                        none_t = [tb for v, tb in tt["ts"] if v == 0] or ([tt["o"]] if any(v == 1 for v, _ in tt["ts"]) else [])
                        if none_t and lb not in f.reach_from(none_t[0], avoid=[sb]) and f.dominates(sb, lb):
                            gated = True
                res.inst("lookup-while-active/%s#%d" % (f.norm.split("::")[-1], n_), ok=gated)
                res.oblige(gated)
                if not gated:
                    res.viol("lookup-while-active/%s" % f.norm.split("::")[-1], "%s:%s" % (f.file, lt.get("ln")),
                             "the typed-keys buffer is looked up in the sequence trie without sequence mode being active "
                             "(not on the Some edge of get_active()): a sequence can fire after it timed out or was cancelled")
        res.inst("lookup-place/" + f.norm, lookups=len(looks), has_value_fires=fires)
        res.oblige(fires)
        if not fires:
            res.viol("lookup-place/" + f.norm, f.loc,
                     "%s looks the typed keys up in the sequence trie (%d lookups) but never matches the HasValue outcome into "
                     "do_successful_sequence_termination: a sequence completed at this point does not fire" % (f.norm.split("::")[-1], len(looks)))
    return res


def run_all(prog):
    return [rule_conflict(prog), rule_bits(prog), rule_reset(prog), rule_norm(prog), rule_suppress(prog), rule_complete(prog)]


def rule_hidden(prog):
    """R-SEQ-HIDDEN (C14): a key typed in sequence mode is remembered as hidden exactly in the modes that do not press it.

    do_sequence_press_logic presses a key typed during a sequence at the OS only in the visible-backspaced mode; in the
    hidden modes (hidden-suppressed, hidden-delay-type) the key is in the layout but up at the OS. handle_keystate_changes
    records such keys in keys_hidden_by_sequence so that the OS-repeat handler does not forward repeats for them. The
    two sites must split the modes the same way: a mode that neither presses nor records lets an OS repeat through for
    a key that is up (it turns into a press that is never released until the physical release)."""
    from kq.gf2 import root_desc
    res = RuleResult("R-SEQ-HIDDEN", "keys_hidden_by_sequence records a key iff the sequence mode does not press it at the OS", floor=3)
    ADT = "kanata_parser::cfg::SequenceInputMode"
    try:
        variants = list(prog.enum_variants(ADT).values())
    except Exception:
        ADT = next((n for n in prog.adts if n.endswith("::SequenceInputMode")), None)
        variants = list(prog.enum_variants(ADT).values()) if ADT else []
    p = prog.fn_opt("kanata_state_machine::kanata::sequences::do_sequence_press_logic")
    h = prog.fn_opt("kanata_state_machine::kanata::Kanata::handle_keystate_changes")
    if p is None or h is None or not variants:
        res.viol("anchor", "src/kanata/sequences.rs", "do_sequence_press_logic / handle_keystate_changes / SequenceInputMode not found")
        return res
    res.fn(p)
    res.fn(h)
    press = [bi for bi, t in p.calls() if (callee_name(t) or "").endswith("::press_key") and "KbdOut" not in (callee_name(t) or "")]
    rec = [bi for bi, t in h.calls() if (callee_name(t) or "").split("::")[-1] == "push" and t["args"]
           and (root_desc(h, t["args"][0]) or "").endswith(".keys_hidden_by_sequence")]
    if len(press) != 1 or len(rec) != 1:
        res.viol("anchor/sites", p.loc, "expected one press_key call in do_sequence_press_logic (%d) and one keys_hidden_by_sequence.push in "
                                       "handle_keystate_changes (%d)" % (len(press), len(rec)))
        return res
    for v in variants:
        pressed = press[0] in reach_under_variant(prog, p, ADT, v)
        recorded = rec[0] in reach_under_variant(prog, h, ADT, v)
        ok = pressed != recorded
        res.inst("mode/" + v, where="%s:%s" % (h.file, h.line_of(rec[0])), pressed_at_os=pressed, recorded_as_hidden=recorded, ok=ok)
        res.oblige(ok)
        if not ok:
            res.viol("mode/" + v, "%s:%s" % (h.file, h.line_of(rec[0])),
                     "sequence-input-mode %s: a key typed during a sequence is %s at the OS by do_sequence_press_logic and %s in "
                     "keys_hidden_by_sequence by handle_keystate_changes. %s" %
                     (v, "pressed" if pressed else "not pressed", "recorded" if recorded else "not recorded",
                      "The key is up at the OS but in the layout: once the sequence is over an OS repeat for it is forwarded as a press of "
                      "a key that is up" if not pressed else "A key that is down at the OS no longer repeats"))
    return res
