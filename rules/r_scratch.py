"""R-SCRATCH (C01, C07, C08, C14): the scratch key list is empty whenever an event handler returns.

`Kanata.cur_keys` is a scratch vector: handle_keystate_changes and the OS-repeat handler fill it with the keys
that are down *now*, compare it with prev_keys, and it must be empty again before the next user: tick_states
drains it into prev_keys, handle_repeat clears it. If a handler returns with keys left in it, the next tick's
`cur_keys.extend(..)` appends to the leftovers: a key that was released in between still counts as pressed, its
release is not sent (or sent late), a re-press is swallowed — and no idle check looks at the list.

Rule (interprocedural, on the Kanata methods reachable from the event/tick roots):
  fill site   = a call that can add to cur_keys (extend / push / insert / append with receiver self.cur_keys), or a
                call to a function that may return with the list non-empty;
  empty site  = clear() / drain(..) on self.cur_keys;
  a function *may leave the list non-empty* if from some fill site a return is reachable without passing an empty
  site (error-propagation exits `?` are not counted: the processing loop ends on an error).
No root (handle_input_event, handle_time_ticks, tick_ms) may leave the list non-empty."""
from kq.core import callee_name, is_place, norm_name
from kq.gf2 import root_desc
from kq.report import RuleResult

KAN = "kanata_state_machine::kanata::"
ROOTS = [KAN + "Kanata::handle_input_event", KAN + "Kanata::handle_time_ticks", KAN + "Kanata::tick_ms"]
FILL = ("extend", "push", "insert", "append", "extend_from_slice", "resize")
EMPTY = ("clear", "drain", "truncate")
FIELD = "cur_keys"


def _sites(f):
    fills, empties = [], []
    for bi, t in f.calls():
        a = t["args"][0] if t["args"] else None
        if a is None or not is_place(a):
            continue
        d = root_desc(f, a) or ""
        if not d.endswith("." + FIELD):
            continue
        if not (f.local_ty(a["l"]) or "").startswith("&mut"):
            continue
        short = (callee_name(t) or "").split("::")[-1]
        if short in EMPTY:
            empties.append(bi)
        elif short in FILL:
            fills.append((bi, short))
        else:
            fills.append((bi, short))      # any other &mut use may add to it (e.g. apply_unmod_unshift_keys)
    return fills, empties


def _error_blocks(f):
    out = set()
    for bi, t in f.calls():
        if (callee_name(t) or "").endswith("::from_residual"):
            out.add(bi)
    return out


def run(prog):
    res = RuleResult("R-SCRATCH", "Kanata.cur_keys is empty again whenever an event / tick handler returns", floor=4)
    reach = prog.reachable_from(ROOTS)
    fns = {}
    for n in reach:
        for f in prog.by_norm.get(n, []):
            if f.crate == "kanata_state_machine" and not f.derive:
                fns[f.norm] = f
    direct = {n: _sites(f) for n, f in fns.items()}
    leaves = {}          # norm -> (site line, description) when the function may leave the list non-empty
    changed = True
    while changed:
        changed = False
        for n, f in sorted(fns.items()):
            if n in leaves:
                continue
            fills, empties = direct[n]
            sites = [(bi, "%s()" % s) for bi, s in fills]
            for bi, t in f.calls():
                cn = norm_name(callee_name(t) or "")
                if cn in leaves and cn != n:
                    sites.append((bi, "%s() (which can return with keys left: %s)" % (cn.split("::")[-1], leaves[cn][1])))
            if not sites:
                continue
            avoid = set(empties) | _error_blocks(f)
            rets = set(f.return_blocks())
            for bi, what in sites:
                t = f.term(bi)
                start = t.get("t")
                if start is None:
                    continue
                if start in avoid:
                    continue
                r = f.reach_from(start, avoid=avoid)
                if r & rets:
                    leaves[n] = (t.get("ln"), what)
                    changed = True
                    break
    n_fill = sum(len(direct[n][0]) for n in fns)
    n_empty = sum(len(direct[n][1]) for n in fns)
    res.notes.append("fill sites: %d, empty sites: %d; functions that may return with keys left: %s"
                     % (n_fill, n_empty, sorted(x.split("::")[-1] for x in leaves)))
    for n, f in sorted(fns.items()):
        fills, empties = direct[n]
        if fills or empties or n in leaves:
            res.fn(f)
            res.inst("sites/" + n.split("::")[-1], where=f.loc, fills=len(fills), empties=len(empties), may_leave_keys=n in leaves, ok=True)
    if n_fill < 2 or n_empty < 2:
        res.viol("anchor", "src/kanata/mod.rs", "lost sight of the fill / empty sites of cur_keys (%d / %d)" % (n_fill, n_empty))
    for r in ROOTS:
        f = fns.get(r)
        if f is None:
            res.viol("anchor/" + r.split("::")[-1], "src/kanata/mod.rs", "root %s not found" % r)
            continue
        ok = r not in leaves
        res.inst("root/" + r.split("::")[-1], where=f.loc, ok=ok)
        res.oblige(ok)
        if not ok:
            res.viol("root/" + r.split("::")[-1], "%s:%s" % (f.file, leaves[r][0]),
                     "%s can return with keys left in the scratch list cur_keys: after %s no clear()/drain(..) is passed on the way "
                     "out. The next tick appends to the leftovers, so a key released in between still counts as pressed: its release is "
                     "not sent and a quick re-press is swallowed" % (r.split("::")[-1], leaves[r][1]))
    return res
