"""R-BUILD-ALL (C09, C10, C11, C12, C13, C14, C16, C18): a table-building loop stores every item it is given.

The parser turns each configuration list (defoverrides, deflayer / deflayermap pairs, defsrc, defvar, defalias,
defvirtualkeys, defseq, defchords, switch cases ...) into a table with one loop: take the next item, parse it,
store it. Every iteration either stores into the table or leaves with an error. A path round the loop that skips
the store ("this one is shadowed anyway", "nothing to store for `_`", "already mapped") silently drops a configured
item: the override never fires, the explicit `_` becomes XX, the key is not intercepted.

Rule: for each (function, table) pair below - the pairs were found by inference over all loops of the parser (a
loop whose every header-to-back-edge path passes a store into a collection that lives outside the loop) and the
ones that build a table a claimed property depends on were kept - every path from the loop header back to the
header passes a store (push / insert / entry / append / extend / indexed assignment) into that table.
Error exits leave the loop and are not paths round it."""
import re

from kq.core import callee_name, is_place, proj
from kq.gf2 import root_desc
from kq.report import RuleResult
from rules.r_loopvar import loops_of

KP = "kanata_parser::cfg::"
SINK = ("push", "insert", "push_back", "extend", "append", "push_str", "ssm_insert_ksorted", "extend_from_slice")
ENTRY_STORE = ("or_insert", "or_insert_with", "or_insert_with_key", "insert_entry")

# (function, name of the local / field that is the table) -> (properties, what an item is,
#   number of loops that store into the table on every path, number of loops that store conditionally by design + why)
TABLES = {
    (KP + "key_override::Overrides::new", "overrides_by_osc"): (("C13",), "a configured override", 1, 0, ""),
    (KP + "parse_overrides", "overrides"): (("C13",), "a defoverrides entry", 1, 0, ""),
    (KP + "parse_layers", "layers_cfg"): (("C04", "C16"), "a deflayer position", 3, 4,
                                         "the deflayermap pair loop and the three loops inside it that apply an any-key entry (`_ __ ___`) in place, "
                                         "only to positions that are still unmapped (explicit pairs store unconditionally, and `_` / `__` cover "
                                         "disjoint positions while `___` excludes both, so the order of the pairs does not matter)"),
    (KP + "parse_defsrc", "mkeys"): (("C11",), "a defsrc key", 1, 1, "the process-unmapped-keys loop skips the excepted keys"),
    (KP + "parse_defsrc", "ordered_codes"): (("C11",), "a defsrc key", 1, 0, ""),
    (KP + "parse_deflocalkeys", "localkeys"): (("C11",), "a deflocalkeys pair", 1, 0, ""),
    (KP + "parse_vars", "vars"): (("C16",), "a defvar pair", 1, 0, ""),
    (KP + "read_alias_name_action_pairs", "aliases"): (("C16",), "a defalias pair", 1, 0, ""),
    (KP + "parse_fake_keys", "virtual_keys"): (("C18",), "a deffakekeys pair", 1, 0, ""),
    (KP + "parse_virtual_keys", "virtual_keys"): (("C18",), "a defvirtualkeys pair", 1, 0, ""),
    (KP + "parse_sequences", "sequences"): (("C12",), "a permutation of a defseq entry", 1, 0, ""),
    (KP + "parse_chord_groups", "chords"): (("C09",), "a defchords entry", 1, 0, ""),
    (KP + "chord::parse_defchordv2", "mapping"): (("C09",), "a defchordsv2 entry", 1, 0, ""),
    (KP + "key_outputs::create_key_outputs", "outs"): (("C14",), "a layer's key-output table", 1, 0, ""),
    (KP + "switch::parse_switch", "cases"): (("C10",), "a switch case", 1, 0, ""),
}


def _stores(f, lp):
    """{table name: set of blocks that store into it} for collections living outside the loop"""
    out = {}

    def add(d, b):
        m = re.match(r"_(\d+)", d or "")
        if not m or any(x[0] in lp.body for x in f.defs().get(int(m.group(1)), [])):
            return
        tail = d.split(".")[-1].split("[")[0].split("@")[0]
        name = tail if "." in d and not tail.isdigit() and tail != "pointer" else f.local_name(int(m.group(1)))
        if name:
            out.setdefault(name, set()).add(b)
        ln = f.local_name(int(m.group(1)))
        if ln and ln != name:
            out.setdefault(ln, set()).add(b)
    def entry_of(op, depth=0):
        """the `map.entry(k)` call an Entry value derives from (through and_modify / copies)"""
        while depth < 6 and is_place(op) and not proj(op):
            d = f.single_def(op["l"])
            if d is None:
                return None
            if d[2] == "call":
                short = (callee_name(d[3]) or "").split("::")[-1]
                if short == "entry":
                    return d[3]
                if short in ("and_modify",) and d[3]["args"]:
                    op = d[3]["args"][0]
                    depth += 1
                    continue
                return None
            if d[2] == "assign" and d[3]["k"] == "use":
                op = d[3]["a"]
                depth += 1
                continue
            return None
        return None
    for b in lp.body:
        t = f.term(b)
        if t["k"] == "call" and t["args"] and is_place(t["args"][0]):
            short = (callee_name(t) or "").split("::")[-1]
            if short in SINK and (f.local_ty(t["args"][0]["l"]) or "").startswith("&mut"):
                add(root_desc(f, t["args"][0]), b)
            elif short in ENTRY_STORE:
                e = entry_of(t["args"][0])
                if e is not None and e["args"] and is_place(e["args"][0]):
                    add(root_desc(f, e["args"][0]), b)
        for st in f.stmts(b):
            if st["k"] == "assign" and proj(st["p"]) and any(isinstance(e, dict) and ("ix" in e or "cix" in e) for e in proj(st["p"])):
                add(root_desc(f, {"l": st["p"]["l"]}), b)
    return out


def _skipping_path(f, lp, blocks):
    """a block sequence header -> header that avoids `blocks`, as the list of source lines of its branch points (or None)"""
    seen, st = set(), [(lp.h, ())]
    while st:
        b, trail = st.pop()
        if b in seen or b in blocks or b not in lp.body:
            continue
        seen.add(b)
        t = f.term(b)
        tr = trail + ((t.get("ln"),) if t["k"] == "switch" and t.get("ln") else ())
        for s_ in f.succs(b):
            if s_ == lp.h:
                return [x for x in tr if x][-4:]
            st.append((s_, tr))
    return None


DROPPING = ("filter", "filter_map", "take", "take_while", "skip", "skip_while", "step_by", "flatten", "flat_map", "map_while", "scan",
            "zip", "dedup", "chain", "rev", "peekable", "find", "position", "nth", "last")


def _collected_whole(prog, f, table):
    """1 if the named local is the result of `collect()` / `from_iter` over a chain in which no adaptor can drop an item (and
    the element is not produced by a fallible step that is ignored)"""
    from kq.analysis import backward_slice
    for l in range(len(f.locals)):
        if f.local_name(l) != table:
            continue
        for (bb, idx, kind, payload) in f.defs().get(l, []):
            src = None
            if kind == "call" and (callee_name(payload) or "").split("::")[-1] in ("collect", "from_iter") and payload["args"]:
                src = payload["args"][0]
            elif kind == "assign" and payload["k"] == "use" and is_place(payload["a"]):
                d2 = f.single_def(payload["a"]["l"]) if not proj(payload["a"]) else None
                if d2 and d2[2] == "call" and (callee_name(d2[3]) or "").split("::")[-1] in ("collect", "from_iter") and d2[3]["args"]:
                    src = d2[3]["args"][0]
            if src is None:
                continue
            _, cals, _ = backward_slice(f, src)
            names = {c.split("::")[-1] for c in cals}
            if "map" in names and not (names & set(DROPPING)):
                return 1
    return 0


def _run(prog, pid):
    res = RuleResult("R-BUILD-ALL", "every iteration of a table-building loop stores its item (or leaves with an error)", floor=1)
    for (fn, table), (props, what, n_all, n_cond, why_cond) in sorted(TABLES.items()):
        if pid not in props:
            continue
        f = prog.fn_opt(fn)
        key = "%s/%s" % (fn.split("::")[-1], table)
        if f is None:
            res.viol(key + "|anchor", "parser/src/cfg", "function %s not found" % fn)
            continue
        res.fn(f)
        found = []
        for li, lp in enumerate(loops_of(f)):
            st = _stores(f, lp)
            if table in st:
                found.append((li, lp, st[table]))
        always, skipping = [], []
        for li, lp, blocks in found:
            if any(o is not lp and o.body < lp.body and blocks <= o.body for _, o, _b in found):
                continue      # the stores happen in a nested loop, which is counted on its own
            skip = _skipping_path(f, lp, blocks)
            (always if skip is None else skipping).append((lp, skip))
        collected = 0
        if len(always) < n_all:
            # the loop written as an iterator chain: `let table: T = items.iter().map(..).collect();` stores one entry per item by
            # construction, provided that no adaptor of the chain can drop items
            collected = _collected_whole(prog, f, table)
        ok = len(always) + collected >= n_all and len(skipping) <= n_cond
        res.inst(key, where=f.loc, loops_storing_always=len(always), **({"built_by_collect": collected} if collected else {}), loops_storing_conditionally=len(skipping),
                 reviewed_always=n_all, reviewed_conditional=n_cond, ok=ok)
        res.oblige(ok)
        if not ok:
            res.viol(key, f.loc,
                     "%d loop(s) of %s store into `%s` on every path round the loop and %d can go round without storing; reviewed: %d and %d%s. "
                     "A loop that used to record every item now skips some: %s can be silently dropped. Loops that can skip the store "
                     "(header line: branch lines of a skipping path): %s"
                     % (len(always), fn.split("::")[-1], table, len(skipping), n_all, n_cond, (" (" + why_cond + ")") if why_cond else "",
                        what, "; ".join("%s: %s" % (f.line_of(lp.h), ",".join(map(str, sk)) or "-") for lp, sk in skipping) or "none"))
    return res


def run_for(pid):
    def run(prog, pid=pid):
        return _run(prog, pid)
    run.__name__ = "run_" + pid
    return run
