"""C13 rules (narrow).
R-OVR-SCRATCH  per-tick override scratch is reset before it is used; nothing is mutated when no overrides exist.
R-OVR-MODS     the two modifier classifications agree and the eight masks are distinct single bits.
R-OVR-BOTH     tick path and repeat path apply the override pass before looking at the key list.
R-OVR-RELEASE  release-on-activation never erases a held modifier.
"""
from kq.analysis import backward_slice, blocks_calling, discr_switches
from kq.core import is_place, callee_name, const_val, is_const, norm_name, proj
from kq.report import RuleResult
from rules.r_cancel import closure_arg
from rules.r_doaction import receiver_fields

KO = "kanata_parser::cfg::key_override::"
OSC = "kanata_parser::keys::OsCode"
KAN = "kanata_state_machine::kanata::"


def rule_scratch(prog):
    res = RuleResult("R-OVR-SCRATCH", "override scratch state is reset before use on every tick", floor=3)
    f = prog.fn(KO + "Overrides::override_keys")
    res.fn(f)
    clean = blocks_calling(f, f.reachable(), [KO + "OverrideStates::cleanup"])
    users = blocks_calling(f, f.reachable(), [KO + "OverrideStates::update", KO + "OverrideStates::add_overrides", "alloc::vec::Vec::retain"])
    res.inst("anchors", cleanup=len(clean), users=len(users))
    if len(clean) != 1 or len(users) < 3:
        res.viol("anchors", f.loc, "override_keys lost its cleanup/update/retain/add_overrides structure")
        return res
    cb = clean[0][0]
    for b, t in users:
        ok = f.dominates(cb, b)
        res.inst("cleanup-before/%s" % callee_name(t).split("::")[-1], ok=ok)
        res.oblige(ok)
        if not ok:
            res.viol("cleanup-before/%s" % callee_name(t).split("::")[-1], "%s:%s" % (f.file, t.get("ln")),
                     "override scratch is used without having been reset this tick: last tick's substitutions leak into this key list")
    # the is_empty early return precedes every mutation
    emp = blocks_calling(f, f.reachable(), [KO + "Overrides::is_empty"])
    ok = bool(emp) and all(f.dominates(emp[0][0], b) for b, _ in users + clean)
    res.inst("empty-check-first", ok=ok)
    if not ok:
        res.viol("empty-check-first", f.loc, "the no-overrides early return no longer precedes the mutations of the key list")
    return res


def _bool_true_variants(prog, f, adt):
    """variants of `adt` for which a bool-returning `matches!`-style fn may return true"""
    out = set()
    for sw in discr_switches(prog, f, adt)[:1]:
        for v in sw.all_variants:
            for b in sw.arm_reach(v):
                for st in f.stmts(b):
                    if st["k"] == "assign" and st["p"]["l"] == 0 and not proj(st["p"]) and st["rv"]["k"] == "use" \
                            and is_const(st["rv"]["a"]) and const_val(st["rv"]["a"]) == 1:
                        out.add(v)
    return out


def rule_mods(prog):
    res = RuleResult("R-OVR-MODS", "mask_for_key and OsCode::is_modifier classify the same keys; masks are distinct bits", floor=8)
    mf = prog.fn(KO + "mask_for_key")
    im = prog.fn(OSC + "::is_modifier")
    res.fn(mf)
    res.fn(im)
    masks = {}
    for sw in discr_switches(prog, mf, OSC)[:1]:
        for v, tb in sw.arms.items():
            for b in mf.reach_from(tb, avoid=[sw.bb]):
                for st in mf.stmts(b):
                    if st["k"] == "assign" and st["rv"]["k"] == "agg" and st["rv"].get("v") == "Some" and st["rv"]["ops"]:
                        o = st["rv"]["ops"][0]
                        val = const_val(o) if is_const(o) else None
                        if val is None:
                            fl, cal, consts = backward_slice(mf, o)
                            vals = [const_val(c) for c in consts if const_val(c) is not None]
                            # `1 << n`
                            if len(vals) == 2 and 1 in vals:
                                vals.remove(1)
                                val = 1 << vals[0]
                            elif vals == [1]:
                                val = 1
                        masks[v] = val
                if v in masks:
                    break
    mods = _bool_true_variants(prog, im, OSC)
    for v in sorted(set(masks) | mods):
        ok = v in masks and v in mods
        res.inst("key/" + v, mask=masks.get(v), is_modifier=v in mods)
        res.oblige(ok)
        if not ok:
            res.viol("key/" + v, mf.loc, "%s: mask_for_key gives %s but OsCode::is_modifier says %s" % (v, masks.get(v), v in mods))
    vals = [m for m in masks.values() if m is not None]
    ok = len(vals) == len(masks) and len(set(vals)) == len(vals) and all(bin(m).count("1") == 1 and m < 256 for m in vals)
    res.inst("masks-distinct-bits", masks=sorted(vals))
    res.oblige(ok)
    if not ok:
        res.viol("masks-distinct-bits", mf.loc, "modifier masks must be distinct single bits of a u8: %s" % sorted((k, v) for k, v in masks.items()))
    return res


def rule_both(prog):
    res = RuleResult("R-OVR-BOTH", "both output paths apply global overrides before inspecting the key list", floor=2)
    for nm in ("Kanata::handle_keystate_changes", "Kanata::handle_repeat_actual"):
        f = prog.fn(KAN + nm)
        res.fn(f)
        ov = blocks_calling(f, f.reachable(), [KO + "Overrides::override_keys"])
        # inspections of cur_keys / prev_keys
        insp = []
        for bi, t in f.calls():
            if callee_name(t) in ("core::slice::contains",):
                fl, _, _ = backward_slice(f, t["args"][0])
                if ("kanata_state_machine::kanata::Kanata", "cur_keys") in fl or ("kanata_state_machine::kanata::Kanata", "prev_keys") in fl:
                    insp.append((bi, t))
        ok = bool(ov) and bool(insp) and all(any(f.dominates(o, b) for o, _ in ov) for b, _ in insp)
        res.inst(nm.split("::")[-1], override_calls=len(ov), inspections=len(insp), ok=ok)
        res.oblige(ok)
        if not ok:
            res.viol(nm.split("::")[-1], f.loc, "%s inspects cur_keys/prev_keys on a path that did not run Overrides::override_keys first" % nm)
    # eager-erasure marking receives the same override_states
    f = prog.fn(KAN + "Kanata::handle_keystate_changes")
    mk = blocks_calling(f, f.reachable(), [KO + "mark_overridden_nonmodkeys_for_eager_erasure"])
    res.inst("eager-erasure-call", n=len(mk))
    if not mk:
        res.viol("eager-erasure-call", f.loc, "handle_keystate_changes no longer marks overridden keys for eager erasure")
    return res


def rule_release(prog):
    res = RuleResult("R-OVR-RELEASE", "release-on-activation erases only non-modifier keys", floor=1)
    f = prog.fn(KAN + "Kanata::handle_keystate_changes")
    res.fn(f)
    isms = blocks_calling(f, f.reachable(), [OSC + "::is_modifier"])
    n = 0
    for bi, t in f.calls():
        if callee_name(t) != "heapless::vec::Vec::retain" or len(t["args"]) < 2:
            continue
        fl = receiver_fields(f, t)
        if not fl or fl[-1] != "states":
            continue
        c = closure_arg(prog, f, t["args"][1])
        if c is None or not blocks_calling(c, c.reachable(), ["kanata_keyberon::layout::State::release_state"]):
            continue
        _, callees, _ = backward_slice(f, t["args"][1])
        if not any((x or "").startswith(KO) for x in callees):
            continue
        n += 1
        ok = False
        for ib, it in isms:
            if not f.dominates(ib, bi):
                continue
            nb = it["t"]
            tt = f.term(nb)
            if tt["k"] == "switch":
                true_t = [tb for v, tb in tt["ts"] if v == 1] or ([tt["o"]] if any(v == 0 for v, _ in tt["ts"]) else [])
                if true_t and bi not in f.reach_from(true_t[0], avoid=[nb, ib]):
                    ok = True
        res.inst("erase#%d" % n, where="%s:%s" % (f.file, t.get("ln")), guarded_by_not_modifier=ok)
        res.oblige(ok)
        if not ok:
            res.viol("erase#%d" % n, "%s:%s" % (f.file, t.get("ln")),
                     "override release-on-activation erases a key taken from the override scratch without the !is_modifier() "
                     "guard: a modifier the user still holds is dropped and never comes back")
    # the keys reported by the override scratch are *output key codes*: they identify states by key code, never by
    # input coordinate (on a remapped layer the two differ)
    ro = blocks_calling(f, f.reachable(), [KO + "OverrideStates::removed_oscs"])
    res.inst("anchors", removed_oscs_calls=len(ro), keycode_erases=n)
    as_coord = []
    for bi, si, st in f.all_rvalues():
        rv = st["rv"]
        if rv["k"] == "agg" and rv.get("adt") == "kanata_keyberon::layout::Event":
            for o in rv["ops"]:
                _, cals, _ = backward_slice(f, o)
                if (KO + "OverrideStates::removed_oscs") in cals:
                    as_coord.append(st.get("ln"))
    res.oblige(not as_coord)
    for ln in as_coord:
        res.viol("scratch-key-used-as-coordinate", "%s:%s" % (f.file, ln),
                 "a key code taken from the override scratch is used as the coordinate of an input event: on a layer where the key "
                 "at that coordinate outputs something else, an unrelated held key is released")
    if ro and n == 0 and not as_coord:
        res.viol("anchors", f.loc, "release-on-activation no longer erases the overridden keys' states by key code")
    return res


def rule_scan(prog):
    """R-OVR-SCAN: override_keys looks at every key in the list: several overridden keys can be active at once (a multi
    or an output chord puts them into the layout in one step), so the scan loop has no early exit."""
    from rules.r_repeat import early_loop_exits
    res = RuleResult("R-OVR-SCAN", "the override pass visits every active key", floor=1)
    f = prog.fn(KO + "Overrides::override_keys")
    res.fn(f)
    loops = sum(1 for _, t in f.calls() if "desugar:ForLoop" in (t.get("mac") or []) and (callee_name(t) or "").endswith("::next"))
    ex = early_loop_exits(f)
    res.inst("override_keys/loops", loops=loops, early_exits=len(ex))
    res.oblige(not ex)
    if loops == 0:
        res.viol("anchors", f.loc, "override_keys has no loop over the key list any more")
    for (ll, xl) in ex[:2]:
        res.viol("early-exit", "%s:%s" % (f.file, xl),
                 "the scan over the active keys (loop at line %s) stops early: with two overridden keys active at once only the first is "
                 "replaced" % ll)
    return res


def run_all(prog):
    return [rule_scratch(prog), rule_mods(prog), rule_both(prog), rule_release(prog), rule_longest(prog), rule_scan(prog)]


def rule_longest(prog):
    """R-OVR-LONGEST: the longest-match counter only advances for an override whose modifiers match."""
    res = RuleResult("R-OVR-LONGEST", "only a matching override can raise the longest-match size", floor=1)
    f = prog.fn(KO + "Overrides::update_keys")
    res.fn(f)
    # "the override with the most modifiers wins": the choice among matching overrides is made by comparing
    # modifier *counts* (length of in_mod_oscs / popcount), not some other quantity
    cnt_cmp = 0
    for g in [f] + prog.closures_of(f):
        for bi, si, st in g.all_rvalues():
            rv = st["rv"]
            if rv["k"] == "bin" and rv["op"] in ("Lt", "Le", "Gt", "Ge"):
                for o in (rv["a"], rv["b"]):
                    flds, cals, _ = backward_slice(g, o)
                    if any(fl[1] == "in_mod_oscs" for fl in flds) or any(c_.endswith("count_ones") for c_ in cals):
                        cnt_cmp += 1
                        break
    res.inst("selection-compares-modifier-counts", comparisons=cnt_cmp)
    res.oblige(cnt_cmp > 0)
    if cnt_cmp == 0:
        res.viol("selection-compares-modifier-counts", f.loc,
                 "update_keys no longer compares the number of modifiers of the matching overrides (no ordering comparison depends on "
                 "in_mod_oscs.len() or a popcount): with several matching overrides the one with the most modifiers need not win")
    # the running maximum lives in the filter closure's captured counter: it is only meaningful if the filtered iterator is
    # consumed completely and front to back (`.last()`, a for loop, fold); `.next_back()`, `.rev()`, `.next()`, `.find()`
    # take the first acceptable element from one end instead of the longest match
    consumers = [((callee_name(t) or "").split("::")[-1], t.get("ln")) for bi, t in f.calls()
                 if "Filter<" in (f.local_ty(t["args"][0]["l"]) if t["args"] and is_place(t["args"][0]) else "") or
                 "Filter<" in ((callee_name(t) or "") + (t.get("ga") or ""))]
    partial = [c for c in consumers if c[0] in ("next_back", "rev", "next", "find", "nth", "nth_back", "rfind", "find_map", "position", "any", "min_by_key")]
    full = [c for c in consumers if c[0] in ("last", "fold", "for_each", "max_by_key", "max_by", "reduce", "count", "collect")]
    ok_scan = bool(full) and not partial
    res.inst("selection-scans-every-override-in-order", consumers=[c[0] for c in consumers], ok=ok_scan)
    res.oblige(ok_scan)
    if not ok_scan:
        res.viol("selection-scans-every-override-in-order", "%s:%s" % (f.file, (partial or consumers or [("", f.line_of(0))])[0][1]),
                 "the filtered override iterator of update_keys is consumed by %s: the filter keeps a running 'longest so far', which is "
                 "only the longest match if the iterator is walked completely from the front (`.last()`); taken from the back or cut "
                 "short, the override that wins depends on the order in defoverrides, not on the number of modifiers"
                 % ([c[0] for c in (partial or consumers)] or "nothing that walks it completely"))
    n = 0
    for c in prog.closures_of(f):
        gm = blocks_calling(c, c.reachable(), [KO + "Override::get_mod_mask"])
        if not gm:
            continue
        # the mask test: Eq whose operands derive from get_mod_mask()
        tests = []
        for bi, si, st in c.all_rvalues():
            rv = st["rv"]
            if rv["k"] == "bin" and rv["op"] in ("Eq", "Ne"):
                _, cal_a, _ = backward_slice(c, rv["a"])
                _, cal_b, _ = backward_slice(c, rv["b"])
                if (KO + "Override::get_mod_mask") in (cal_a | cal_b):
                    tests.append((bi, st["p"]["l"], rv["op"]))
        # stores through captured &mut usize upvars (the counter)
        stores = []
        import re as _re
        from kq.gf2 import root_desc as _rd
        for bi, si, st in c.all_rvalues():
            p_ = st["p"]
            if proj(p_) and st["rv"]["k"] in ("use", "bin") and _re.match(r"^_1\.\d+$", _rd(c, p_) or ""):
                stores.append((bi, st.get("ln")))
        for (sb, ln) in stores:
            n += 1
            ok = False
            for (tb, tl, op) in tests:
                # the switch on the test result
                for b2 in c.reach_from(tb):
                    t2 = c.term(b2)
                    if t2["k"] == "switch" and t2.get("dty") == "bool" and is_place_local(t2["d"], tl):
                        want = 1 if op == "Eq" else 0
                        tgt = [x for v, x in t2["ts"] if v == want] or ([t2["o"]] if all(v != want for v, _ in t2["ts"]) else [])
                        oth = [x for x in c.succs(b2) if x not in tgt]
                        if tgt and c.dominates(b2, sb) and sb in c.reach_from(tgt[0], avoid=[b2]) and not any(sb in c.reach_from(o, avoid=[b2]) for o in oth):
                            ok = True
            res.inst("counter-store#%d" % n, line=ln, under_matching_mask=ok)
            res.oblige(ok)
            if not ok:
                res.viol("counter-store@%s" % c.norm.split("key_override::")[-1], "%s:%s" % (c.file, ln),
                         "the longest-match size is raised before / without the modifier-mask test having succeeded: a longer override "
                         "that does not match shadows a shorter one that does")
    if n == 0 and cnt_cmp > 0:
        res.viol("anchors", f.loc, "could not find the longest-match counter update in update_keys' filter closure")
    return res


def is_place_local(o, l):
    return isinstance(o, dict) and o.get("l") == l and not proj(o)
