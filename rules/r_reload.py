"""C15 rules: live reload.
R-RELOAD-ATOMIC  nothing is written before the new file parsed; (strong) no fallible exit after the first write.
R-RELOAD-FIELDS  fields initialised from the parsed config at start-up are refreshed on reload (or exempt);
                 Kanata::new and new_from_str agree; zippychord is reconfigured unconditionally.
R-RELOAD-GATE    reload is attempted only when requested and keys are up / 1 s idle; the request is consumed first.
R-RELOAD-NOTIFY  both client notifications are sent on the success path; prev_layer comes from the new layout.
"""
from kq.analysis import backward_slice, blocks_calling, discr_switches
from kq.core import callee_name, callee_written, const_def, is_const, is_place, proj, proj_fields, rvalue_operands
from kq.report import RuleResult

K = "kanata_state_machine::kanata::Kanata"
CFG_FAMILY = "kanata_parser::cfg::"

# Kanata fields set from the config at start-up that a live reload deliberately leaves alone
RELOAD_EXEMPT = {
    "kbd_in_paths": "input device selection: needs a restart (documented)",
    "continue_if_no_devices": "input device selection: needs a restart",
    "include_names": "input device selection: needs a restart",
    "exclude_names": "input device selection: needs a restart",
    "device_detect_mode": "input device selection: needs a restart",
    "kbd_out": "the output device is kept; its reloadable options are refreshed through update_kbd_out (checked)",
    "x11_repeat_rate": "applied through Kanata::set_repeat_rate(new value) during reload (checked)",
}


def _cfg_fields(f, op):
    fl, cal, _ = backward_slice(f, op)
    return {(a, x) for a, x in fl if a.startswith(CFG_FAMILY) and a.split("::")[-1].startswith("Cfg")}


def _new_fields(prog, fname):
    f = prog.fn(fname)
    for bi, si, st in f.all_rvalues():
        rv = st["rv"]
        if rv["k"] == "agg" and rv.get("adt") == K:
            out = {}
            for name, op in zip(rv["fn"], rv["ops"]):
                c = _cfg_fields(f, op)
                if c:
                    out[name] = c
            return f, out
    return f, None


def _ok_arm(prog, f):
    parse = blocks_calling(f, f.reachable(), ["kanata_parser::cfg::new_from_file"])
    if len(parse) != 1:
        return None, None, None
    pb, pt = parse[0]
    for sw in discr_switches(prog, f, "core::result::Result"):
        if f.dominates(pb, sw.bb) and sw.place.get("l") == pt["dest"]["l"]:
            return pb, sw, sw.target("Ok")
    return pb, None, None


def rule_atomic(prog):
    res = RuleResult("R-RELOAD-ATOMIC", "a reload changes nothing unless the new file parsed", floor=10)
    f = prog.fn(K + "::do_live_reload")
    res.fn(f)
    pb, sw, okb = _ok_arm(prog, f)
    if sw is None or okb is None:
        res.viol("shape", f.loc, "do_live_reload no longer matches on the result of cfg::new_from_file")
        return res
    ok_region = f.dominated_by(okb)
    writes = []
    restores = set()
    for bi, si, st in f.all_rvalues():
        pf = proj_fields(st["p"])
        if pf and pf[0][0] == K:
            # `self.cur_cfg_idx = self.loaded_cfg_idx` outside the Ok arm undoes the request: the selection goes back to the
            # configuration that is in effect (a store whose value is read from the field that tracks the loaded file)
            from kq.analysis import backward_slice as _bs
            src_fields = set()
            for o in rvalue_operands(st["rv"]):
                src_fields |= {x[1] for x in _bs(f, o, maxdepth=4)[0] if x[0] == K}
            if pf[0][2] == "cur_cfg_idx" and src_fields == {"loaded_cfg_idx"}:
                restores.add(bi)
                continue
            writes.append((bi, "self." + pf[0][2], st.get("ln")))
        for o in rvalue_operands(st["rv"]):
            if is_const(o) and (const_def(o) or "").endswith("MAPPED_KEYS"):
                writes.append((bi, "MAPPED_KEYS", st.get("ln")))
    for bi, t in f.calls():
        cn = callee_name(t) or ""
        if cn.endswith("ZchState::zch_configure") or cn.endswith("update_kbd_out") or cn.endswith("Kanata::set_repeat_rate"):
            writes.append((bi, cn.split("::")[-1] + "()", t.get("ln")))
        for pfx in proj_fields(t["dest"]):
            if pfx[0] == K:
                writes.append((bi, "self." + pfx[2], t.get("ln")))
                break
    # process-wide state behind a mutex: `*GUARDED.lock() = ..` and `&mut self` methods called on a guard
    guard_muts = {}
    for bi, t in f.calls():
        if (callee_written(t) or "") == "core::ops::deref::DerefMut::deref_mut" and "MutexGuard" in (f.place_ty(t["args"][0]) or "") and not proj(t["dest"]):
            inner = (f.local_ty(t["dest"]["l"]) or "").replace("&mut ", "")
            guard_muts[t["dest"]["l"]] = inner.split("<")[0].split("::")[-1] or "guarded"
    for bi, si, st in f.all_rvalues():
        p_ = st["p"]
        if proj(p_) and p_["l"] in guard_muts and proj(p_)[0] == "*":
            writes.append((bi, "global:" + guard_muts[p_["l"]], st.get("ln")))
    for bi, t in f.calls():
        if t["args"] and is_place(t["args"][0]) and not proj(t["args"][0]) and t["args"][0]["l"] in guard_muts and (callee_name(t) or "").startswith("kanata"):
            writes.append((bi, "global:" + guard_muts[t["args"][0]["l"]] + "." + callee_name(t).split("::")[-1] + "()", t.get("ln")))
        # drop glue of the replaced value runs as a call/drop on the same place: ignore
    res.inst("restore/self.cur_cfg_idx", stores=len(restores), how="selection index set back to the loaded file's index (not a change of behaviour)")
    seen = set()
    for (bi, what, ln) in writes:
        if what in seen:
            continue
        seen.add(what)
        ok = bi in ok_region
        res.inst("write/" + what, after_successful_parse=ok)
        res.oblige(ok)
        if not ok:
            res.viol("write/" + what, "%s:%s" % (f.file, ln),
                     "%s is changed on a path that does not pass the Ok arm of cfg::new_from_file: a failed reload would no longer "
                     "behave as if no reload had been requested" % what)
    # strong form: Err exits after the first self-field write
    first_writes = [bi for (bi, what, ln) in writes if what.startswith(("self.", "global:")) or what in ("MAPPED_KEYS", "update_kbd_out()")]
    err_exits = []
    for bi, t in f.calls():
        cn = callee_name(t) or ""
        if cn.endswith("FromResidual<core::result::Result<core::convert::Infallible, E>>>::from_residual") and bi in ok_region:
            # which fallible call feeds this `?` (the closest dominating kanata call that returns a Result)
            src, src_b = "?", None
            for b2, t2 in f.calls():
                if b2 in ok_region and f.dominates(b2, bi) and (callee_name(t2) or "").startswith("kanata") and "Result" in (f.local_ty(t2["dest"]["l"]) or ""):
                    if src_b is None or f.dominates(src_b, b2):
                        src, src_b = callee_name(t2).split("::")[-1], b2
            # the failure of a call is not "after" that call's own effect
            after_write = any(bi in f.reach_from(w) and bi != w and w != src_b for w in first_writes)
            if after_write:
                err_exits.append((bi, src, t.get("ln")))
    for (bi, src, ln) in err_exits:
        res.inst("late-error-exit/" + src, line=ln)
        res.oblige(False)
        res.viol("late-error-exit/" + src, "%s:%s" % (f.file, ln),
                 "do_live_reload can still fail (`%s(..)?`) after it has replaced kanata's state: the new configuration is then "
                 "active but the reload is reported as failed and clients are not notified" % src)
    return res


def rule_fields(prog):
    res = RuleResult("R-RELOAD-FIELDS", "everything start-up takes from the config is refreshed by a reload", floor=20)
    fnew, snew = _new_fields(prog, K + "::new")
    fstr, sstr = _new_fields(prog, K + "::new_from_str")
    res.fn(fnew)
    res.fn(fstr)
    if snew is None or sstr is None:
        res.viol("shape", fnew.loc, "could not find the Kanata struct literal in new / new_from_str")
        return res
    f = prog.fn(K + "::do_live_reload")
    res.fn(f)
    sreload = {}
    for bi, si, st in f.all_rvalues():
        pf = proj_fields(st["p"])
        if pf and pf[0][0] == K:
            c = set()
            for o in rvalue_operands(st["rv"]):
                c |= _cfg_fields(f, o)
            if c:
                sreload.setdefault(pf[0][2], set()).update(c)
    for bi, t in f.calls():
        pf = proj_fields(t["dest"])
        if pf and pf[0][0] == K:
            c = set()
            for o in t["args"]:
                c |= _cfg_fields(f, o)
            if c:
                sreload.setdefault(pf[0][2], set()).update(c)
    for name in sorted(snew):
        in_reload = name in sreload
        ex = RELOAD_EXEMPT.get(name)
        res.inst("field/" + name, reloaded=in_reload, exempt=ex)
        ok = in_reload or ex is not None
        res.oblige(ok)
        if not ok:
            res.viol("field/" + name, f.loc,
                     "Kanata.%s is initialised from the parsed configuration at start-up but not refreshed by do_live_reload: after a "
                     "reload kanata does not behave like a fresh instance of the new configuration" % name)
        elif in_reload:
            # same config source in both
            a = {x for x in snew[name] if not x[1] in ("options", "linux_opts")}
            b = {x for x in sreload[name] if not x[1] in ("options", "linux_opts")}
            if a != b:
                res.viol("field-source/" + name, f.loc, "Kanata.%s comes from %s at start-up but from %s on reload" % (name, sorted(a), sorted(b)))
    # new vs new_from_str
    for name in sorted(set(snew) | set(sstr)):
        if (name in snew) != (name in sstr):
            res.viol("new-vs-new_from_str/" + name, fstr.loc, "Kanata.%s is taken from the config in only one of new / new_from_str" % name)
    # exempt entries that are refreshed through a call: the call must be there
    for callee, arg_field in (("update_kbd_out", None), ("Kanata::set_repeat_rate", "linux_x11_repeat_delay_rate")):
        cs = [(b, t) for b, t in f.calls() if (callee_name(t) or "").endswith(callee)]
        ok = bool(cs)
        if ok and arg_field:
            ok = any(any(x[1] == arg_field for x in _cfg_fields(f, a)) for _, t in cs for a in t["args"])
        res.inst("via-call/" + callee, ok=ok)
        if not ok:
            res.viol("via-call/" + callee, f.loc, "do_live_reload no longer calls %s with the new configuration" % callee)
    # zippychord: reconfigured on every successful reload, like at start-up
    pb, sw, okb = _ok_arm(prog, f)
    z = [(b, t) for b, t in f.calls() if (callee_name(t) or "").endswith("ZchState::zch_configure")]
    znew = [(b, t) for b, t in fnew.calls() if (callee_name(t) or "").endswith("ZchState::zch_configure")]
    if znew:
        ok = False
        if z and okb is not None:
            ok_returns = [bi for bi, si, st in f.all_rvalues() if st["p"]["l"] == 0 and st["rv"]["k"] == "agg" and st["rv"].get("v") == "Ok"]
            reach = f.reach_from(okb, avoid=[b for b, _ in z])
            ok = not any(r in reach for r in ok_returns)
        res.inst("zippychord/unconditional", ok=ok)
        res.oblige(ok)
        if not ok:
            res.viol("zippychord/unconditional", f.loc,
                     "a reload can succeed without zch_configure having run, although start-up always configures zippychord: the old "
                     "chord table survives a reload to a config without defzippy")
    return res


def rule_gate(prog):
    res = RuleResult("R-RELOAD-GATE", "reload runs only when requested and safe; the request is consumed before the attempt", floor=2)
    f = prog.fn(K + "::handle_time_ticks")
    res.fn(f)
    calls = blocks_calling(f, f.reachable(), [K + "::do_live_reload"])
    if len(calls) != 1:
        res.viol("shape", f.loc, "expected one do_live_reload call in handle_time_ticks, found %d" % len(calls))
        return res
    cb, ct = calls[0]
    # the store `live_reload_requested = false` dominates the call
    stores = [bi for bi, si, st in f.all_rvalues()
              if proj_fields(st["p"]) and proj_fields(st["p"])[-1] == (K, None, "live_reload_requested")]
    ok = any(f.dominates(s_, cb) for s_ in stores)
    res.inst("request-consumed-first", ok=ok)
    res.oblige(ok)
    if not ok:
        res.viol("request-consumed-first", "%s:%s" % (f.file, ct.get("ln")), "live_reload_requested is not cleared before do_live_reload: a failing reload would be retried every tick")
    # the call is conditional on the request flag, and on (prev_keys and cur_keys both empty) or the idle fallback
    def switch_blocks_reading(field):
        out = []
        for bi in f.reachable():
            t = f.term(bi)
            if t["k"] == "switch":
                fl, _, _ = backward_slice(f, t["d"])
                if (K, field) in fl:
                    out.append(bi)
        return out
    A, C, B, R = (switch_blocks_reading(x) for x in ("prev_keys", "cur_keys", "ticks_since_idle", "live_reload_requested"))
    res.inst("gate-switches", prev_keys=len(A), cur_keys=len(C), ticks_since_idle=len(B), requested=len(R))
    ok_req = bool(R) and cb not in f.reach_from(0, avoid=R)
    ok_keys = bool(A) and bool(C) and bool(B) and cb not in f.reach_from(0, avoid=A + B) and cb not in f.reach_from(0, avoid=C + B)
    res.oblige(ok_req)
    res.oblige(ok_keys)
    if not ok_req:
        res.viol("gate/request", f.loc, "do_live_reload is reachable without testing live_reload_requested")
    if not ok_keys:
        res.viol("gate/keys-up-or-idle", f.loc, "do_live_reload is reachable without (prev_keys and cur_keys empty) or the ticks_since_idle fallback having been tested")
    return res


def rule_notify(prog):
    res = RuleResult("R-RELOAD-NOTIFY", "a successful reload notifies clients of the reload and of the active layer", floor=2)
    f = prog.fn(K + "::do_live_reload")
    res.fn(f)
    SM = "kanata_tcp_protocol::ServerMessage"
    aggs = {}
    for bi, si, st in f.all_rvalues():
        rv = st["rv"]
        if rv["k"] == "agg" and rv.get("adt") == SM:
            aggs[rv["v"]] = bi
    sends = blocks_calling(f, f.reachable(), ["std::sync::mpsc::SyncSender::try_send"])
    if not sends and not aggs:
        res.inst("tcp-disabled", note="tcp_server feature off in this configuration")
        res.floor = 0
        return res
    for v in ("ConfigFileReload", "LayerChange"):
        ok = v in aggs and any(b in f.reach_from(aggs[v]) for b, _ in sends)
        res.inst("message/" + v, ok=ok)
        res.oblige(ok)
        if not ok:
            res.viol("message/" + v, f.loc, "a successful reload no longer sends ServerMessage::%s" % v)
    # prev_layer is taken from current_layer() evaluated after the layout was replaced
    cur = blocks_calling(f, f.reachable(), ["kanata_keyberon::layout::Layout::current_layer"])
    lay = [bi for bi, si, st in f.all_rvalues() if proj_fields(st["p"]) and proj_fields(st["p"])[0] == (K, None, "layout")]
    pl = [(bi, st) for bi, si, st in f.all_rvalues() if proj_fields(st["p"]) and proj_fields(st["p"])[0] == (K, None, "prev_layer")]
    ok = bool(cur) and bool(lay) and bool(pl) and all(any(f.dominates(l_, c) for l_ in lay) for c, _ in cur)
    if ok:
        for bi, st in pl:
            _, cal, _ = backward_slice(f, st["rv"].get("a"))
            ok = ok and "kanata_keyberon::layout::Layout::current_layer" in cal
    res.inst("prev_layer-from-new-layout", ok=ok)
    if not ok:
        res.viol("prev_layer-from-new-layout", f.loc, "prev_layer is not updated from the new layout's current layer after a reload")
    return res


def _global_writes(f):
    """[(block, name)] for stores through / &mut-self calls on a MutexGuard (process-wide state)"""
    guard_muts, out = {}, []
    for bi, t in f.calls():
        if (callee_written(t) or "") == "core::ops::deref::DerefMut::deref_mut" and "MutexGuard" in (f.place_ty(t["args"][0]) or "") and not proj(t["dest"]):
            inner = (f.local_ty(t["dest"]["l"]) or "").replace("&mut ", "")
            guard_muts[t["dest"]["l"]] = inner.split("<")[0].split("::")[-1] or "guarded"
    for bi, si, st in f.all_rvalues():
        p_ = st["p"]
        if proj(p_) and p_["l"] in guard_muts and proj(p_)[0] == "*":
            out.append((bi, guard_muts[p_["l"]]))
    for bi, t in f.calls():
        if t["args"] and is_place(t["args"][0]) and not proj(t["args"][0]) and t["args"][0]["l"] in guard_muts and (callee_name(t) or "").startswith("kanata"):
            out.append((bi, guard_muts[t["args"][0]["l"]] + "." + callee_name(t).split("::")[-1] + "()"))
    return out


def rule_globals(prog):
    """R-RELOAD-GLOBALS: the process-wide tables a configuration installs (the intercepted key set MAPPED_KEYS, the
    zippychord state) are replaced on *every* path of a successful reload, not only under some condition."""
    res = RuleResult("R-RELOAD-GLOBALS", "a successful reload always installs the new global tables", floor=1)
    f = prog.fn(K + "::do_live_reload")
    res.fn(f)
    pb, sw, okb = _ok_arm(prog, f)
    if okb is None:
        res.viol("shape", f.loc, "do_live_reload no longer matches on the result of cfg::new_from_file")
        return res
    writes = {}
    for (bi, name) in _global_writes(f):
        writes.setdefault(name, []).append(bi)
    # successful exits: returns that are not reached through an error propagation
    err_blocks = {bi for bi, t in f.calls() if "from_residual" in (callee_name(t) or "")}
    for bi, si, st in f.all_rvalues():
        if st["p"]["l"] == 0 and not proj(st["p"]) and st["rv"]["k"] == "agg" and st["rv"].get("v") == "Err":
            err_blocks.add(bi)
    ok_rets = [bi for bi, si, st in f.all_rvalues()
               if st["p"]["l"] == 0 and not proj(st["p"]) and st["rv"]["k"] == "agg" and st["rv"].get("adt") == "core::result::Result" and st["rv"].get("v") == "Ok"]
    for name, blocks in sorted(writes.items()):
        reach = f.reach_from(okb, avoid=blocks + list(err_blocks))
        ok = not any(r in reach for r in ok_rets)
        res.inst("global/" + name, write_sites=len(blocks), on_every_successful_path=ok)
        res.oblige(ok)
        if not ok:
            res.viol("global/" + name, f.loc,
                     "do_live_reload can report success without having replaced the global %s: the new configuration runs with the old "
                     "configuration's table" % name)
    if not writes:
        res.viol("anchors", f.loc, "do_live_reload writes no mutex-guarded global any more (MAPPED_KEYS / zippychord)")
    return res


def rule_parse_globals(prog):
    """R-PARSE-GLOBALS: the parser keeps the deflocalkeys names in a process-wide table. Each parse installs its own
    table unconditionally, otherwise names (or overridden default names) of the previous file leak into the next
    one and a reload is no longer equivalent to a fresh start."""
    res = RuleResult("R-PARSE-GLOBALS", "every parse installs its own local-key name table", floor=1)
    f = prog.fn("kanata_parser::cfg::parse_cfg_raw_string")
    res.fn(f)
    REPL = "kanata_parser::keys::replace_custom_str_oscode_mapping"
    calls = [bi for bi, t in f.calls() if callee_name(t) == REPL]
    ok_rets = [bi for bi, si, st in f.all_rvalues()
               if st["p"]["l"] == 0 and not proj(st["p"]) and st["rv"]["k"] == "agg" and st["rv"].get("adt") == "core::result::Result" and st["rv"].get("v") == "Ok"]
    reach = f.reach_from(0, avoid=calls)
    ok = bool(calls) and not any(r in reach for r in ok_rets)
    res.inst("replace-on-every-successful-path", calls=len(calls), ok_returns=len(ok_rets), ok=ok)
    res.oblige(ok)
    if not ok:
        res.viol("replace-on-every-successful-path", f.loc,
                 "parse_cfg_raw_string can succeed without calling replace_custom_str_oscode_mapping: key names defined by the "
                 "previously loaded file stay valid for this one")
    return res


def rule_pending(prog):
    """R-RELOAD-PENDING: a reload request that has to wait (an output key is still down) stays pending: the request flag
    is only ever set to a constant or OR-ed with its previous value, never overwritten by a fresh non-constant value."""
    res = RuleResult("R-RELOAD-PENDING", "a deferred reload request is not forgotten", floor=2)
    n = 0
    for f in prog.fns.values():
        if f.crate != "kanata_state_machine" or f.derive:
            continue
        for bi, si, st in f.all_rvalues():
            pf = proj_fields(st["p"])
            if not (pf and pf[-1][0] == K and pf[-1][2] == "live_reload_requested"):
                continue
            rv = st["rv"]
            n += 1
            how = None
            if rv["k"] == "use" and is_const(rv["a"]):
                how = "constant"
            elif rv["k"] == "bin" and rv["op"] == "BitOr":
                for o in (rv["a"], rv["b"]):
                    if is_place(o) and any(x[0] == K and x[2] == "live_reload_requested" for x in proj_fields(o)):
                        how = "or-ed with its previous value"
            elif rv["k"] == "agg":
                how = "constant"
            ok = how is not None
            res.inst("store/%s#%d" % (f.norm.split("::")[-1], n), how=how or "overwritten", where="%s:%s" % (f.file, st.get("ln")))
            res.oblige(ok)
            if not ok:
                res.viol("store/%s" % f.norm.split("::")[-1], "%s:%s" % (f.file, st.get("ln")),
                         "live_reload_requested is overwritten with a freshly computed value: a request that was deferred because an "
                         "output key was still down is forgotten on the next tick")
        for bi, t in f.calls():
            pf = proj_fields(t["dest"])
            if pf and pf[-1][0] == K and pf[-1][2] == "live_reload_requested":
                n += 1
                res.inst("store/%s#%d" % (f.norm.split("::")[-1], n), how="overwritten by a call result", where="%s:%s" % (f.file, t.get("ln")))
                res.oblige(False)
                res.viol("store/%s" % f.norm.split("::")[-1], "%s:%s" % (f.file, t.get("ln")),
                         "live_reload_requested is overwritten with the result of %s: a request that was deferred because an output key "
                         "was still down is forgotten on the next tick" % (callee_name(t) or "?").split("::")[-1])
    if n == 0:
        res.viol("anchors", "src/kanata/mod.rs", "no store to Kanata.live_reload_requested found")
    return res


def run_all(prog):
    return [rule_atomic(prog), rule_fields(prog), rule_gate(prog), rule_notify(prog), rule_pending(prog), rule_globals(prog), rule_parse_globals(prog)]


RUNTIME_RESET = {
    "scroll_state": "keeps scrolling on its own", "hscroll_state": "keeps scrolling on its own",
    "move_mouse_state_vertical": "keeps moving the pointer on its own", "move_mouse_state_horizontal": "keeps moving the pointer on its own",
    "caps_word": "keeps shifting typed letters until its timeout",
    "unmodded_keys": "keys held outside the layout by unmod", "unshifted_keys": "keys held outside the layout by unshift",
    "waiting_for_idle": "on-idle actions that name virtual keys of the old configuration",
    "vkeys_pending_release": "pending releases that name virtual keys of the old configuration",
    "last_pressed_key": "what `rpt` repeats: a key typed under the replaced configuration",
    "dynamic_macro_record_state": "a recording in progress simply goes on under the new configuration",
    "dynamic_macro_replay_state": "a replay in progress goes on feeding events to the new layout",
}


def rule_runtime(prog):
    """R-RELOAD-RUNTIME (C15): a successful reload clears the run-time state that would go on producing output by itself
    or that refers to keys of the replaced configuration: after the reload kanata behaves like a fresh instance of the
    new file. Each field of the table is set to None / cleared in do_live_reload, after the new file has parsed."""
    from kq.gf2 import root_desc
    res = RuleResult("R-RELOAD-RUNTIME", "a reload clears self-acting and configuration-bound run-time state", floor=9)
    f = prog.fn(K + "::do_live_reload")
    res.fn(f)
    pb, sw, okb = _ok_arm(prog, f)
    ok_region = f.dominated_by(okb) if okb is not None else set()
    cleared = {}
    for bi, si, st in f.all_rvalues():
        pf = proj_fields(st["p"])
        if pf and pf[0][0] == K and len(pf) == 1 and bi in ok_region:
            rv = st["rv"]
            if rv["k"] == "use" and is_place(rv["a"]) and not proj(rv["a"]):
                d = f.single_def(rv["a"]["l"])
                if d and d[2] == "assign":
                    rv = d[3]
            if rv["k"] == "agg" and rv.get("v") == "None":
                cleared[pf[0][2]] = "= None"
            elif rv["k"] == "agg" and rv.get("v") == "No" and (rv.get("adt") or "").endswith("KeyCode"):
                cleared[pf[0][2]] = "= KeyCode::No"
            elif rv["k"] == "use" and is_const(rv["a"]) and "KeyCode" in str(rv["a"]["c"].get("ty")):
                cleared[pf[0][2]] = "= constant key code"
    for bi, t in f.calls():
        if (callee_name(t) or "").split("::")[-1] == "clear" and t["args"] and bi in ok_region:
            d = root_desc(f, t["args"][0]) or ""
            if d.startswith("_1."):
                cleared[d[3:].split(".")[0]] = "clear()"
    for name, why in sorted(RUNTIME_RESET.items()):
        ok = name in cleared
        res.inst("reset/" + name, how=cleared.get(name), ok=ok)
        res.oblige(ok)
        if not ok:
            res.viol("reset/" + name, f.loc,
                     "a successful reload does not clear Kanata.%s (%s): the new configuration starts with state of the old one, so "
                     "kanata does not behave like a fresh instance (e.g. the wheel keeps turning, the letter after the reload is shifted)"
                     % (name, why))
    return res


def rule_index(prog):
    """R-RELOAD-INDEX (C15): the index of the configuration file to reload is not computed with wrapping arithmetic.

    lrld-next / lrld-prev move `cur_cfg_idx` round the list of configuration files. `cur.wrapping_sub(1) % len` looks
    like the mirror image of `(cur + 1) % len`, but from index 0 it is `usize::MAX % len`, which is `len - 1` only when
    len is a power of two: with 3 files lrld-prev from the first file reloads the first file again. Any wrapping /
    overflowing operation on the way into the stored index has this problem (the modulus is a run-time length)."""
    from kq.analysis import backward_slice
    from kq.core import proj_fields, rvalue_operands
    res = RuleResult("R-RELOAD-INDEX", "stores to Kanata.cur_cfg_idx are not derived from wrapping arithmetic", floor=4)
    n = 0
    for f in prog.fns.values():
        if f.crate != "kanata_state_machine" or f.derive:
            continue
        k = 0
        for bi in f.reachable():
            for si, st in enumerate(f.stmts(bi)):
                if st["k"] != "assign" or not proj(st["p"]):
                    continue
                pf = proj_fields(st["p"])
                if not pf or pf[-1][2] != "cur_cfg_idx":
                    continue
                callees = set()
                for op in rvalue_operands(st["rv"]):
                    callees |= backward_slice(f, op, maxdepth=20)[1]
                bad = sorted(c.split("::")[-1] for c in callees if any(w in c.split("::")[-1] for w in ("wrapping_", "overflowing_", "unchecked_")))
                key = "%s/store%s" % (f.norm.split("::")[-1], "#%d" % k if k else "")
                k += 1
                n += 1
                res.fn(f)
                res.inst(key, where="%s:%s" % (f.file, f.line_of(bi, si)), ok=not bad)
                res.oblige(not bad)
                # a selection made by a key action (lrld-next / prev / num) is computed from the current selection and the
                # number of files only - not from the index of the file that is loaded, which differs while a reload is pending
                if f.norm.endswith("Kanata::handle_keystate_changes"):
                    from kq.analysis import control_deps
                    flds, seen_l, seen_b = set(), set(), set()
                    ow, bw = list(rvalue_operands(st["rv"])), [bi]
                    while ow or bw:
                        while ow:
                            o = ow.pop()
                            if not is_place(o):
                                continue
                            flds |= {x for (a_, v_, x) in proj_fields(o) if (a_ or "").endswith("kanata::Kanata")}
                            if o["l"] in seen_l:
                                continue
                            seen_l.add(o["l"])
                            for (db, di, kind, payload) in f.defs().get(o["l"], []):
                                bw.append(db)
                                if kind == "assign":
                                    ow.extend(rvalue_operands(payload))
                                elif kind == "call":
                                    ow.extend(payload["args"])
                        while bw:
                            b0 = bw.pop()
                            if b0 in seen_b:
                                continue
                            seen_b.add(b0)
                            for S in control_deps(f, b0):
                                t = f.term(S)
                                if t.get("dty") != "bool":
                                    continue          # stop at the match on the action (an enum discriminant)
                                ow.append(t["d"])
                                bw.append(S)
                    extra = sorted(flds & {"loaded_cfg_idx"})
                    res.inst(key + "/inputs", where="%s:%s" % (f.file, f.line_of(bi, si)), depends_on=sorted(flds), ok=not extra)
                    res.oblige(not extra)
                    if extra:
                        res.viol(key + "/inputs", "%s:%s" % (f.file, f.line_of(bi, si)),
                                 "the file index chosen by a live-reload key action depends on Kanata.%s: `loaded_cfg_idx` and `cur_cfg_idx` "
                                 "are equal only while no reload is pending, so a second lrld-next / lrld-prev pressed while the first is "
                                 "deferred wraps at the wrong place (wrong file, or an index past the end of cfg_paths)" % ", ".join(extra))
                if bad:
                    res.viol(key, "%s:%s" % (f.file, f.line_of(bi, si)),
                             "the index stored in cur_cfg_idx is computed with %s: after wrapping below zero the value is usize::MAX, and "
                             "reducing that modulo the number of configuration files gives the last file only when that number is a power "
                             "of two - with 3, 5, 6, 7 files lrld-prev from the first file reloads the wrong file" % ", ".join(bad))
    return res
