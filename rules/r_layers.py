"""Rules over parser::cfg::parse_layers.
R-MAPPED (C11): a deflayermap input key is always added to the intercepted-key set before its action is stored.
R-FILL   (C04): the default fill of unassigned positions depends on the block-unmapped-keys option and the
                key, never on which layer is being filled; index 0 is forced to NoOp last.
"""
from kq.analysis import backward_slice, blocks_calling
from kq.core import Resolver, callee_name, is_place, proj, rvalue_operands
from kq.report import RuleResult

ACTION = "kanata_keyberon::action::Action"


def _slice_locals(f, operand, stop_at_next=True):
    seen = set()
    work = [operand]
    while work:
        o = work.pop()
        if not is_place(o):
            continue
        l = o["l"]
        if l in seen:
            continue
        seen.add(l)
        for e in proj(o):
            if isinstance(e, dict) and "ix" in e:
                work.append({"l": e["ix"]})
        for (bb, idx, kind, payload) in f.defs().get(l, []):
            if kind == "assign":
                work.extend(rvalue_operands(payload))
            elif kind == "call":
                if stop_at_next and (callee_name(payload) or "").endswith("::next"):
                    continue
                work.extend(payload["args"])
    return seen


def _from_key_name(f, operand):
    _, callees, consts = backward_slice(f, operand)
    if "kanata_parser::keys::str_to_oscode" in callees:
        return True
    return any((c["c"].get("fn") or "").endswith("keys::str_to_oscode") for c in consts)


def rule_mapped(prog):
    res = RuleResult("R-MAPPED", "deflayermap inputs are registered as intercepted keys unconditionally", floor=1)
    f = prog.fn("kanata_parser::cfg::parse_layers")
    res.fn(f)
    r = Resolver(f)
    inserts = []
    for b, t in f.calls():
        if (callee_name(t) or "").endswith("HashSet::insert") and t["args"]:
            rr = r.root(t["args"][0])
            if rr[0] == "param" and rr[1] == 2:
                inserts.append((b, t))
    stores = []
    for bi, si, st in f.all_rvalues():
        p = st["p"]
        ix = [e["ix"] for e in proj(p) if isinstance(e, dict) and "ix" in e]
        # layers_cfg[level][0][key] = action, or row[key] = action through `row = &mut layers_cfg[level][0]`
        rv = st["rv"]
        vty = (f.local_ty(rv["a"]["l"]) or "") if rv["k"] == "use" and is_place(rv.get("a")) and not proj(rv["a"]) else ""
        if len(ix) >= 2 or (len(ix) == 1 and vty.startswith("kanata_keyberon::action::Action<")):
            if _from_key_name(f, {"l": ix[-1]}):
                stores.append((bi, st))
    res.inst("anchors", mapped_keys_inserts=len(inserts), keyed_stores=len(stores))
    if not stores:
        res.viol("anchors", f.loc, "could not find the deflayermap store indexed by the parsed input key")
        return res
    for n, (sb, st) in enumerate(stores):
        ok = False
        for ib, it in inserts:
            if f.dominates(ib, sb) and _from_key_name(f, it["args"][1]):
                ok = True
        res.inst("store#%d" % n, line=st.get("ln"), insert_dominates=ok)
        res.oblige(ok)
        if not ok:
            res.viol("store#%d" % n, "%s:%s" % (f.file, st.get("ln")),
                     "a deflayermap action is stored for an input key without mapped_keys.insert(that key) on every path: the key "
                     "would be passed straight through by the OS event loop and its mapping never fire")
    return res


def rule_fill(prog):
    res = RuleResult("R-FILL", "default fill (NoOp / Trans) is layer-independent; position 0 ends as NoOp", floor=2)
    f = prog.fn("kanata_parser::cfg::parse_layers")
    res.fn(f)
    # the two fill aggregates assigned into the same place through a deref'd iterator item
    fills = {}
    for bi, si, st in f.all_rvalues():
        rv = st["rv"]
        if rv["k"] == "agg" and rv.get("adt") == ACTION and rv.get("v") in ("NoOp", "Trans") and not rv["ops"]:
            fills.setdefault(rv["v"], []).append((bi, st))
    # layer index locals: first index of stores into layers_cfg[..][..][..]
    lvl = set()
    for bi, si, st in f.all_rvalues():
        ix = [e["ix"] for e in proj(st["p"]) if isinstance(e, dict) and "ix" in e]
        if len(ix) >= 2:
            cur = ix[0]
            while cur is not None:
                lvl.add(cur)
                d = f.single_def(cur)
                cur = None
                if d and d[2] == "assign" and d[3]["k"] == "use" and is_place(d[3]["a"]) and not proj(d[3]["a"]):
                    cur = d[3]["a"]["l"]
    for bi, t in f.calls():
        pass
    res.inst("anchors", noop=len(fills.get("NoOp", [])), trans=len(fills.get("Trans", [])), layer_index_locals=len(lvl))
    # candidate decision switches: bool switches with one successor region building NoOp and the other Trans
    decided = 0
    for b in sorted(f.reachable()):
        t = f.term(b)
        if t["k"] != "switch" or t.get("dty") != "bool":
            continue
        ss = f.succs(b)
        if len(ss) != 2:
            continue
        def first_fill(s0):
            # nearest fill aggregate reachable without passing another switch
            seen, work = set(), [s0]
            while work:
                x = work.pop()
                if x in seen:
                    continue
                seen.add(x)
                for v, lst in fills.items():
                    if any(bb == x for bb, _ in lst):
                        return v
                if f.term(x)["k"] in ("goto",):
                    work.extend(f.succs(x))
            return None
        kinds = {first_fill(s0) for s0 in ss}
        if kinds == {"NoOp", "Trans"}:
            # include the chain of && conditions: this switch and switches that dominate it within the same loop body
            # the whole && chain: this switch plus the switches that dominate it inside the same loop body
            heads = [hb for hb, ht in f.calls() if (callee_name(ht) or "").endswith("::next") and f.dominates(hb, b)]
            head = [h for h in heads if all(f.dominates(x, h) for x in heads)]
            chain = [b] + [x for x in f.reachable() if f.term(x)["k"] == "switch" and f.dominates(x, b) and head and f.dominates(head[0], x) and x != b]
            flds, locs = set(), set()
            for x in chain:
                fl_, _, _ = backward_slice(f, f.term(x)["d"])
                flds |= fl_
                locs |= _slice_locals(f, f.term(x)["d"])
            uses_opt = ("kanata_parser::cfg::ParserState", "block_unmapped_keys") in flds
            uses_layer = bool(locs & lvl)
            uses_defsrc = ("kanata_parser::cfg::ParserState", "mapping_order") in flds
            decided += 1
            res.inst("decision@%d" % b, line=t.get("ln"), reads_block_unmapped_keys=uses_opt, depends_on_layer_index=uses_layer,
                     spares_defsrc_keys=uses_defsrc)
            res.oblige(not uses_layer)
            if uses_opt:
                res.oblige(uses_defsrc)
                if not uses_defsrc:
                    res.viol("decision/blocks-defsrc-keys", "%s:%s" % (f.file, t.get("ln")),
                             "the block-unmapped-keys fill does not look at the defsrc keys (ParserState.mapping_order): a defsrc key "
                             "that a deflayermap layer does not list is turned into a no-op instead of staying transparent, although "
                             "block-unmapped-keys only concerns keys that are not in defsrc")
            if uses_layer:
                res.viol("decision/layer-dependent", "%s:%s" % (f.file, t.get("ln")),
                         "the choice between NoOp and Trans for unassigned keys depends on the layer index: with block-unmapped-keys "
                         "an unmapped key is blocked on some layers and leaks through to defsrc on others")
    if decided == 0:
        res.viol("decision/none", f.loc, "could not find the NoOp/Trans default-fill decision in parse_layers")
    # conditions guarding the NoOp fill: every switch between the fill loop head and the NoOp aggregate
    for (nb, st) in fills.get("NoOp", []):
        pass
    # final [0][0] = NoOp: a NoOp store with constant indices that post-dates the fill in the iteration
    last = False
    for (nb, st) in fills.get("NoOp", []):
        p = st["p"]
        ix = [e for e in proj(p) if isinstance(e, dict) and ("ix" in e or "cix" in e)]
        if len(ix) >= 2:
            last = True
    for bi, si, st in f.all_rvalues():
        if st["rv"]["k"] == "use" and is_place(st["rv"]["a"]):
            pass
    res.inst("index0-noop-store", present=last)
    if not last:
        # the store may go through a temporary: look for an indexed store whose source is a NoOp aggregate local
        r = Resolver(f)
        for bi, si, st in f.all_rvalues():
            ix = [e for e in proj(st["p"]) if isinstance(e, dict) and ("ix" in e or "cix" in e)]
            if len(ix) >= 2 and st["rv"]["k"] == "use":
                rr = r.root(st["rv"]["a"])
                if rr[0] == "agg" and rr[1][2].get("v") == "NoOp":
                    last = True
        res.instances[-1]["present"] = last
    if not last:
        res.viol("index0-noop-store", f.loc, "parse_layers no longer forces position 0 of every layer to NoOp")
    return res


def run_all(prog):
    return [rule_mapped(prog), rule_fill(prog)]


def rule_press_dedup(prog):
    """R-PRESS-DEDUP (C04): keyberon can report one key code several times in one tick (e.g. `(multi lsft S-1)`); the OS
    sees one press because the press loop (a) skips codes found in prev_keys and (b) records each code it handles in
    prev_keys before pressing it."""
    from kq.analysis import blocks_calling
    from kq.core import callee_name
    from rules.r_doaction import receiver_fields
    res = RuleResult("R-PRESS-DEDUP", "a key code reported twice in one tick is pressed once", floor=2)
    f = prog.fn("kanata_state_machine::kanata::Kanata::handle_keystate_changes")
    res.fn(f)
    presses = blocks_calling(f, f.reachable(), ["kanata_state_machine::kanata::output_logic::press_key"])
    seqs = blocks_calling(f, f.reachable(), ["kanata_state_machine::kanata::sequences::do_sequence_press_logic"])
    contains, pushes = [], []
    for bi, t in f.calls():
        cn = callee_name(t) or ""
        fl = receiver_fields(f, t)
        if fl and fl[-1] == "prev_keys":
            if cn.endswith("::contains"):
                contains.append((bi, t))
            elif cn.endswith("Vec::push"):
                pushes.append((bi, t))
    res.inst("anchors", press_calls=len(presses), prev_keys_contains=len(contains), prev_keys_push=len(pushes))
    if not presses:
        res.viol("anchors", f.loc, "press loop not found")
        return res
    # (c) prev_keys, the list the release loop walks, holds every code once: it only grows by a push that is skipped
    # when the code is already in it
    n_ins = 0
    for g in prog.fns.values():
        if g.crate != "kanata_state_machine" or g.derive:
            continue
        g_contains = [(bi, t) for bi, t in g.calls() if (callee_name(t) or "").endswith("::contains") and (receiver_fields(g, t) or [None])[-1] == "prev_keys"]
        for bi, t in g.calls():
            meth = (callee_name(t) or "").split("::")[-1]
            if meth not in ("push", "append", "extend", "extend_from_slice", "insert"):
                continue
            fl = receiver_fields(g, t)
            if not (fl and fl[-1] == "prev_keys"):
                continue
            n_ins += 1
            ok = False
            if meth == "push":
                for (cb, ct) in g_contains:
                    nb = ct["t"]
                    tt = g.term(nb) if nb is not None else None
                    if tt and tt["k"] == "switch" and g.dominates(cb, bi):
                        true_t = [tb for v, tb in tt["ts"] if v == 1] or ([tt["o"]] if any(v == 0 for v, _ in tt["ts"]) else [])
                        if true_t and bi not in g.reach_from(true_t[0], avoid=[nb, cb]):
                            ok = True
            res.inst("prev_keys-insert/%s#%d" % (g.norm.split("::")[-1], n_ins), how=meth, only_new_codes=ok)
            res.oblige(ok)
            if not ok:
                res.viol("prev_keys-insert/%s/%s" % (g.norm.split("::")[-1], meth), "%s:%s" % (g.file, t.get("ln")),
                         "prev_keys grows by %s without a preceding !prev_keys.contains(..) test: a key code the layout reports twice is "
                         "remembered twice and its release is sent twice" % meth)
    # (d) nothing else writes prev_keys: any other call that takes `&mut prev_keys` (mem::swap with the scratch list, dedup,
    # extend ...) can bring in codes that were not checked one by one
    from kq.gf2 import root_desc
    from kq.core import is_place as _isp
    ALLOWED_MUT = ("clear", "push", "retain", "truncate", "deref_mut", "as_mut_slice", "iter_mut")
    n_other = 0
    for g in prog.fns.values():
        if g.crate != "kanata_state_machine" or g.derive:
            continue
        for bi, t in g.calls():
            meth = (callee_name(t) or "").split("::")[-1]
            for a in t["args"]:
                if _isp(a) and (root_desc(g, a) or "").endswith(".prev_keys") and (g.local_ty(a["l"]) or "").startswith("&mut"):
                    if meth in ALLOWED_MUT or meth in ("append", "extend", "extend_from_slice", "insert"):
                        continue      # insertions are judged above
                    n_other += 1
                    res.inst("prev_keys-writer/%s/%s" % (g.norm.split("::")[-1], meth), only_new_codes=False)
                    res.oblige(False)
                    res.viol("prev_keys-writer/%s/%s" % (g.norm.split("::")[-1], meth), "%s:%s" % (g.file, t.get("ln")),
                             "prev_keys is written by %s(): codes enter the list without the one-by-one !prev_keys.contains(..) test "
                             "(Vec::dedup only removes *adjacent* duplicates), so a code that the layout reports twice with another "
                             "code in between is remembered twice and released twice" % meth)
    loop_calls = [(pb, pt) for (pb, pt) in presses + seqs if any(f.dominates(cb, pb) for cb, _ in contains)]
    if not loop_calls:
        res.viol("press-loop/not-skipped", f.loc, "no press of a current key code is preceded by a prev_keys.contains() test: codes "
                 "already pressed (or reported twice in one tick) are pressed again")
    for n, (pb, pt) in enumerate(loop_calls):
        what = (callee_name(pt) or "").split("::")[-1]
        skip_ok = False
        for (cb, ct) in contains:
            nb = ct["t"]
            tt = f.term(nb) if nb is not None else None
            if tt and tt["k"] == "switch" and f.dominates(cb, pb):
                true_t = [tb for v, tb in tt["ts"] if v == 1] or ([tt["o"]] if any(v == 0 for v, _ in tt["ts"]) else [])
                if true_t and pb not in f.reach_from(true_t[0], avoid=[nb, cb]):
                    skip_ok = True
        rec_ok = any(f.dominates(ub, pb) and any(f.dominates(cb, ub) for cb, _ in contains) for ub, _ in pushes)
        ok = skip_ok and rec_ok
        res.inst("%s#%d" % (what, n), skips_known_codes=skip_ok, records_code_first=rec_ok)
        res.oblige(ok)
        if not ok:
            res.viol("%s/%s" % (what, "not-recorded" if skip_ok else "not-skipped"), "%s:%s" % (f.file, pt.get("ln")),
                     "%s is reached for a key code without the code %s: a code that the layout reports twice in one tick is pressed "
                     "twice at the OS" % (what, "having been pushed to prev_keys first" if skip_ok else "being checked against prev_keys"))
    return res
