"""R-ARG-NAMES (C12, C14, and wherever a property's anchor functions call helpers): arguments are not mixed up with a
same-typed neighbour.

Two name-based checks on every call from a kanata function to a kanata function (the callee's parameter names and the
caller's variable names come from the debug info in the MIR facts). Both fire only on a *contradiction between names*,
never on a mere difference, so a correct program has zero reports:

 swapped   the argument for parameter `p` is a struct field named `q`, and `q` is the name of *another* parameter of the
           same callee (`apply_unmod_unshift_keys(.., &self.unshifted_keys /* for unmodded_keys */, ..)`).
 shadowed  the argument for parameter `p` is a struct field whose name ends in `p` (`self.sequence_timeout` for `timeout`)
           although the caller has a variable named exactly `p` in scope - typically the payload of the action being handled -
           and the call is not a recursive one (tree walkers pass `x.timeout_action` for `action` legitimately).

Instances are the arguments whose field name equals the parameter name (the positive evidence that the names carry
meaning in this code base)."""
from kq.core import Resolver, callee_name, norm_name
from kq.report import RuleResult


def _run(prog, crates=("kanata",)):
    res = RuleResult("R-ARG-NAMES", "no call passes a field named like another parameter, or a look-alike field instead of the variable in scope", floor=20)
    for f in sorted(prog.fns.values(), key=lambda x: x.norm):
        if not f.crate.startswith("kanata") or f.derive or "::tests::" in f.norm:
            continue
        lnames = None
        for bi, t in f.calls():
            g = prog.fn_opt(norm_name(callee_name(t) or ""))
            if g is None or not g.crate.startswith("kanata") or g.derive:
                continue
            P = [g.local_name(i) for i in range(1, g.nargs + 1)]
            if len(t["args"]) != len(P):
                continue
            R = Resolver(f)
            for i, a in enumerate(t["args"]):
                if not P[i] or P[i] == "self":
                    continue
                r = R.root(a)
                flds = [x[2] for x in r[2] if x[2] and not str(x[2]).isdigit()]
                X = flds[-1] if flds else None
                if X is None:
                    continue
                where = "%s:%s" % (f.file, t.get("ln"))
                cal = g.norm.split("::")[-1]
                key = "%s->%s/%s" % (f.norm.split("::{closure")[0].split("::")[-1], cal, P[i])
                if X == P[i]:
                    res.fn(f)
                    res.inst(key, where=where, ok=True)
                    res.oblige(True)
                    continue
                if X in P:
                    res.inst(key, where=where, ok=False)
                    res.oblige(False)
                    res.viol(key + "/swapped", where,
                             "%s calls %s with the field `%s` as argument for the parameter `%s`, while `%s` is the name of another "
                             "parameter of %s: two same-typed arguments are exchanged (the call type-checks, every use of the two "
                             "lists / values inside %s is crossed)" % (f.norm.split("::")[-1], cal, X, P[i], X, cal, cal))
                    continue
                if X.endswith(P[i]) and g.norm != f.norm and f.norm.split("::{closure")[0] != g.norm and f.origin(bi) != g.norm:
                    if getattr(f, "inlined", None):
                        # the names in scope are those of the function the call was written in, not of the functions its body
                        # was inlined into: only judged on functions that are analysed as they were written
                        continue
                    if lnames is None:
                        lnames = set()
                        for l in range(1, 800):
                            try:
                                n = f.local_name(l)
                            except Exception:
                                break
                            if n:
                                lnames.add(n)
                    if P[i] in lnames:
                        res.inst(key, where=where, ok=False)
                        res.oblige(False)
                        res.viol(key + "/shadowed", where,
                                 "%s calls %s with the field `%s` as argument for the parameter `%s` although a variable named `%s` is in "
                                 "scope (the value that belongs to what is being handled, e.g. the payload of the action): the configured "
                                 "default is used where the specific value was meant" % (f.norm.split("::")[-1], cal, X, P[i], P[i]))
    return res


def run(prog):
    return _run(prog)


def run_twins(prog):
    """R-ARM-TWINS: alternative calls of one function inside one match arm take the payload-derived arguments alike.

    Inside the arm that handles `Enum::Variant(payload..)`, an `if / else` often calls the same function on both sides
    (`activate(*input_mode, *timeout)` to enter sequence mode, the same to re-trigger it). If one of the alternatives
    passes the payload for a parameter, so do the others: a site that passes something else for that parameter uses a
    default where the value of the action being handled was meant. Only mutually exclusive call sites are compared
    (neither can reach the other), so "loop, then once more with another value" is not a pair."""
    from kq.analysis import discr_switches
    res = RuleResult("R-ARM-TWINS", "alternative calls of one function in a match arm agree on which arguments come from the payload", floor=2)
    for f in sorted(prog.fns.values(), key=lambda x: x.norm):
        if not f.crate.startswith("kanata") or f.derive or "::tests::" in f.norm:
            continue
        try:
            sws = discr_switches(prog, f)
        except Exception:
            continue
        R = None
        done = set()
        for sw in sws:
            if not (sw.adt or "").startswith("kanata"):
                continue
            for v in sorted(sw.arms):
                reg = sw.arm_region(v)
                calls = {}
                for b in sorted(reg):
                    t = f.term(b)
                    if t["k"] == "call":
                        g = prog.fn_opt(norm_name(callee_name(t) or ""))
                        if g is not None and g.crate.startswith("kanata") and not g.derive:
                            calls.setdefault(g.norm, []).append((b, t))
                for gn, ts in sorted(calls.items()):
                    if len(ts) < 2:
                        continue
                    # mutually exclusive sites only
                    excl = [(b, t) for (b, t) in ts if all(b == b2 or (b2 not in f.reach_from(b, avoid=[sw.bb]) and b not in f.reach_from(b2, avoid=[sw.bb]))
                                                           for (b2, _) in ts)]
                    if len(excl) < 2 or (f.norm, gn, v) in done:
                        continue
                    done.add((f.norm, gn, v))
                    R = R or Resolver(f)
                    g = prog.fn_opt(gn)
                    for i in range(1, len(excl[0][1]["args"])):
                        cls = []
                        for b, t in excl:
                            if i < len(t["args"]):
                                r = R.root(t["args"][i])
                                cls.append(any(x[0] == sw.adt and x[1] == v for x in r[2]))
                        if not any(cls):
                            continue
                        pn = g.local_name(i + 1) if g.nargs > i else None
                        key = "%s/%s::%s/%s/%s" % (f.norm.split("::{closure")[0].split("::")[-1], sw.adt.split("::")[-1], v, gn.split("::")[-1], pn or i)
                        ok = all(cls)
                        res.fn(f)
                        res.inst(key, where="%s:%s" % (f.file, excl[0][1].get("ln")), sites=[t.get("ln") for _, t in excl], ok=ok)
                        res.oblige(ok)
                        if not ok:
                            bad = [t.get("ln") for (b, t), c in zip(excl, cls) if not c]
                            res.viol(key, "%s:%s" % (f.file, bad[0]),
                                     "in the arm that handles %s::%s, the alternative calls of %s (lines %s) do not agree on parameter `%s`: "
                                     "the call at line %s does not take it from the payload of the %s being handled although its twin does - "
                                     "a configured default is used where the action's own value was meant"
                                     % (sw.adt.split("::")[-1], v, gn.split("::")[-1], [t.get("ln") for _, t in excl], pn or i, bad[0], v))
    return res
