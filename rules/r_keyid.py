"""R-KEYID (C11): key identity.
 (a) discr(OsCode) == discr(KeyCode), both repr(u16): exact soundness condition of the transmutes;
     every enum<->enum transmute in the analysed crates is enumerated and must be such a proven pair.
 (b) from_u16_linux: arm n => Some(V) with discr(V) == n; as_u16_linux is the plain discriminant cast.
 (d) gateway: non-constant OsCode reaches KbdOut::{press_key,release_key,write_key} only behind the
     reserved-range test; constant codes are outside the range.
 (f) interception: in the Linux event loop a key event reaches the processing channel only through
     MAPPED_KEYS.contains / handle_scroll; the not-mapped branch writes it through raw instead.
"""
import re

from kq.analysis import blocks_calling
from kq.core import Resolver, callee_name, const_val, is_const, is_place, norm_name, proj
from kq.guardflow import GuardFlow
from kq.report import RuleResult
from kq.facts import Broken

OSCODE = "kanata_parser::keys::OsCode"
KEYCODE = "kanata_keyberon::key_code::KeyCode"
U16_FROM_OSC = "<u16 as core::convert::From<kanata_parser::keys::OsCode>>::from"
KBDOUT = "kanata_state_machine::oskbd::linux::KbdOut::"


def _strip_lifetimes(t):
    return re.sub(r"'[a-z_0-9]+ ?", "", t)


def rule_discr(prog):
    res = RuleResult("R-KEYID-DISCR", "OsCode and KeyCode coincide value for value (transmute soundness)", floor=700)
    a, b = prog.adt(OSCODE), prog.adt(KEYCODE)
    da = {v["discr"]: v["name"] for v in a["variants"]}
    db = {v["discr"]: v["name"] for v in b["variants"]}
    for d in sorted(set(da) | set(db)):
        ok = d in da and d in db
        res.inst("discr/%d" % d, oscode=da.get(d), keycode=db.get(d))
        res.oblige(ok)
        if not ok:
            res.viol("discr/%d" % d, "%s:%s" % (a["file"], a["line"]),
                     "discriminant %d exists as OsCode::%s / KeyCode::%s — the OsCode<->KeyCode transmute is undefined behaviour "
                     "for this value" % (d, da.get(d), db.get(d)))
    for nm, adt in ((OSCODE, a), (KEYCODE, b)):
        ok = adt["repr"].replace(" ", "") == "Some(Fixed(I16,false))"  # rustc's IntegerType for u16
        res.inst("repr/" + nm, repr=adt["repr"])
        res.oblige(ok)
        if not ok:
            res.viol("repr/" + nm, "%s:%s" % (adt["file"], adt["line"]), "%s is not repr(u16): %s" % (nm, adt["repr"]))
    # every enum<->enum transmute must be a proven pair
    proven = {(OSCODE, KEYCODE), (KEYCODE, OSCODE)}
    n_tr = 0
    for f in prog.fns.values():
        if not f.crate.startswith("kanata") or f.derive:
            continue
        for bi, si, st in f.all_rvalues():
            rv = st["rv"]
            if rv["k"] != "cast" or rv.get("ck") != "Transmute":
                continue
            fr, to = rv["from"], rv["ty"]
            ea = prog.adts.get(fr.split("<")[0])
            eb = prog.adts.get(to.split("<")[0])
            if ea is not None and eb is not None and (ea["kind"] == "enum" or eb["kind"] == "enum"):
                n_tr += 1
                res.inst("transmute/%s/%s->%s" % (f.norm, fr, to), where="%s:%s" % (f.file, st.get("ln")))
                res.fn(f)
                ok = (fr, to) in proven
                res.oblige(ok)
                if not ok:
                    res.viol("transmute/%s/%s->%s" % (f.norm, fr, to), "%s:%s" % (f.file, st.get("ln")),
                             "transmute between enums %s -> %s whose discriminant sets are not proven equal" % (fr, to))
            elif fr.startswith("&") and to.startswith("&"):
                if _strip_lifetimes(fr) != _strip_lifetimes(to):
                    res.inst("transmute/%s/%s->%s" % (f.norm, fr, to), where="%s:%s" % (f.file, st.get("ln")))
                    res.viol("transmute-ref/%s" % f.norm, "%s:%s" % (f.file, st.get("ln")),
                             "reference transmute changes more than lifetimes: %s -> %s" % (fr, to))
    if n_tr < 2:
        res.viol("transmute/census", a["file"], "expected the two OsCode<->KeyCode transmutes, found %d" % n_tr)
    return res


def rule_table(prog):
    res = RuleResult("R-KEYID-TABLE", "from_u16 table is the value-for-value inverse of `as u16`", floor=700)
    f = prog.fn("kanata_parser::keys::OsCode::from_u16_linux")
    res.fn(f)
    variants = {v["name"]: v["discr"] for v in prog.adt(OSCODE)["variants"]}
    t = f.term(0)
    if t["k"] != "switch":
        res.viol("from_u16/shape", f.loc, "from_u16_linux no longer starts with a match on the code")
        return res
    seen = set()
    for val, tb in t["ts"]:
        # the arm builds OsCode::V then Some(V)
        vs = [st["rv"]["v"] for st in f.stmts(tb) if st["k"] == "assign" and st["rv"]["k"] == "agg" and st["rv"].get("adt") == OSCODE]
        somes = [st for st in f.stmts(tb) if st["k"] == "assign" and st["rv"]["k"] == "agg"
                 and st["rv"].get("adt") == "core::option::Option" and st["rv"].get("v") == "Some"]
        res.inst("arm/%d" % val, variant=vs[0] if vs else None)
        ok = len(vs) == 1 and variants.get(vs[0]) == val and len(somes) == 1
        res.oblige(ok)
        if vs:
            seen.add(vs[0])
        if not ok:
            res.viol("arm/%d" % val, "%s:%s" % (f.file, f.line_of(tb, 0) if f.stmts(tb) else f.lo),
                     "from_u16_linux(%d) yields OsCode::%s whose discriminant is %s — code and name no longer round-trip"
                     % (val, vs[0] if vs else "?", variants.get(vs[0]) if vs else "?"))
    # the otherwise arm must be None
    ob = t["o"]
    none_ok = any(st["k"] == "assign" and st["rv"]["k"] == "agg" and st["rv"].get("v") == "None" for st in f.stmts(ob))
    res.inst("arm/otherwise", none=none_ok)
    if not none_ok:
        res.viol("arm/otherwise", f.loc, "from_u16_linux's wildcard arm no longer returns None")
    # completeness: every variant that has a *name* in configurations (built by the name tables
    # str_to_oscode / add_default_str_osc_mappings) has an arm — a key kanata knows must be decodable
    named = set()
    for nm in ("kanata_parser::keys::str_to_oscode", "kanata_parser::keys::add_default_str_osc_mappings"):
        g0 = prog.fn(nm)
        for g in [g0] + list(prog.closures_of(g0)):      # `custom(s).or_else(|| fixed_names(s))`: the table may sit in a closure
            res.fn(g)
            for bi, si, st in g.all_rvalues():
                rv = st["rv"]
                if rv["k"] == "agg" and rv.get("adt") == OSCODE:
                    named.add(rv["v"])
    res.notes.append("named variants: %d, variants: %d, arms: %d" % (len(named), len(variants), len(seen)))
    if len(named) < 150:
        res.viol("named/census", f.loc, "only %d named OsCode variants found in the name tables (expected >= 150)" % len(named))
    # ... and so does every other variant below the highest decodable code: only the trailing block of padding
    # variants (KEY_749.. up to the row width) may lack an arm
    # ... and so does every other variant that stands for a real key: only placeholder variants, whose name is just
    # their number (KEY_749 ..), may lack an arm
    for v, d in variants.items():
        placeholder = v == "KEY_%d" % d
        if v not in seen and (v in named or not placeholder):
            res.viol("missing/%s" % v, f.loc, "OsCode::%s (=%d) has no arm in from_u16_linux: the key cannot come in from the OS" % (v, d))
    # as_u16_linux: discriminant cast only
    g = prog.fn("kanata_parser::keys::OsCode::as_u16_linux")
    res.fn(g)
    kinds = []
    for bi, si, st in g.all_rvalues():
        rv = st["rv"]
        if "mac" in st:
            continue
        kinds.append(rv["k"] if rv["k"] != "bin" else "bin:" + rv["op"])
    bad = [k for k in kinds if k.startswith("bin") and k not in ("bin:BitAnd",)] + [k for k in kinds if k in ("agg",)]
    has_discr = "discr" in kinds
    res.inst("as_u16/shape", kinds=sorted(set(kinds)))
    if bad or not has_discr or any(True for _ in g.calls()):
        res.viol("as_u16/shape", g.loc, "as_u16_linux is no longer the plain discriminant cast (found %s)" % sorted(set(kinds)))
    return res


def rule_gate(prog):
    res = RuleResult("R-KEYID-GATE", "reserved no-op codes never reach KbdOut key output", floor=8)
    lo = prog.const("kanata_state_machine::kanata::output_logic::KEY_IGNORE_MIN")
    hi = prog.const("kanata_state_machine::kanata::output_logic::KEY_IGNORE_MAX")
    variants = {v["name"]: v["discr"] for v in prog.adt(OSCODE)["variants"]}
    res.notes.append("ignored range %d..=%d" % (lo, hi))
    # feature simulated_output (workspace build) swaps the output sink type
    emit = {k + m for m in ("press_key", "release_key", "write_key")
            for k in (KBDOUT, "kanata_state_machine::oskbd::simulated::KbdOut::")}
    downstream = {
        # callers whose only entry is post_filter_* (checked below from the call graph)
        "kanata_state_machine::kanata::output_logic::zippychord::",
    }
    table = {
        "kanata_state_machine::kanata::Kanata::start_processing_loop::{closure#0}":
            "start-up: releases the physical keys observed before the loop starts, passing the OS's own code through",
    }
    guarded_fns = 0
    for f in prog.fns.values():
        if f.crate != "kanata_state_machine" or f.norm.startswith("kanata_state_machine::oskbd::"):
            continue
        sites = [(bi, t) for bi, t in f.calls() if callee_name(t) in emit]
        # also the post-filter hand-off inside output_logic
        sites += [(bi, t) for bi, t in f.calls()
                  if (callee_name(t) or "").startswith("kanata_state_machine::kanata::output_logic::post_filter_")]
        if not sites:
            continue
        res.fn(f)
        gf = None
        r = Resolver(f)
        for n, (bi, t) in enumerate(sites):
            arg = t["args"][1] if len(t["args"]) > 1 else None
            key = "%s/%s#%d" % (f.norm, callee_name(t).split("::")[-1], n)
            where = "%s:%s" % (f.file, t.get("ln"))
            kind, payload, _ = r.root(arg) if arg is not None else ("unknown", None, [])
            if kind == "agg" and payload[2].get("adt") == OSCODE:
                v = payload[2]["v"]
                d = variants.get(v)
                ok = d is not None and not (lo <= d <= hi)
                res.inst(key, where=where, how="constant OsCode::%s=%s" % (v, d))
                res.oblige(ok)
                if not ok:
                    res.viol(key, where, "constant OsCode::%s (=%s) inside the reserved no-op range is sent to the OS" % (v, d))
                continue
            if any(f.norm.startswith(p) for p in downstream):
                res.inst(key, where=where, how="downstream of post_filter_* (zippychord)")
                res.oblige(True)
                continue
            if f.norm.startswith("kanata_state_machine::kanata::output_logic::post_filter_") and kind == "param":
                res.inst(key, where=where, how="post_filter_* hands its own parameter on; its call sites are gated sinks themselves")
                res.oblige(True)
                continue
            if f.norm in table:
                res.inst(key, where=where, how="table: " + table[f.norm])
                res.oblige(True)
                continue
            if gf is None:
                gf = GuardFlow(f, identity_calls=[U16_FROM_OSC])
            val = gf.value_at_term(bi, arg) if arg is not None else None
            ok = val is not None and val.disjoint_from(lo, hi)
            res.inst(key, where=where, how="guarded: value set %s" % (val,))
            res.oblige(ok)
            if ok:
                guarded_fns += 1
            else:
                res.viol(key, where,
                         "key code reaches %s without the reserved-range test (value set at the call: %s must exclude %d..=%d)"
                         % (callee_name(t).split("oskbd::linux::")[-1], val, lo, hi))
    if guarded_fns < 3:
        res.viol("gate/census", "src/kanata/output_logic.rs", "expected >=3 range-guarded output sites (write_key, press_key, release_key), found %d" % guarded_fns)
    # zippychord emitters are entered only through post_filter_*
    zpfx = "kanata_state_machine::kanata::output_logic::zippychord::"
    zippy_compiled = any(n.startswith(zpfx) for n in prog.by_norm)
    if not zippy_compiled and prog.config == "default":
        raise Broken("zippychord module not found in the default-feature build")
    for entry in ("zch_press_key", "zch_release_key") if zippy_compiled else ():
        fn = prog.fn("kanata_state_machine::kanata::output_logic::zippychord::ZchState::" + entry)
        callers = {c for c in prog.callers_of(fn.norm) if not c.startswith("kanata_state_machine::kanata::output_logic::zippychord::")}
        res.inst("zippy-entry/" + entry, callers=sorted(callers))
        bad = [c for c in callers if not c.startswith("kanata_state_machine::kanata::output_logic::post_filter_")]
        if bad:
            res.viol("zippy-entry/" + entry, fn.loc, "zippychord output entered from %s, bypassing the reserved-range filter" % bad)
    # the sequence back-space loop skips the same range (values compared)
    sq = prog.fn("kanata_state_machine::kanata::sequences::do_successful_sequence_termination")
    consts = set()
    for g in [sq] + prog.closures_of(sq):
        for bi, si, st in g.all_rvalues():
            rv = st["rv"]
            if rv["k"] == "bin" and rv["op"] in ("Le", "Lt", "Ge", "Gt"):
                for o in (rv["a"], rv["b"]):
                    if is_const(o) and o["c"].get("ty") == "u16" and const_val(o) is not None:
                        consts.add((rv["op"], const_val(o)))
    ok = ("Le", lo) in consts and ("Le", hi) in consts
    if not ok:
        # the same test written `(LO..=HI).contains(&code)` (possibly in a helper, analysed inlined)
        for g in [sq] + prog.closures_of(sq):
            gfl = None
            for bi, t in g.calls():
                cn = callee_name(t) or ""
                if cn.split("::")[-1] == "contains" and "core::ops::range::Range" in cn and len(t["args"]) == 2:
                    gfl = gfl or GuardFlow(g, identity_calls=[U16_FROM_OSC])
                    if gfl._const_range(t["args"][0]) == (lo, hi):
                        ok = True
                        consts.add(("contains", "%d..=%d" % (lo, hi)))
    res.inst("sequences/range", consts=sorted(consts, key=str))
    if not ok:
        res.viol("sequences/range", sq.loc, "sequence termination no longer skips exactly the reserved range %d..=%d (found %s)" % (lo, hi, sorted(consts, key=str)))
    return res


def rule_intercept(prog):
    res = RuleResult("R-KEYID-INTERCEPT", "only mapped keys enter the state machine; others pass straight through", floor=3)
    f = prog.fn("kanata_state_machine::kanata::Kanata::event_loop")
    res.fn(f)
    sends = blocks_calling(f, f.reachable(), ["std::sync::mpsc::SyncSender::try_send", "std::sync::mpsc::Sender::send"])
    contains = blocks_calling(f, f.reachable(), ["std::collections::hash::set::HashSet::contains"])
    scroll = blocks_calling(f, f.reachable(), ["kanata_state_machine::kanata::linux::handle_scroll"])
    reads = blocks_calling(f, f.reachable(), ["kanata_state_machine::oskbd::linux::KbdIn::read"])
    raws = blocks_calling(f, f.reachable(), [KBDOUT + "write_raw"])
    res.inst("event_loop/sends", n=len(sends))
    res.inst("event_loop/contains", n=len(contains))
    res.inst("event_loop/raw", n=len(raws))
    if not sends or not contains or not reads:
        res.viol("event_loop/shape", f.loc, "event loop lost its send / MAPPED_KEYS.contains / read anchors")
        return res
    gate_blocks = [b for b, _ in contains] + [b for b, _ in scroll]
    free = f.reach_from(0, avoid=gate_blocks)
    for b, t in sends:
        if b in free:
            res.viol("event_loop/ungated-send", "%s:%s" % (f.file, t.get("ln")),
                     "a key event can be sent to the processing loop without consulting MAPPED_KEYS (or the scroll handler)")
    # contains() receiver is the MAPPED_KEYS static
    ok_static = False
    for bi, si, st in f.all_rvalues():
        rv = st["rv"]
        if rv["k"] == "use" and is_const(rv["a"]) and "MAPPED_KEYS" in str(rv["a"]["c"].get("def", "")) + str(rv["a"]["c"].get("ty", "")):
            ok_static = True
    for bi, t in f.calls():
        for a in t["args"]:
            if is_const(a) and "MAPPED_KEYS" in str(a["c"].get("def", "")):
                ok_static = True
    res.inst("event_loop/static", mapped_keys_referenced=ok_static)
    # from the raw pass-through, the send is not reachable within the same iteration
    read_blocks = [b for b, _ in reads] + [b for b, _ in blocks_calling(f, f.reachable(), ["core::iter::traits::iterator::Iterator::next"])]
    from kq.analysis import reach_under_variant
    for b, t in raws:
        start = f.succs(b)[0] if f.succs(b) else b
        r = f.reach_from(start, avoid=read_blocks)
        # `let send = if .. { raw(); false } else { true }; if !send { continue }`: follow boolean flags that were assigned a
        # constant on the path (the same tracking that decides `matches!` temporaries)
        r &= reach_under_variant(prog, f, "-", "-", start=start)
        for sb, st_ in sends:
            if sb in r:
                res.viol("event_loop/raw-then-send", "%s:%s" % (f.file, t.get("ln")),
                         "an unmapped key is both written through raw and sent to the state machine (duplicate output)")
    return res


def run_all(prog):
    return [rule_discr(prog), rule_table(prog), rule_gate(prog), rule_intercept(prog)]


def rule_defsrc_identity(prog):
    """(g) the defsrc identity layer maps *every* code that OsCode::from_u16 knows to its own key code: the value
    stored per index is `from_u16(i).map(|osc| Action::KeyCode(osc.into())).unwrap_or(NoOp)` with nothing that can drop
    a known code in between (no filter / and_then / comparison), and the closure builds Action::KeyCode on its only path."""
    from kq.analysis import backward_slice
    from rules.r_cancel import closure_arg
    res = RuleResult("R-DEFSRC-ID", "create_defsrc_layer maps every known code to itself, without a filter", floor=2)
    f = prog.fn_opt("kanata_parser::cfg::create_defsrc_layer")
    if f is None:
        res.viol("anchor", "parser/src/cfg/mod.rs", "create_defsrc_layer not found")
        return res
    res.fn(f)
    DROP = ("filter", "and_then", "filter_map", "take_if", "xor", "then", "then_some", "zip", "ok_or", "checked_sub")
    calls = [(bi, t, (callee_name(t) or "").split("::")[-1]) for bi, t in f.calls()]
    fam_calls = calls + [(bi, t, (callee_name(t) or "").split("::")[-1]) for c in prog.closures_of(f) for bi, t in c.calls()]
    has_from = any(n == "from_u16" for _, _, n in fam_calls)
    droppers = [(t.get("ln"), n) for _, t, n in fam_calls if n in DROP]
    cmps = [f.line_of(bi, si) for bi, si, st in f.all_rvalues() if st["rv"]["k"] == "bin" and st["rv"]["op"] in ("Eq", "Ne")
            and f.line_of(bi, si) and not st.get("mac")]
    ok = has_from and not droppers
    res.inst("no-filter", where=f.loc, from_u16=has_from, droppers=droppers, ok=ok)
    res.oblige(ok)
    if not ok:
        res.viol("no-filter", "%s:%s" % (f.file, droppers[0][0] if droppers else f.line_of(0)),
                 "between OsCode::from_u16(i) and the stored action, create_defsrc_layer applies %s: a code that from_u16 knows can be "
                 "dropped, so a key left transparent on every layer no longer comes out as itself" % (droppers or "no from_u16 at all"))
    okc = False
    for bi, t, n in calls:
        if n == "map" and len(t["args"]) > 1:
            c = closure_arg(prog, f, t["args"][1])
            if c is not None:
                aggs = [st for b in c.reachable() for st in c.stmts(b) if st["k"] == "assign" and st["rv"]["k"] == "agg" and st["rv"].get("v") == "KeyCode"]
                sw = [b for b in c.reachable() if c.term(b)["k"] == "switch"]
                okc = bool(aggs) and not sw
    if not okc:
        okc = _match_form(prog, f)
    res.inst("closure-builds-keycode", where=f.loc, ok=okc)
    res.oblige(okc)
    if not okc:
        res.viol("closure-builds-keycode", f.loc, "the closure given to map() no longer builds Action::KeyCode on a single unconditional path")
    return res


def _match_form(prog, f):
    """`match OsCode::from_u16(i) { Some(osc) [if i != 0] => Action::KeyCode(osc.into()), _ => NoOp }` (in the function or in a
    closure of it, e.g. the one given to array::from_fn): the Some arm builds KeyCode, and the only tests in that arm compare
    with the constant 0 (index 0 is forced to NoOp)."""
    from kq.analysis import discr_switches
    for g in [f] + list(prog.closures_of(f)):
        froms = [(bi, t) for bi, t in g.calls() if (callee_name(t) or "").split("::")[-1] == "from_u16"]
        if not froms:
            continue
        for sw in discr_switches(prog, g, "core::option::Option"):
            if "Some" not in sw.arms and sw.target("Some") is None:
                continue
            region = sw.arm_region("Some")
            builds = any(st["k"] == "assign" and st["rv"]["k"] == "agg" and st["rv"].get("v") == "KeyCode" for b in region for st in g.stmts(b))
            tests_ok = True
            for b in region:
                for st in g.stmts(b):
                    if st["k"] == "assign" and st["rv"]["k"] == "bin" and st["rv"]["op"] in ("Eq", "Ne", "Lt", "Le", "Gt", "Ge") and not st.get("mac"):
                        if not any(is_const(o) and const_val(o) == 0 for o in (st["rv"]["a"], st["rv"]["b"])):
                            tests_ok = False
                if g.term(b)["k"] == "call" and (callee_name(g.term(b)) or "").split("::")[-1] in ("eq", "ne", "contains", "matches"):
                    tests_ok = False
            if builds and tests_ok:
                return True
    return False


def rule_btn_tables(prog):
    """R-BTN-TABLES (C11): the two tables that translate mouse-button key codes agree.

    A mouse button that passes through kanata unchanged takes this way on Linux: OS code (BTN_SIDE ...) -> `osc_to_btn`
    (src/kanata/output_logic.rs) -> `Btn` -> `KbdOut::click_btn` -> `OsCode::from(Btn)` (parser/src/keys/linux.rs) -> OS
    code. Each table is a plain `match`; the property "comes out as the same code that went in" needs the second to be
    the inverse of the first on every button. The simulated output never converts a Btn back, so no test sees a swap."""
    from kq.analysis import discr_switches
    res = RuleResult("R-BTN-TABLES", "OsCode -> Btn (osc_to_btn) and Btn -> OsCode (From<Btn>) are inverse tables", floor=5)
    BTN = "kanata_parser::custom_action::Btn"
    OSC = "kanata_parser::keys::OsCode"

    def table(f, scrut, out):
        m = {}
        for sw in discr_switches(prog, f):
            if sw.adt != scrut:
                continue
            for v, b in sw.arms.items():
                # the value the arm yields: the first aggregate of the output enum in the arm's straight-line code
                cur, hops = b, 0
                while cur is not None and hops < 4:
                    got = [st["rv"].get("v") for st in f.stmts(cur) if st["k"] == "assign" and st["rv"]["k"] == "agg" and st["rv"].get("adt") == out]
                    if got:
                        m[v] = got[0]
                        break
                    ss = f.succs(cur)
                    cur = ss[0] if len(ss) == 1 else None
                    hops += 1
        return m
    to_osc = [f for f in prog.fns.values() if f.norm.startswith("<%s as core::convert::From<%s>>::from" % (OSC, BTN))]
    to_btn = [f for f in prog.fns.values() if f.norm.endswith("output_logic::osc_to_btn")]
    if len(to_osc) != 1 or len(to_btn) != 1:
        # From<Btn> for OsCode exists on Linux (and in the interception build); elsewhere the OS API takes the Btn itself
        res.viol("anchor", "parser/src/keys/linux.rs", "From<Btn> for OsCode (%d) / osc_to_btn (%d) not found" % (len(to_osc), len(to_btn)))
        return res
    fo, fb = to_osc[0], to_btn[0]
    res.fn(fo)
    res.fn(fb)
    m_osc = table(fo, BTN, OSC)
    m_btn = table(fb, OSC, BTN)
    btns = prog.enum_variants(BTN)
    for b in btns.values():
        o = m_osc.get(b)
        back = m_btn.get(o) if o else None
        ok = o is not None and back == b
        res.inst("Btn::%s" % b, where=fo.loc, to_oscode=o, and_back=back, ok=ok)
        res.oblige(ok)
        if not ok:
            res.viol("Btn::%s" % b, fo.loc,
                     "OsCode::from(Btn::%s) is %s, but osc_to_btn(%s) is %s: a mouse button that kanata passes through (or `%s` mapped "
                     "to itself) goes in as one OS code and is clicked as another" % (b, o, o, back, b))
    return res
