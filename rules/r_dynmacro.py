"""C19 rules: dynamic macros.
R-DM-RELEASE  every recorded macro that is handed out passed through add_release_for_all_unreleased_presses,
              and nothing is appended to it afterwards.
R-DM-REC      items are queued for replay only after the macro id was added to the active set, inside the
              'not already active' branch.
"""
from kq.analysis import blocks_calling
from kq.core import callee_name, proj
from kq.effects import Effects
from kq.report import RuleResult
from rules.r_doaction import receiver_fields

DM = "kanata_state_machine::kanata::dynamic_macro::"
RS = DM + "DynamicMacroRecordState"
ARP = RS + "::add_release_for_all_unreleased_presses"


def rule_release(prog):
    res = RuleResult("R-DM-RELEASE", "a stored dynamic macro releases every key still down at the end; nothing is appended after that", floor=3)
    ef = Effects(prog)
    writers = set()
    for f in prog.fns.values():
        if f.crate != "kanata_state_machine":
            continue
        if (RS, "macro_items") in ef.direct(f)["writes"] and f.norm != ARP:
            writers.add(f.norm)
    for nm in ("record_press", "begin_record_macro", "stop_macro"):
        f = prog.fn(DM + nm)
        res.fn(f)
        arps = blocks_calling(f, f.reachable(), [ARP])
        rets = [bi for bi, si, st in f.all_rvalues()
                if st["p"]["l"] == 0 and not proj(st["p"]) and st["rv"]["k"] == "agg" and st["rv"].get("adt") == "core::option::Option" and st["rv"].get("v") == "Some"]
        res.inst("%s/anchors" % nm, add_release_calls=len(arps), some_returns=len(rets))
        if not rets:
            res.viol("%s/anchors" % nm, f.loc, "%s no longer returns a recorded macro" % nm)
            continue
        for n, rb in enumerate(rets):
            doms = [ab for ab, _ in arps if f.dominates(ab, rb)]
            ok = bool(doms)
            res.inst("%s/released-before-return#%d" % (nm, n), ok=ok)
            res.oblige(ok)
            if not ok:
                res.viol("%s/released-before-return#%d" % (nm, n), f.loc,
                         "%s can hand out a recorded macro without add_release_for_all_unreleased_presses: a key held when recording "
                         "stopped stays down after every replay" % nm)
                continue
            # nothing appended between the last dominating ARP and the return
            ab = doms[-1]
            between = f.reach_from(f.term(ab)["t"]) & {b for b in f.reachable() if rb in f.reach_from(b)}
            bad = []
            for b in between:
                t = f.term(b)
                if t["k"] != "call":
                    continue
                cn = callee_name(t) or ""
                if cn in writers:
                    bad.append((cn.split("::")[-1], t.get("ln")))
                if cn.split("::")[-1] in ("push", "insert", "extend", "append") and (cn.startswith("alloc::vec::Vec")):
                    fl = receiver_fields(f, t)
                    if fl and fl[-1] == "macro_items":
                        bad.append(("macro_items." + cn.split("::")[-1], t.get("ln")))
            ok2 = not bad
            res.inst("%s/nothing-appended-after#%d" % (nm, n), ok=ok2, appended=bad)
            res.oblige(ok2)
            if not ok2:
                res.viol("%s/nothing-appended-after#%d" % (nm, n), "%s:%s" % (f.file, bad[0][1]),
                         "%s appends to the recorded macro (%s) after the closing releases were added: a press recorded there is never released" % (nm, bad[0][0]))
    return res


def rule_rec(prog):
    res = RuleResult("R-DM-REC", "a macro id is marked active before its items are queued; active macros are not re-entered", floor=2)
    f = prog.fn(DM + "play_macro")
    res.fn(f)
    units = [f] + prog.closures_of(f)
    n = 0
    for g in units:
        inserts = [b for b, t in g.calls() if (callee_name(t) or "").endswith("HashSet::insert")]
        adds = []
        for b, t in g.calls():
            cn = callee_name(t) or ""
            if cn.split("::")[-1] in ("push_front", "push_back", "extend", "append"):
                fl = receiver_fields(g, t)
                if fl and fl[-1] == "macro_items":
                    adds.append((b, t))
        for bi, si, st in g.all_rvalues():
            if st["rv"]["k"] == "agg" and st["rv"].get("adt") == DM + "DynamicMacroReplayState":
                adds.append((bi, {"ln": st.get("ln")}))
        for (b, t) in adds:
            n += 1
            ok = any(g.dominates(i, b) for i in inserts)
            res.inst("queue#%d@%s" % (n, g.norm.split("::")[-1]), where="%s:%s" % (g.file, t.get("ln")), insert_dominates=ok)
            res.oblige(ok)
            if not ok:
                res.viol("queue@%s" % g.norm.split("dynamic_macro::")[-1], "%s:%s" % (g.file, t.get("ln")),
                         "macro items are queued for replay without the macro id having been added to active_macros first: the recursion "
                         "guard can be bypassed through nested play")
    # the contains() guard: the queueing in the Some(state) branch is not reachable from its true edge
    cons = blocks_calling(f, f.reachable(), ["std::collections::hash::set::HashSet::contains"])
    ok = False
    for cb, ct in cons:
        nb = ct["t"]
        tt = f.term(nb)
        if tt["k"] == "switch":
            true_t = [tb for v, tb in tt["ts"] if v == 1] or ([tt["o"]] if any(v == 0 for v, _ in tt["ts"]) else [])
            pf = [b for b, t in f.calls() if (callee_name(t) or "").split("::")[-1] == "push_front"]
            if true_t and pf and not any(b in f.reach_from(true_t[0], avoid=[nb, cb]) for b in pf):
                ok = True
    if not ok:
        # the test may sit behind a helper (`state.is_playing(id)`, analysed inlined): follow the tested value back to contains()
        from kq.core import Resolver, is_place
        cset = {cb for cb, _ in cons}
        for sb in sorted(f.reachable()):
            tt = f.term(sb)
            if tt["k"] != "switch" or tt.get("dty") != "bool" or not is_place(tt["d"]):
                continue
            r = Resolver(f).root(tt["d"])
            if r[0] == "call" and r[1][0] in cset:
                true_t = [tb for v, tb in tt["ts"] if v == 1] or ([tt["o"]] if any(v == 0 for v, _ in tt["ts"]) else [])
                pf = [b for b, t in f.calls() if (callee_name(t) or "").split("::")[-1] == "push_front"]
                if true_t and pf and not any(b in f.reach_from(true_t[0], avoid=[sb]) for b in pf):
                    ok = True
    res.inst("contains-guard", ok=ok)
    res.oblige(ok)
    if not ok:
        res.viol("contains-guard", f.loc, "play_macro queues a macro that is already active (recursion guard missing)")
    return res


def rule_order(prog):
    """R-DM-ORDER: the EndMacro(id) marker that takes the id out of active_macros is consumed after the macro's own
    items. Items are prepended with push_front (or appended with push_back): the marker must be pushed before the
    first push_front of an item (resp. after the last push_back)."""
    res = RuleResult("R-DM-ORDER", "the end-of-macro marker is queued behind the macro's items", floor=1)
    f = prog.fn(DM + "play_macro")
    res.fn(f)
    ITEM = DM + "DynamicMacroItem"
    marks, items = [], []
    for b, t in f.calls():
        cn = (callee_name(t) or "").split("::")[-1]
        if cn not in ("push_front", "push_back"):
            continue
        fl = receiver_fields(f, t)
        if not (fl and fl[-1] == "macro_items"):
            continue
        from kq.core import Resolver
        r = Resolver(f).root(t["args"][1])
        if r[0] == "agg" and r[1][2].get("adt") == ITEM and r[1][2].get("v") == "EndMacro":
            marks.append((b, cn, t))
        else:
            items.append((b, cn, t))
    res.inst("anchors", end_markers=len(marks), item_pushes=len(items))
    n = 0
    for (mb, mk, mt) in marks:
        for (ib, ik, it) in items:
            if ik != mk:
                continue
            # same branch only: one dominates the other
            if not (f.dominates(mb, ib) or f.dominates(ib, mb) or ib in f.reach_from(mb) or mb in f.reach_from(ib)):
                continue
            if not (ib in f.reach_from(mb) or mb in f.reach_from(ib)):
                continue
            n += 1
            if mk == "push_front":
                ok = ib in f.reach_from(mb) and mb not in f.reach_from(ib)
            else:
                ok = mb in f.reach_from(ib) and ib not in f.reach_from(mb)
            res.inst("marker-behind-items#%d" % n, how=mk, ok=ok)
            res.oblige(ok)
            if not ok:
                res.viol("marker-behind-items/%s" % mk, "%s:%s" % (f.file, mt.get("ln")),
                         "EndMacro(id) is queued in front of the macro's items (%s order): the id leaves active_macros before the items "
                         "run, so a macro that contains its own play key replays itself without end" % mk)
    if not marks:
        # one loop over `items.chain([EndMacro(id)])`: the marker is behind the items in the chained iterator, so it has to be
        # pushed in that order with push_back, or in reverse (`.rev()`) with push_front
        from kq.core import Resolver, is_place
        from rules.r_loopvar import iterator_driver, loops_of
        R = Resolver(f)

        def holds_marker(op):
            r = R.root(op)
            if r[0] == "agg" and r[1][2].get("adt") == ITEM:
                return r[1][2].get("v") == "EndMacro"
            if r[0] == "agg" and "arr" in r[1][2]:
                return any(holds_marker(o) for o in r[1][2]["ops"])
            if r[0] == "call" and (callee_name(r[1][1]) or "").split("::")[-1] in ("into_iter", "iter", "once"):
                return any(holds_marker(a) for a in r[1][1]["args"] if is_place(a))
            return False
        chains = [(b, t) for b, t in f.calls() if (callee_name(t) or "").split("::")[-1] == "chain" and len(t["args"]) == 2]
        for cb, ct in chains:
            second, first = holds_marker(ct["args"][1]), holds_marker(ct["args"][0])
            if not (second or first):
                continue
            for lp in loops_of(f):
                ty = iterator_driver(f, lp) or ""
                if "Chain<" not in ty or not f.dominates(cb, lp.h):
                    continue
                for (ib, ik, it) in items:
                    if ib not in lp.body:
                        continue
                    n += 1
                    marker_last = second and not first
                    reversed_ = "Rev<" in ty
                    ok = marker_last and ((ik == "push_front") == reversed_)
                    marks.append((cb, ik, ct))
                    res.inst("marker-behind-items#%d" % n, how="chain + %s%s" % (ik, " + rev" if reversed_ else ""), ok=ok)
                    res.oblige(ok)
                    if not ok:
                        res.viol("marker-behind-items/%s" % ik, "%s:%s" % (f.file, ct.get("ln")),
                                 "EndMacro(id) is queued in front of the macro's items (chained iterator, %s%s): the id leaves "
                                 "active_macros before the items run, so a macro that contains its own play key replays itself "
                                 "without end" % (ik, ", reversed" if reversed_ else ""))
    if not marks:
        res.viol("anchors", f.loc, "play_macro no longer queues an EndMacro marker")
    return res


def run_all(prog):
    return [rule_release(prog), rule_rec(prog), rule_order(prog)]


def rule_delay_reset(prog):
    """R-DM-DELAY (C19): the recorded delay of an event counts from the previous recorded event: add_event resets
    current_delay on every path, also for the first event of a recording (which has no pending predecessor). If the
    reset only happens when a pending event was saved, the first key of the recording carries all the ticks since
    recording started - a 50 ms tap is replayed as a hold."""
    from kq.core import is_const, proj
    from kq.gf2 import root_desc
    res = RuleResult("R-DM-DELAY", "add_event resets current_delay on every path", floor=1)
    f = prog.fn_opt("kanata_state_machine::kanata::dynamic_macro::DynamicMacroRecordState::add_event")
    if f is None:
        res.viol("anchor", "src/kanata/dynamic_macro.rs", "DynamicMacroRecordState::add_event not found")
        return res
    res.fn(f)
    resets = [bi for bi, si, st in f.all_rvalues() if proj(st["p"]) and (root_desc(f, st["p"]) or "").endswith(".current_delay")
              and st["rv"]["k"] == "use" and is_const(st["rv"]["a"]) and st["rv"]["a"]["c"].get("v") == 0]
    rets = set(f.return_blocks())
    ok = bool(resets) and not (f.reach_from(0, avoid=resets) & rets)
    res.inst("reset-on-every-path", where=f.loc, resets=len(resets), ok=ok)
    res.oblige(ok)
    if not ok:
        res.viol("reset-on-every-path", f.loc,
                 "add_event can return without setting current_delay to 0 (the reset only happens when a pending event was saved): the next "
                 "recorded event - the first one of a recording - carries the ticks accumulated before it, so its replay is delayed / a "
                 "tap becomes a hold")
    return res


def rule_save_id(prog):
    """R-DM-SAVE-ID (C19): a finished recording is saved under the id it was recorded for.

    The functions of dynamic_macro.rs that end a recording (begin_record_macro when another recording is in progress,
    stop_macro, record_press when the buffer is full) return the pair (id, events) of the recording that ended.
    The id of the *action* that triggered the call can be a different one (`dynamic-macro-record 2` pressed while 1
    is being recorded saves 1 and starts 2). Every `dynamic_macros.insert(id, events)` must take both from the same
    returned pair."""
    from kq.core import Resolver
    from kq.gf2 import root_desc
    res = RuleResult("R-DM-SAVE-ID", "dynamic_macros.insert takes the id and the events from the same returned recording", floor=3)
    for f in prog.fns.values():
        if f.crate != "kanata_state_machine" or f.derive:
            continue
        k = 0
        for bi, t in f.calls():
            if not (callee_name(t) or "").endswith("::insert") or len(t["args"]) < 3:
                continue
            if not (root_desc(f, t["args"][0]) or "").endswith(".dynamic_macros"):
                continue
            R = Resolver(f)
            r1, r2 = R.root(t["args"][1]), R.root(t["args"][2])
            same = r1[0] == "call" and r2[0] == "call" and r1[1][0] == r2[1][0]
            src = (callee_name(r2[1][1]) or "").split("::")[-1] if r2[0] == "call" else r2[0]
            ok = same and "dynamic_macro::" in (callee_name(r2[1][1]) or "")
            key = "%s/insert%s" % (f.norm.split("::")[-1], "#%d" % k if k else "")
            k += 1
            res.fn(f)
            res.inst(key, where="%s:%s" % (f.file, t.get("ln")), events_from=src, id_from_same_result=same, ok=ok)
            res.oblige(ok)
            if not ok:
                res.viol(key, "%s:%s" % (f.file, t.get("ln")),
                         "%s saves a finished recording (events returned by %s) under an id that does not come from the same returned "
                         "pair. The id of the action that was pressed can differ from the id being recorded (record 2 pressed while "
                         "recording 1): the events typed for one macro are stored under the other's id and replaying either plays "
                         "the wrong keys" % (f.norm.split("::")[-1], src))
    return res


def rule_replay_arms(prog):
    """R-DM-ARMS (C19): replaying a press and replaying a release pace the macro alike.

    tick_replay_state handles `Press((key, delay))` and `Release((key, delay))` with two copies of the same code: under the
    `recorded` delay behaviour the recorded pause is loaded into `delay_remaining`, under `constant` it is not. If the
    copies disagree (one of them has the two behaviours exchanged) the pauses after replayed releases collapse while the
    hold times stay right - tap-dance and tap-hold mappings then see a different rhythm than was typed.

    Rule: for each variant of the delay behaviour, "the arm stores state.delay_remaining" has the same truth value in
    the Press arm and in the Release arm (reach_under_variant restricted to the arms of the match on DynamicMacroItem)."""
    from kq.analysis import discr_switches, reach_under_variant
    from kq.core import proj_fields
    res = RuleResult("R-DM-ARMS", "the Press and Release arms of tick_replay_state treat each delay behaviour alike", floor=2)
    f = prog.fn_opt("kanata_state_machine::kanata::dynamic_macro::tick_replay_state")
    if f is None:
        res.viol("anchor", "src/kanata/dynamic_macro.rs", "tick_replay_state not found")
        return res
    res.fn(f)
    item = [sw for sw in discr_switches(prog, f) if (sw.adt or "").endswith("DynamicMacroItem") and "Press" in sw.all_variants]
    delay_adt = next((n for n in prog.adts if n.endswith("::ReplayDelayBehaviour")), None)
    if not item or delay_adt is None:
        res.viol("anchor/match", f.loc, "the match on DynamicMacroItem / the ReplayDelayBehaviour enum was not found")
        return res
    sw = item[0]
    regions = {v: sw.arm_region(v) for v in ("Press", "Release")}

    def stores(blocks):
        out = []
        for b in sorted(blocks):
            for si, st in enumerate(f.stmts(b)):
                if st["k"] == "assign" and proj(st["p"]):
                    pf = proj_fields(st["p"])
                    if pf and pf[-1][2] == "delay_remaining":
                        out.append(f.line_of(b, si))
        return out
    for v in prog.enum_variants(delay_adt).values():
        r = reach_under_variant(prog, f, delay_adt, v)
        sp, sr = stores(regions["Press"] & r), stores(regions["Release"] & r)
        ok = bool(sp) == bool(sr)
        res.inst("behaviour/" + v, where=f.loc, press_arm_loads_delay=bool(sp), release_arm_loads_delay=bool(sr), ok=ok)
        res.oblige(ok)
        if not ok:
            res.viol("behaviour/" + v, "%s:%s" % (f.file, (sp or sr)[0]),
                     "with delay behaviour %s the Press arm of tick_replay_state %s the recorded pause into delay_remaining while the Release "
                     "arm %s: the two copies of the pacing code disagree, so pauses after replayed releases (or presses) differ from what "
                     "was recorded and time-sensitive mappings (tap-dance, tap-hold) replay differently from how they were typed"
                     % (v, "loads" if sp else "does not load", "does" if sr else "does not"))
    return res


def rule_play_guard(prog):
    """R-DM-PLAY-GUARD (C19): `dynamic-macro-play N` is ignored while macro N is being recorded, and tap events are recorded.

    (a) The replay of a recording refuses a play item of its own id as a recursion. If the play key is honoured while
    that id is being recorded (it replays the previous recording), typing and replaying differ. The play_macro call of
    the DynamicMacroPlay arm must depend on a look at the recording state (is_recording_macro).
    (b) Every arm of handle_input_event that feeds a Press to the layout records it first (the Tap arm - mouse wheel
    notches - used not to)."""
    from kq.analysis import dependence_slice
    res = RuleResult("R-DM-PLAY-GUARD", "play of the macro being recorded is ignored; every input press is recorded", floor=2)
    h = prog.fn_opt("kanata_state_machine::kanata::Kanata::handle_keystate_changes")
    ev = prog.fn_opt("kanata_state_machine::kanata::Kanata::handle_input_event")
    if h is None or ev is None:
        res.viol("anchor", "src/kanata/mod.rs", "handle_keystate_changes / handle_input_event not found")
        return res
    res.fn(h)
    res.fn(ev)
    plays = [bi for bi, t in h.calls() if (callee_name(t) or "").endswith("dynamic_macro::play_macro")]
    ok = bool(plays)
    for b in plays:
        cal = dependence_slice(h, b)[1]
        if not any(c.split("::")[-1] == "is_recording_macro" for c in cal):
            ok = False
    res.inst("play-guarded-by-recording-state", where=h.loc, play_calls=len(plays), ok=ok)
    res.oblige(ok)
    if not ok:
        res.viol("play-guarded-by-recording-state", h.loc,
                 "the DynamicMacroPlay arm calls play_macro without asking whether that macro is being recorded (is_recording_macro): while "
                 "macro N is recorded again, its play key replays the previous recording; the new recording contains the play key, which its "
                 "own replay refuses as a recursion - replaying differs from what was typed")
    # (b)
    rec = [bi for bi, t in ev.calls() if (callee_name(t) or "").endswith("dynamic_macro::record_press")]
    presses = []
    for bi, t in ev.calls():
        if (callee_name(t) or "").split("::")[-1] == "event" and len(t["args"]) > 1 and is_place_(t["args"][1]):
            d = ev.single_def(t["args"][1]["l"])
            if d and d[2] == "assign" and d[3]["k"] == "agg" and d[3].get("v") == "Press":
                presses.append(bi)
            elif d and d[2] == "assign" and d[3]["k"] == "use":
                # the joined `kbrn_ev` of the Press / Release arms: look at what flows in
                for (db, di, kind, payload) in ev.defs().get(d[3]["a"]["l"], []) if isinstance(d[3]["a"], dict) and "l" in d[3]["a"] else []:
                    if kind == "assign" and payload["k"] == "agg" and payload.get("v") == "Press":
                        presses.append(db)
    okb = bool(presses) and all(any(ev.dominates(r, p_) for r in rec) for p_ in presses)
    res.inst("every-press-recorded", where=ev.loc, press_sites=len(presses), record_calls=len(rec), ok=okb)
    res.oblige(okb)
    if not okb:
        res.viol("every-press-recorded", ev.loc,
                 "handle_input_event feeds a Press to the layout on a path that does not pass record_press first (%d press sites, %d "
                 "record_press calls): input that arrives as a tap event (a notch of a remapped mouse wheel) is missing from dynamic "
                 "macro recordings" % (len(presses), len(rec)))
    return res


def is_place_(o):
    return isinstance(o, dict) and "l" in o and not o.get("pr")
