"""R-ACCESSOR (C10, C01): a field accessor of an enum covers every variant that has the field.

`State::coord(&self) -> Option<KCoord>` and `State::keycode(&self) -> Option<KeyCode>` are how the rest of the
program asks "which input position / which key does this active state belong to" (the `input` conditions of
switch, the idle and release logic). An accessor named after a field promises the field's value for every variant
that carries it; a variant silently falling into the `_ => None` arm makes those states invisible to every caller
(e.g. a key bound to a custom action stops satisfying `(input real K)`).

Rule: for every enum E of the kanata crates and every method `E::f(&self) -> Option<_>` whose name f is the name of
a field of at least one variant of E: each variant that has a field f has an explicit arm in the method's match
on self, that arm reads the variant's field f, and `Some(..)` is built on the way from the arm to the return."""
from kq.analysis import blocks_reading_field, discr_switches
from kq.core import proj
from kq.report import RuleResult, norm_key


def run(prog):
    res = RuleResult("R-ACCESSOR", "an Option-returning accessor named after an enum field returns Some for every variant that has the field", floor=6)
    for name, a in sorted(prog.adts.items()):
        if a.get("kind") != "enum" or not name.startswith("kanata"):
            continue
        by_field = {}
        for v in a["variants"]:
            for fl in v.get("fields", []):
                if fl["name"] and not fl["name"].isdigit():
                    by_field.setdefault(fl["name"], []).append(v["name"])
        if not by_field:
            continue
        for fld, variants in sorted(by_field.items()):
            for f in prog.by_norm.get(name + "::" + fld, []):
                rt = f.local_ty(0) or ""
                if not rt.startswith("core::option::Option<") or f.nargs != 1:
                    continue
                res.fn(f)
                sws = [s for s in discr_switches(prog, f, name) if not proj(s.place) or True]
                if not sws:
                    res.viol("%s/%s|no-match" % (norm_key(name), fld), f.loc, "the accessor no longer matches on self")
                    continue
                sw = sws[0]
                for v in variants:
                    key = "%s::%s/%s" % (norm_key(name), fld, v)
                    ok = v in sw.arms
                    why = "falls into the catch-all arm"
                    if ok:
                        reach = sw.arm_reach(v)
                        reads = blocks_reading_field(f, reach, name, fld, variant=v)
                        some = any(st["k"] == "assign" and st["rv"]["k"] == "agg" and st["rv"].get("adt") == "core::option::Option"
                                   and st["rv"].get("v") == "Some" for b in reach for st in f.stmts(b))
                        ok = bool(reads) and some
                        why = "its arm does not read the field" if not reads else "its arm never builds Some(..)"
                    res.inst(key, where=f.loc, ok=ok)
                    res.oblige(ok)
                    if not ok:
                        res.viol(key, f.loc,
                                 "%s::%s() is named after the field `%s`, but the variant %s, which has that field, %s: callers that ask a "
                                 "state for its %s (switch `input` conditions, release and idle logic) no longer see states of this kind"
                                 % (name.split("::")[-1], fld, fld, v, why, fld))
    return res
