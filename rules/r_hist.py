"""R-HIST-SAT (C10): key-timing conditions compare the *age* of a history entry with a threshold. Ages are u16 tick
counts that saturate at 65535 ("older than everything"); if they wrapped, an old key would look recent again after
65.5 s. Rule: every arithmetic step on history ages in `History` is saturating: tick_hist uses saturating_add, and no
method of History (or its closures) uses wrapping_* / overflowing_* arithmetic."""
from kq.core import callee_name
from kq.report import RuleResult

H = "kanata_keyberon::layout::History::"


def run(prog):
    res = RuleResult("R-HIST-SAT", "history ages saturate instead of wrapping", floor=2)
    fns = [f for f in prog.fns.values() if f.norm.startswith(H)]
    tick = prog.fn(H + "tick_hist")
    res.fn(tick)
    sat = [t for _, t in tick.calls() if (callee_name(t) or "").endswith("saturating_add")]
    res.inst("tick_hist/saturating_add", n=len(sat))
    res.oblige(bool(sat))
    if not sat:
        res.viol("tick_hist/saturating_add", tick.loc, "History::tick_hist no longer ages the entries with a saturating addition")
    for f in fns:
        res.fn(f)
        bad = [(bi, t) for bi, t in f.calls() if any(x in (callee_name(t) or "") for x in ("::wrapping_", "::overflowing_"))]
        res.inst("no-wrapping/" + f.norm.split("History::")[-1], ok=not bad)
        res.oblige(not bad)
        for bi, t in bad:
            res.viol("no-wrapping/" + f.norm.split("History::")[-1], "%s:%s" % (f.file, t.get("ln")),
                     "%s on a history tick quantity: after 65536 ticks an old key looks recent again to key-timing conditions"
                     % (callee_name(t) or "").split("::")[-1])
    return res
