"""R-HT-WHILE-HELD (C05): the per-variant early triggers of a tap-hold (`handle_hold_tap`, the arms of the match on
HoldTapConfig) decide Hold only from what was queued *while the key was held*: every scan of the event queue that an arm
(or a closure of the function that an arm calls) starts is bounded, and at least one bounded scan exists in the function
(it may be built once ahead of the match and handed to the arms) - `iter()` flows straight into `take(..)` /
`take_while(..)` - before anything is looked for in it. What is queued behind the key's own release happened after the key
was let go and must not turn a tap that is already over into a hold (fix 71aa671, hunt/C05-1). The unbounded scans that are
legitimate are outside the arms: the one that computes the bound (`position`) and the release-vs-timeout tail (`find`).

Decides the shape (a necessary condition: an unbounded scan in an arm sees the events behind the release); does not decide
that the bound is the right number."""
from kq.analysis import discr_switches
from kq.core import callee_name, is_place
from kq.report import RuleResult

WS = "kanata_keyberon::layout::WaitingState"
BOUNDERS = ("take", "take_while")


def _iter_calls(f):
    for bi, t in f.calls():
        cn = callee_name(t) or ""
        if cn.split("::")[-1] == "iter" and "arraydeque" in cn and "layout::Queued" in (t.get("ga", "") + (f.local_ty(t["dest"]["l"]) or "")):
            yield bi, t


def _bounded(f, t):
    dl = t["dest"]["l"]
    for b2, t2 in f.calls():
        cn = (callee_name(t2) or "").split("::")[-1]
        if cn in BOUNDERS and t2["args"] and is_place(t2["args"][0]) and t2["args"][0]["l"] == dl:
            return cn
    return None


def rule_while_held(prog):
    res = RuleResult("R-HT-WHILE-HELD", "the early triggers of a tap-hold scan only what was queued while the key was held", floor=1)
    f = prog.fn(WS + "::handle_hold_tap")
    res.fn(f)
    sws = discr_switches(prog, f, "kanata_keyberon::action::HoldTapConfig")
    if not sws:
        res.viol("shape", f.loc, "handle_hold_tap no longer matches on HoldTapConfig")
        return res
    sw = sws[0]
    arm_of = {}
    for v in sw.all_variants:
        if v in sw.arms:
            for b in sw.arm_region(v):
                arm_of.setdefault(b, v)
    sites = []
    for bi, t in _iter_calls(f):
        if bi in arm_of:
            sites.append((f, t, "arm/%s" % arm_of[bi]))
        elif _bounded(f, t):
            # the bounded iterator may be built once, ahead of the match, and handed to the arms
            sites.append((f, t, "body"))
    for c in prog.closures_of(f):
        res.fn(c)
        for bi, t in _iter_calls(c):
            sites.append((c, t, "closure/%s" % c.norm.split("::")[-1].strip("{}")))
    seen = {}
    for g, t, where in sites:
        n = seen.get(where, 0)
        seen[where] = n + 1
        key = "%s/scan#%d" % (where, n)
        how = _bounded(g, t)
        res.inst(key, where="%s:%s" % (g.file, t.get("ln")), how=("bounded by %s" % how) if how else "UNBOUNDED")
        res.oblige(how is not None)
        if how is None:
            res.viol("%s/unbounded-scan" % where, "%s:%s" % (g.file, t.get("ln")),
                     "an early trigger of handle_hold_tap scans the whole event queue (iter() is not bounded by take / take_while): "
                     "events queued behind the key's own release are seen too, so a key that was already released in time can "
                     "still resolve as hold when another key is pressed right after it")
    return res
