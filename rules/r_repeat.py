"""R-RPT-GUARD (C14): an OS repeat is forwarded at most once and only for a key kanata holds down."""
from kq.analysis import blocks_calling, discr_switches, reach_under_variant
from kq.core import callee_name, is_place, proj
from kq.report import RuleResult

KAN = "kanata_state_machine::kanata::"
MODE = "kanata_parser::custom_action::SequenceInputMode"
ACTION = "kanata_keyberon::action::Action"


def run(prog):
    res = RuleResult("R-RPT-GUARD", "repeat only for a currently held output key, at most one per event, never in hidden sequence modes", floor=6)
    f = prog.fn(KAN + "Kanata::handle_repeat_actual")
    res.fn(f)
    writes = blocks_calling(f, f.reachable(), [KAN + "output_logic::write_key"])
    contains = blocks_calling(f, f.reachable(), ["core::slice::contains"])
    res.inst("anchors", write_key=len(writes), contains=len(contains))
    if not writes or not contains:
        res.viol("anchors", f.loc, "handle_repeat_actual lost its write_key / contains anchors")
        return res
    free = f.reach_from(0, avoid=[b for b, _ in contains])
    for n, (b, t) in enumerate(writes):
        ok = b not in free
        res.inst("guarded#%d" % n, where="%s:%s" % (f.file, t.get("ln")), ok=ok)
        res.oblige(ok)
        if not ok:
            res.viol("guarded#%d" % n, "%s:%s" % (f.file, t.get("ln")),
                     "a repeat can be written without testing that the key is currently held (cur_keys/unshifted/unmodded .contains)")
        after = f.reach_from(t["t"]) if t["t"] is not None else set()
        again = [b2 for b2, _ in writes if b2 in after]
        ok2 = not again
        res.inst("once#%d" % n, ok=ok2)
        res.oblige(ok2)
        if not ok2:
            res.viol("once#%d" % n, "%s:%s" % (f.file, t.get("ln")), "after writing a repeat another repeat can be written for the same event")
    # modes in which the repeat path continues must be modes in which typed keys are pressed at the OS
    cont = blocks_calling(f, f.reachable(), ["kanata_keyberon::layout::Layout::keycodes"])
    sp = prog.fn(KAN + "sequences::do_sequence_press_logic")
    res.fn(sp)
    press_calls = blocks_calling(sp, sp.reachable(), [KAN + "output_logic::press_key"])
    modes = list(prog.enum_variants(MODE).values())
    from kq.analysis import blocks_reading_field
    starts = blocks_reading_field(f, f.reachable(), KAN + "sequences::SequenceState", "sequence_input_mode")
    if not starts:
        res.viol("mode/read", f.loc, "handle_repeat_actual no longer looks at the sequence input mode")
    for m in modes:
        r1 = set()
        for s0 in starts:
            r1 |= reach_under_variant(prog, f, MODE, m, start=s0)
        repeats = any(b in r1 for b, _ in cont)
        r2 = reach_under_variant(prog, sp, MODE, m)
        presses = any(b in r2 for b, _ in press_calls)
        res.inst("mode/" + m, repeat_path_continues=repeats, typed_keys_pressed_at_os=presses)
        ok = (not repeats) or presses
        res.oblige(ok)
        if not ok:
            res.viol("mode/" + m, f.loc,
                     "in sequence input mode %s typed keys are not pressed at the OS, yet handle_repeat_actual goes on to "
                     "forward repeats for them (a repeat for a key that is up)" % m)
    if not cont or not press_calls:
        res.viol("mode/anchors", f.loc, "lost the keycodes()/press_key anchors used to compare sequence modes")
    # override pass precedes the first contains (R-OVR-BOTH, repeat half)
    ov = blocks_calling(f, f.reachable(), ["kanata_parser::cfg::key_override::Overrides::override_keys"])
    ok = bool(ov) and all(any(f.dominates(o, b) for o, _ in ov) for b, _ in contains)
    res.inst("override-before-contains", ok=ok)
    if not ok:
        res.viol("override-before-contains", f.loc, "the repeat path inspects the key list before applying global overrides")
    # the repeat path decides on the same key list as the press path: both run the unmod/unshift adjustment before the
    # override pass (the key lists of unmod/unshift are not consulted behind the overrides' back)
    ADJ = "kanata_state_machine::kanata::apply_unmod_unshift_keys"
    hk = prog.fn("kanata_state_machine::kanata::Kanata::handle_keystate_changes")
    sib = {}
    for g in (f, hk):
        adj = blocks_calling(g, g.reachable(), [ADJ])
        ovs = blocks_calling(g, g.reachable(), ["kanata_parser::cfg::key_override::Overrides::override_keys"])
        sib[g.norm.split("::")[-1]] = bool(adj) and bool(ovs) and all(any(g.dominates(ab, ob) for ab, _ in adj) for ob, _ in ovs)
    bypass = []
    for bi, t in f.calls():
        if (callee_name(t) or "").endswith("::contains") and t["args"]:
            from rules.r_doaction import receiver_fields
            fl = receiver_fields(f, t)
            if fl and fl[-1] in ("unshifted_keys", "unmodded_keys"):
                bypass.append(t.get("ln"))
    ok = all(sib.values()) and not bypass
    res.inst("same-key-list-as-press-path", adjusted_before_overrides=sib, direct_lookups=len(bypass))
    res.oblige(ok)
    if not ok:
        res.viol("same-key-list-as-press-path", f.loc,
                 "the repeat path does not build its key list like the press path (unmod/unshift adjustment before the override pass: "
                 "%s; direct look-ups in the unmod/unshift lists: %d): it can repeat a key that an override has replaced" % (sib, len(bypass)))
    # keys without an entry in the per-layer output tables (unmapped keys, transparent fall-through to defsrc) are
    # handled by the last, table-less lookup; the tables contain the outputs of global overrides, so that lookup has
    # to ask the override table itself
    oo = blocks_calling(f, f.reachable(), ["kanata_parser::cfg::key_override::Overrides::output_non_mods_for_input_non_mod"])
    wk = blocks_calling(f, f.reachable(), ["kanata_state_machine::kanata::output_logic::write_key"])
    ok = bool(oo) and any(wb in f.reach_from(ob) for ob, _ in oo for wb, _ in wk)
    res.inst("fallback/override-outputs", ok=ok)
    res.oblige(ok)
    if not ok:
        res.viol("fallback/override-outputs", f.loc,
                 "the table-less fallback of the repeat path does not consult the global overrides: a key that falls through to its "
                 "defsrc output and is rewritten by an override is held down but never repeated")
    return res


def run_outputs(prog):
    """key-producing variants of Action reach add_kc_output in the repeat-table builder"""
    res = RuleResult("R-RPT-TABLE", "every key-producing action variant is recorded in the repeat table", floor=3)
    f = prog.fn("kanata_parser::cfg::key_outputs::add_key_output_from_action_to_key_pos")
    res.fn(f)
    sws = discr_switches(prog, f, ACTION)
    if not sws:
        res.viol("shape", f.loc, "repeat table builder no longer matches on Action")
        return res
    sw = max(sws, key=lambda s: len(s.arms))
    act = prog.adt(ACTION)
    need = [v["name"] for v in act["variants"] if any("kanata_keyberon::key_code::KeyCode" in fl["adts"] for fl in v["fields"])]
    need.append("Src")
    for v in need:
        region = sw.arm_region(v)
        calls = blocks_calling(f, region, ["kanata_parser::cfg::key_outputs::add_kc_output"])
        res.inst("records/" + v, calls=len(calls))
        res.oblige(bool(calls))
        if not calls:
            res.viol("records/" + v, f.loc, "Action::%s carries key codes but its arm in the repeat-table builder records none" % v)
    # the chords-v2 outputs are added for every key position: same callers
    g = prog.fn("kanata_parser::cfg::key_outputs::add_chordsv2_output_for_key_pos")
    callers_a = prog.callers_of(f.norm) - {f.norm, g.norm}
    callers_b = prog.callers_of(g.norm)
    res.inst("chordsv2-callers", action=sorted(callers_a), chordsv2=sorted(callers_b))
    if not (callers_a and callers_a <= callers_b):
        res.viol("chordsv2-callers", g.loc, "chords-v2 outputs are not added wherever the layer action outputs are")
    return res


def early_loop_exits(f):
    """for-loops of f that can be left before the iterator is exhausted by something other than an error
    return (`?`): [(line of the loop, line of the exit)]"""
    from kq.core import callee_written
    out = []
    for nb, t in f.calls():
        if not (callee_written(t) or "").endswith("Iterator::next") or "desugar:ForLoop" not in (t.get("mac") or []):
            continue
        sw_b = t.get("t")
        if sw_b is None:
            continue
        # follow to the switch on the Option discriminant
        b = sw_b
        for _ in range(4):
            tt = f.term(b)
            if tt["k"] == "switch":
                break
            ss = f.succs(b)
            if len(ss) != 1:
                break
            b = ss[0]
        tt = f.term(b)
        if tt["k"] != "switch":
            continue
        some_t = [tb for v, tb in tt["ts"] if v == 1]
        none_t = [tb for v, tb in tt["ts"] if v == 0]
        if not some_t or not none_t:
            continue
        body = f.reach_from(some_t[0], avoid=[nb])
        # blocks on the way back to the header belong to the loop
        header_pred = {p_ for p_ in body if nb in f.succs(p_)}
        loop = {x for x in body if any(nb in f.reach_from(x, avoid=[]) for _ in [0])}
        loop = {x for x in body if nb in f.reach_from(x)}
        for x in sorted(loop):
            for s_ in f.succs(x):
                if s_ in loop or s_ == nb or f.term(s_)["k"] == "unreachable":
                    continue
                # leaving the loop: is it an error propagation?
                way = f.reach_from(s_, avoid=[nb])
                is_err = False
                for y in [x] + sorted(way):
                    ty = f.term(y)
                    if ty["k"] == "call" and "from_residual" in (callee_name(ty) or ""):
                        is_err = True
                    for st in f.stmts(y):
                        if st["k"] == "assign" and st["rv"]["k"] == "agg" and st["rv"].get("adt") == "core::result::Result" and st["rv"].get("v") == "Err" and st["p"]["l"] == 0:
                            is_err = True
                if not is_err:
                    out.append((t.get("ln"), f.line_of(x)))
    return out


def run_collect(prog):
    """R-RPT-COLLECT: the loops that build the repeat table visit every element: none of them is left early (break /
    return) except to report an error."""
    res = RuleResult("R-RPT-COLLECT", "the repeat-table builders do not stop collecting early", floor=5)
    roots = ["kanata_parser::cfg::key_outputs::create_key_outputs"]
    reach = prog.reachable_from(roots)
    n = 0
    for nm in sorted(reach):
        for f in prog.by_norm.get(nm, []):
            if f.crate != "kanata_parser" or f.derive:
                continue
            if not (f.norm.startswith("kanata_parser::cfg::key_outputs::") or f.norm.startswith("kanata_parser::cfg::key_override::")
                    or f.norm == roots[0]):
                continue
            res.fn(f)
            ex = early_loop_exits(f)
            loops = sum(1 for _, t in f.calls() if "desugar:ForLoop" in (t.get("mac") or []) and (callee_name(t) or "").endswith("::next"))
            n += loops
            res.inst("loops/" + f.norm, loops=loops, early_exits=len(ex))
            res.oblige(not ex)
            # what was collected stays collected: no clear / truncate / pop / retain on a Vec<OsCode> in the builders
            for bi, t in f.calls():
                cn = callee_name(t) or ""
                if cn.split("::")[-1] in ("clear", "truncate", "pop", "retain", "remove", "swap_remove", "drain") and cn.startswith("alloc::vec::Vec") \
                        and "OsCode" in (f.place_ty(t["args"][0]) or "" if t["args"] else ""):
                    res.oblige(False)
                    res.viol("removal/" + f.norm, "%s:%s" % (f.file, t.get("ln")),
                             "%s removes already collected outputs (%s): keys that a physical key can produce are missing from the "
                             "repeat table" % (f.norm.split("::")[-1], cn.split("::")[-1]))
            for (ll, xl) in ex[:3]:
                res.viol("early-exit/" + f.norm, "%s:%s" % (f.file, xl),
                         "the loop at line %s of %s can be left before all elements were visited: outputs of the remaining elements are "
                         "missing from the repeat table, so OS repeats for them are swallowed" % (ll, f.norm.split("::")[-1]))
    return res


def run_scan(prog):
    """R-RPT-SCAN (C14): the search for the held output key is exhaustive.

    handle_repeat_actual walks the held layers, then the base layer, then defsrc, and within each the key's
    possible outputs; it stops as soon as it has written the repeat (`return`). A loop that is left early *without*
    having written anything (`break` once a layer maps the key) skips layers whose output is the one that is
    actually down: the repeat is swallowed. Rule: from every non-error early exit of a loop in handle_repeat_actual
    no further write_key call is reachable (i.e. the exit is the `return` after a write, not a jump to the fallbacks).
    Also: add_kc_output records the key's override outputs on every path (no early return before them)."""
    res = RuleResult("R-RPT-SCAN", "the repeat lookup leaves its loops early only after writing the repeat", floor=2)
    f = prog.fn(KAN + "Kanata::handle_repeat_actual")
    res.fn(f)
    writes = [b for b, _ in blocks_calling(f, f.reachable(), [KAN + "output_logic::write_key"])]
    from rules.r_loopvar import loops_of
    n = 0
    for li, lp in enumerate(loops_of(f)):
        bad = None
        for x in sorted(lp.body):
            for s_ in f.succs(x):
                if s_ in lp.body or f.is_cleanup(s_):
                    continue
                # the regular exit: iterator exhausted (successor of the switch on next()'s discriminant with value None)
                if _is_iterator_exhausted_edge(f, lp, x, s_) or f.term(s_)["k"] == "unreachable":
                    continue
                # an early exit is fine when it only leads to writing the repeat (every way on to the return passes write_key)
                if set(f.return_blocks()) & f.reach_from(s_, avoid=writes):
                    bad = (f.line_of(x), s_)
        n += 1
        ok = bad is None
        res.inst("loop#%d" % li, where="%s:%s" % (f.file, f.line_of(lp.h)), ok=ok)
        res.oblige(ok)
        if not ok:
            res.viol("loop#%d" % li, "%s:%s" % (f.file, bad[0]),
                     "the loop at line %s of handle_repeat_actual can be left at line %s without a repeat having been written and the "
                     "search then continues with the fallbacks: held layers (or outputs) that were not looked at yet are skipped, so the "
                     "repeat of a key whose output comes from one of them is swallowed" % (f.line_of(lp.h), bad[0]))
    g = prog.fn_opt("kanata_parser::cfg::key_outputs::add_kc_output")
    if g is None:
        res.viol("anchor/add_kc_output", "parser/src/cfg/key_outputs.rs", "add_kc_output not found")
    else:
        res.fn(g)
        ov = [bi for bi, t in g.calls() if (callee_name(t) or "").split("::")[-1] == "output_non_mods_for_input_non_mod"]
        rets = set(g.return_blocks())
        ok = bool(ov) and not (g.reach_from(0, avoid=ov) & rets)
        res.inst("add_kc_output/override-outputs-on-every-path", where=g.loc, ok=ok)
        res.oblige(ok)
        if not ok:
            res.viol("add_kc_output/override-outputs-on-every-path", g.loc,
                     "add_kc_output can return without looking up the key's override outputs (early return when the key is already "
                     "recorded): a key that entered the list as another key's override output never gets its own override outputs, "
                     "and OS repeats of those are dropped")
    return res


def _is_iterator_exhausted_edge(f, lp, x, s_):
    """edge x -> s_ leaves the loop because next() returned None"""
    t = f.term(x)
    if t["k"] != "switch" or not is_place(t["d"]):
        return False
    d = f.single_def(t["d"]["l"]) if not proj(t["d"]) else None
    if not d or d[2] != "assign" or d[3]["k"] != "discr":
        return False
    src = f.single_def(d[3]["p"]["l"])
    if not src or src[2] != "call" or not (callee_name(src[3]) or "").endswith("::next"):
        return False
    return any(v == 0 and tb == s_ for v, tb in t["ts"])


def rule_kc_output(prog):
    """R-KC-OUTPUT (C14): the override outputs recorded for a physical key are those of the key that is *output*.

    add_kc_output(slot, out, ..) records under the physical key `slot` that `out` can be down at the OS because of it,
    plus the outputs of every override whose input is `out`. Both parameters are OsCodes; looking the overrides up with
    `slot` type-checks and is right whenever a key is mapped to itself, but for a remapped key the override output that
    is actually down is missing from the table and OS repeats for it are never forwarded."""
    from kq.core import Resolver
    res = RuleResult("R-KC-OUTPUT", "add_kc_output looks overrides up for the key it records as output", floor=1)
    f = prog.fn_opt("kanata_parser::cfg::key_outputs::add_kc_output")
    if f is None:
        res.viol("anchor", "parser/src/cfg/key_outputs.rs", "add_kc_output not found")
        return res
    res.fn(f)
    R = Resolver(f)

    def param_of(op):
        r = R.root(op)
        if r[0] == "param":
            return r[1]
        # &osc / contains(&osc): a reference to the parameter
        if r[0] == "place" and isinstance(r[1], dict) and 1 <= r[1].get("l", 0) <= f.nargs:
            return r[1]["l"]
        return None
    pushed, looked, slot = set(), [], None
    for bi, t in f.calls():
        short = (callee_name(t) or "").split("::")[-1]
        if short == "push" and len(t["args"]) > 1:
            p = param_of(t["args"][1])
            if p is not None:
                pushed.add(p)
        elif short == "entry" and len(t["args"]) > 1:
            slot = param_of(t["args"][1])
        elif short == "output_non_mods_for_input_non_mod" and len(t["args"]) > 1:
            looked.append((bi, t, param_of(t["args"][1])))
    chained_last = None
    if not pushed and looked and slot is not None:
        # `for o in overrides.output_non_mods_for_input_non_mod(osc).into_iter().chain(once(osc)) { push(o) }`: the key's own code is
        # the parameter given to once(), chained *behind* the override outputs
        onces = {bi: param_of(t["args"][0]) for bi, t in f.calls() if (callee_name(t) or "").split("::")[-1] == "once" and t["args"]}
        for bi, t in f.calls():
            if (callee_name(t) or "").split("::")[-1] != "chain" or len(t["args"]) != 2:
                continue
            r0, r1 = R.root(t["args"][0]), R.root(t["args"][1])
            first_is_lookup = r0[0] == "call" and r0[1][0] in [lb for lb, _t, _p in looked]
            second_once = r1[0] == "call" and r1[1][0] in onces and onces[r1[1][0]] is not None
            if first_is_lookup and second_once:
                pushed.add(onces[r1[1][0]])
                chained_last = True
            elif r1[0] == "call" and r1[1][0] in [lb for lb, _t, _p in looked] and r0[0] == "call" and r0[1][0] in onces:
                pushed.add(onces[r0[1][0]])
                chained_last = False
    if len(pushed) != 1 or not looked or slot is None:
        res.viol("anchor/shape", f.loc, "add_kc_output: the parameter pushed as output (%s), the slot (%s) or the override lookup (%d) were not "
                                        "recognised" % (sorted(pushed), slot, len(looked)))
        return res
    out = next(iter(pushed))
    # the repeat handler walks the list from the back: the key's own code is pushed after the outputs of its overrides
    own_push = [bi for bi, t in f.calls() if (callee_name(t) or "").split("::")[-1] == "push" and len(t["args"]) > 1 and param_of(t["args"][1]) == out]
    ok_last = bool(own_push) and all(any(f.dominates(lb, pb) for lb, _t, _p in looked) for pb in own_push)
    if chained_last is not None:
        ok_last = chained_last
    res.inst("own-key-after-override-outputs", where=f.loc, ok=ok_last)
    res.oblige(ok_last)
    if not ok_last:
        res.viol("own-key-after-override-outputs", f.loc,
                 "add_kc_output pushes the key's own code before the outputs of its overrides. The repeat handler walks the list from the back "
                 "and repeats the first key that is down: with (defoverrides (lsft a) (b)), a and b held and lsft up, the repeats of a go "
                 "out as repeats of B")
    for bi, t, p in looked:
        ok = p == out
        res.inst("override-lookup-key", where="%s:%s" % (f.file, t.get("ln")), looked_up=f.local_name(p) if p else None,
                 recorded_output=f.local_name(out), slot=f.local_name(slot), ok=ok)
        res.oblige(ok)
        if not ok:
            res.viol("override-lookup-key", "%s:%s" % (f.file, t.get("ln")),
                     "add_kc_output looks the override outputs up for `%s`, but the key it records as output of the slot is `%s`: for a "
                     "physical key that is remapped (a -> b) with an override on the output key ((lsft b) -> c), c is what is down at "
                     "the OS while the override is active, and it is missing from the key-output table: the OS repeat of the held key "
                     "is not forwarded" % (f.local_name(p) if p else "?", f.local_name(out)))
    return res
