"""R-EVERY-ITEM (C09, C01): loops that must act on *every* element of a list do so.

Some run-time loops implement a "for all" of a property: the action of a v1 chord is repeated on every
participating coordinate so that its output lasts until the *last* participant is released; the end of a one-shot
releases every deferred coordinate. Such a loop is wrong as soon as it runs over a truncated or filtered view of
the list (`skip(1)`, `take(n)`, `filter(..)`, `step_by`) or can go round without performing the per-item call.

Rule: for each reviewed (function, element type) pair below, the function has at least the reviewed number of
loops driven by an iterator over that element type; the iterator's type contains no length-changing adaptor; and
no path from the loop head back to the head avoids the per-item call."""
from kq.core import callee_name
from kq.report import RuleResult
from rules.r_loopvar import iterator_driver, loops_of

KB = "kanata_keyberon::layout::"
CHANGING = ("Filter<", "FilterMap<", "Skip<", "Take<", "SkipWhile<", "TakeWhile<", "StepBy<", "Flatten<", "FlatMap<", "Chain<",
            "MapWhile<", "Scan<", "Rev<", "Cycle<", "Peekable<")

# (function, substring of the iterator type that identifies the list, reviewed number of loops, per-item callee, properties, what)
TABLE = [
    (KB + "Layout::waiting_into_tap", "arraydeque::Iter<'_, (u8, u16)>", 2, "do_action", ("C09",),
     "the action of a v1 chord is repeated on every participating coordinate (it lasts until the last participant is released)"),
    (KB + "Layout::tick", "Iter<'_, (u8, u16)>", 1, "dequeue", ("C06",),
     "the end of a one-shot releases every coordinate whose release was deferred"),
]


def _run(prog, pid):
    res = RuleResult("R-EVERY-ITEM", "loops that implement a 'for every element' act on every element", floor=1)
    for fn, tysub, n_rev, callee, props, what in TABLE:
        if pid not in props:
            continue
        f = prog.fn_opt(fn)
        short = fn.split("::")[-1]
        if f is None:
            res.viol("anchor/" + short, "keyberon/src/layout.rs", "%s not found" % fn)
            continue
        res.fn(f)
        found = 0
        any_driver = []
        for lp in loops_of(f):
            ty = iterator_driver(f, lp) or ""
            calls = [b for b in lp.body if f.term(b)["k"] == "call" and (callee_name(f.term(b)) or "").split("::")[-1] == callee]
            if ty:
                any_driver.append((lp, ty, calls))
            # `for x in opt_list.into_iter().flatten()`: flattening an Option of the list yields the whole list (or nothing when
            # there is no list) - the same elements as `if let Some(l) = opt_list { for x in l.iter() }`
            whole_opt = "Flatten<core::option::IntoIter<" in ty and tysub.split("<")[-1].rstrip(">").split(", ", 1)[-1] in ty
            if tysub not in ty and not whole_opt:
                continue
            found += 1
            bad = [c.rstrip("<") for c in CHANGING if c in ty and not (whole_opt and c == "Flatten<")]
            skips = _skips(f, lp, calls, excuse=_already_done_test(f, lp, callee))
            ok = not bad and not skips
            key = "%s/%s%s" % (short, callee, "#%d" % (found - 1) if found > 1 else "")
            res.inst(key, where="%s:%s" % (f.file, f.line_of(lp.h)), iterator=ty[:100], ok=ok)
            res.oblige(ok)
            if not ok:
                res.viol(key, "%s:%s" % (f.file, f.line_of(lp.h)),
                         "%s: the loop %s: %s. Expected: %s"
                         % (short, ("runs over a %s view of the list" % "/".join(bad)) if bad else "can go round without calling %s" % callee,
                            "some elements are never acted on", what))
        # the reviewed tree has n_rev such loops (two copies in waiting_into_tap); merging the copies into one loop over a
        # candidate list is a legitimate clean-up, losing all of them is not
        if found < 1:
            # a loop that now runs over an adapted iterator whose type hides the element type, or a loop that disappeared
            cand = [(lp, ty, calls) for lp, ty, calls in any_driver if calls and tysub not in ty and any(c in ty for c in CHANGING)]
            for lp, ty, calls in cand:
                res.inst("%s/%s/adapted" % (short, callee), where="%s:%s" % (f.file, f.line_of(lp.h)), iterator=ty[:100], ok=False)
            res.viol("%s/%s/loops" % (short, callee), f.loc,
                     "%s has %d loop(s) over the whole list that call %s for each element; reviewed: %d. %s%s"
                     % (short, found, callee, n_rev, what,
                        ("; a loop calling it now runs over " + cand[0][1][:120]) if cand else ""))
    return res


def _already_done_test(f, lp, callee):
    """blocks of the loop body that test `item == X` where X is the very argument that a call of `callee` *dominating the
    loop* received in the same position as the loop item: the element was acted on before the loop, skipping it in the
    loop leaves every element acted on exactly once. Returns the set of switch blocks whose 'equal' edge may be taken."""
    from kq.core import Resolver, callee_written, is_place, proj
    R = Resolver(f)
    inner = [f.term(b) for b in lp.body if f.term(b)["k"] == "call" and (callee_name(f.term(b)) or "").split("::")[-1] == callee]
    outer = [f.term(b) for b in f.reachable() if b not in lp.body and f.term(b)["k"] == "call"
             and (callee_name(f.term(b)) or "").split("::")[-1] == callee and f.dominates(b, lp.h)]
    if not inner or not outer:
        return {}

    def root_local(op):
        while is_place(op) and not proj(op):
            d = f.single_def(op["l"])
            if d and d[2] == "assign" and d[3]["k"] in ("use", "ref") and is_place(d[3].get("a") or d[3].get("p")):
                nxt = d[3].get("a") or d[3].get("p")
                if [e for e in proj(nxt) if e != "*"]:
                    break
                op = {"l": nxt["l"]}
                continue
            break
        return op.get("l") if is_place(op) else None
    out = {}
    for b in lp.body:
        t = f.term(b)
        if t["k"] != "call" or (callee_written(t) or "") not in ("core::cmp::PartialEq::eq", "core::cmp::PartialEq::ne") or len(t["args"]) != 2:
            continue
        sides = {root_local(a) for a in t["args"]}
        for it in inner:
            for ot in outer:
                for i in range(1, min(len(it["args"]), len(ot["args"]))):
                    li, lo = root_local(it["args"][i]), root_local(ot["args"][i])
                    if li is not None and lo is not None and li != lo and sides == {li, lo}:
                        nxt = t.get("t")
                        if nxt is not None and f.term(nxt)["k"] == "switch":
                            sw = f.term(nxt)
                            zero = [tb for v_, tb in sw["ts"] if v_ == 0]
                            is_eq = (callee_written(t) or "").endswith("::eq")
                            # the successor taken when item == X
                            same = sw["o"] if is_eq else (zero[0] if zero else None)
                            if same is not None:
                                out[nxt] = same
    return out


def _skips(f, lp, calls, excuse=None):
    excuse = excuse or {}
    if not calls:
        return True
    seen, st = set(), [s for s in f.succs(lp.h) if s in lp.body]
    while st:
        b = st.pop()
        if b in seen or b in calls or b not in lp.body:
            continue
        seen.add(b)
        for s in f.succs(b):
            if b in excuse and s == excuse[b]:
                continue          # "this element was handled before the loop": not a skipped element
            if s == lp.h:
                return True
            st.append(s)
    return False


def run_for(pid):
    def run(prog, pid=pid):
        return _run(prog, pid)
    run.__name__ = "run_" + pid
    return run
