"""Chord rules (C09, C01).
R-CHV2-REL     chords v2: release bookkeeping precedes every wholesale removal from the v2 queue; active
               chords leave only through clear_released_chords, which emits the virtual Release.
R-CHV2-DISABLED every walk over the per-key chord list that selects a chord filters on disabled layers.
R-CH1-GUARD    chords v1: every pass over the queued events in handle_chord / decompose applies the
               chord-window test (reads Queued.since together with Queued.event).
"""
import re

from kq.analysis import blocks_calling, fn_reads_fields
from kq.core import Resolver, callee_name, const_val, is_const, is_place, norm_name, proj
from kq.report import RuleResult
from rules.r_doaction import receiver_fields
from rules.r_cancel import closure_arg

CH = "kanata_keyberon::chord::"
WHOLESALE = ("drain", "clear", "pop_front", "pop_back", "truncate")
REMOVERS = WHOLESALE + ("retain", "remove", "swap_remove", "pop")


def rule_rel(prog):
    res = RuleResult("R-CHV2-REL", "v2 chord releases are accounted before events leave the queue; a removed active chord emits its virtual release", floor=3)
    fns = [f for f in prog.fns.values() if f.norm.startswith(CH + "ChordsV2::")]
    n_sites = 0
    for f in fns:
        rels = blocks_calling(f, f.reachable(), [CH + "ChordsV2::drain_releases"])
        for bi, t in f.calls():
            cn = callee_name(t) or ""
            meth = cn.split("::")[-1]
            if not cn.startswith("arraydeque::") or meth not in WHOLESALE:
                continue
            fl = receiver_fields(f, t)
            if not fl or fl[-1] != "queue":
                continue
            n_sites += 1
            res.fn(f)
            ok = any(f.dominates(rb, bi) for rb, _ in rels)
            res.inst("queue.%s@%s" % (meth, f.norm.split("::")[-1]), where="%s:%s" % (f.file, t.get("ln")), after_drain_releases=ok)
            res.oblige(ok)
            if not ok:
                res.viol("queue.%s@%s" % (meth, f.norm), "%s:%s" % (f.file, t.get("ln")),
                         "events are removed wholesale from the chords-v2 queue without the release bookkeeping of "
                         "drain_releases having run: a key release drained here never reaches its active chord, which then stays "
                         "pressed forever")
    if n_sites < 1:
        res.viol("queue/census", "keyberon/src/chord.rs", "no wholesale removal from ChordsV2.queue found (expected the ignore-window drain)")
    # a released key is taken off *every* active chord it participates in (chords may share keys): the bookkeeping
    # `remaining_keys_to_release.retain(..)` runs inside a for_each / for loop over the active chords, not after a find()
    n_rel = 0
    for f in prog.fns.values():
        if not f.norm.startswith(CH + "ChordsV2::drain_releases"):
            continue
        for bi, t in f.calls():
            if (callee_name(t) or "").split("::")[-1] != "retain":
                continue
            fl = receiver_fields(f, t)
            if not (fl and fl[-1] == "remaining_keys_to_release"):
                continue
            n_rel += 1
            ok = False
            # (a) f is the body closure of Iterator::for_each over the active chords
            par = prog.fn_opt(f.iparent) if f.iparent else None
            if par is not None:
                for b2, t2 in par.calls():
                    if (callee_name(t2) or "").split("::")[-1] in ("for_each",) and len(t2["args"]) > 1:
                        c = closure_arg(prog, par, t2["args"][1])
                        if c is not None and c.norm == f.norm:
                            ok = True
            # (b) or the call sits in a for loop: it can reach a `next()` call that can reach it again
            for b2, t2 in f.calls():
                if (callee_name(t2) or "").endswith("::next") and bi in f.reach_from(b2) and b2 in f.reach_from(bi):
                    ok = True
            res.inst("release-credited-to-every-chord#%d" % n_rel, where="%s:%s" % (f.file, t.get("ln")), ok=ok)
            res.oblige(ok)
            if not ok:
                res.viol("release-credited-to-every-chord", "%s:%s" % (f.file, t.get("ln")),
                         "a key release is credited to one active chord only (no for_each / loop over the active chords around the "
                         "bookkeeping): a second active chord sharing the key never becomes releasable and its output stays down")
    if n_rel == 0:
        res.viol("release-bookkeeping/anchor", "keyberon/src/chord.rs", "drain_releases no longer updates remaining_keys_to_release")
    # who removes from active_chords
    removers = set()
    for f in prog.fns.values():
        if not f.crate.startswith("kanata"):
            continue
        for bi, t in f.calls():
            cn = callee_name(t) or ""
            if cn.split("::")[-1] in REMOVERS and (cn.startswith("heapless::") or cn.startswith("arraydeque::") or cn.startswith("alloc::")):
                fl = receiver_fields(f, t)
                if fl and fl[-1] == "active_chords":
                    removers.add((f.norm, bi))
    names = sorted({n for n, _ in removers})
    res.inst("active_chords/removers", fns=names)
    if names != [CH + "ChordsV2::clear_released_chords"]:
        res.viol("active_chords/removers", "keyberon/src/chord.rs", "active chords are removed in %s; only clear_released_chords (which emits the virtual release) may" % names)
    g = prog.fn(CH + "ChordsV2::clear_released_chords")
    res.fn(g)
    for c in prog.closures_of(g):
        pushes = blocks_calling(c, c.reachable(), ["arraydeque::ArrayDeque::push_back"])
        rel_aggs = [bi for bi, si, st in c.all_rvalues() if st["rv"]["k"] == "agg" and st["rv"].get("adt") == "kanata_keyberon::layout::Event" and st["rv"].get("v") == "Release"]
        falses = [bi for bi, si, st in c.all_rvalues() if st["p"]["l"] == 0 and not proj(st["p"]) and st["rv"]["k"] == "use" and is_const(st["rv"]["a"]) and const_val(st["rv"]["a"]) == 0]
        ok = bool(pushes) and bool(rel_aggs) and bool(falses) and all(any(c.dominates(pb, fb) for pb, _ in pushes) for fb in falses)
        res.inst("clear_released/emit-release", pushes=len(pushes), release_aggs=len(rel_aggs), false_returns=len(falses), ok=ok)
        res.oblige(ok)
        if not ok:
            res.viol("clear_released/emit-release", c.loc, "an active chord can be dropped without Release(0, coordinate) having been queued for it")
    return res


def rule_disabled(prog):
    res = RuleResult("R-CHV2-DISABLED", "every chord lookup in process_presses honours disabled layers", floor=3)
    f = prog.fn(CH + "ChordsV2::process_presses")
    res.fn(f)
    r = Resolver(f)
    n = 0
    for bi, t in f.calls():
        cn = callee_name(t) or ""
        if cn not in ("core::slice::iter",):
            continue
        fl = receiver_fields(f, t)
        src = None
        if fl and fl[-1] == "chords" and "mapping" not in fl[-1:]:
            src = "ChordsForKey.chords"
        else:
            # chord_candidates local (heapless vec of &ChordV2)
            a0 = t["args"][0] if t["args"] else None
            rr = r.root(a0) if a0 is not None else None
            if rr and rr[0] in ("multi", "call", "undef") and isinstance(rr[1], int) and "ChordV2" in f.local_ty(rr[1]) and "Vec" in f.local_ty(rr[1]):
                src = "chord_candidates"
            elif rr and rr[0] == "call" and "ChordV2" in (f.local_ty(rr[1][1]["dest"]["l"]) or ""):
                src = "chord_candidates"
        if src is None:
            continue
        # consumer of the iterator
        dl = t["dest"]["l"]
        consumer = None
        for b2, t2 in f.calls():
            if t2["args"]:
                rr = r.root(t2["args"][0])
                if (rr[0] == "call" and rr[1][1] is t) or (is_place(t2["args"][0]) and t2["args"][0]["l"] == dl):
                    consumer = (b2, t2)
                    break
        cname = callee_name(consumer[1]) if consumer else None
        kind = (cname or "").split("::")[-1]
        if kind in ("all", "any", "copied", "cloned", "for_each") and src == "chord_candidates":
            # walking the already-filtered candidate list to compute a timeout: not a selection
            pass
        filt_ok = False
        if consumer and kind == "filter" and len(consumer[1]["args"]) > 1:
            c = closure_arg(prog, f, consumer[1]["args"][1])
            if c is not None and ("kanata_keyberon::chord::ChordV2", "disabled_layers") in fn_reads_fields(c):
                filt_ok = True
        selects = kind in ("filter", "find", "position", "find_map")
        n += 1
        key = "lookup#%d/%s" % (n, src)
        res.inst(key, where="%s:%s" % (f.file, t.get("ln")), consumer=kind, filters_disabled=filt_ok)
        if selects:
            res.oblige(filt_ok)
            if not filt_ok:
                res.viol(key, "%s:%s" % (f.file, t.get("ln")),
                         "a chord is selected from %s without first filtering out chords disabled on the active layer "
                         "(the sibling lookups in process_presses do filter)" % src)
    return res


def rule_ch1(prog):
    res = RuleResult("R-CH1-GUARD", "every pass over queued events in v1 chord handling applies the chord-window test", floor=3)
    W = "kanata_keyberon::layout::WaitingState::"
    Q = "kanata_keyberon::layout::Queued"
    units = []
    for nm in ("handle_chord", "decompose_chord_into_action_queue"):
        f = prog.fn(W + nm)
        for g in [f] + prog.closures_of(f):
            for bi, t in g.calls():
                meth = (callee_name(t) or "").split("::")[-1]
                if meth in ("try_fold", "retain", "fold", "for_each"):
                    for a in t["args"][1:]:
                        c = closure_arg(prog, g, a)
                        if c is not None and c not in units:
                            units.append(c)
    # the same pass written as a `for s in queued.iter() { .. }` loop: the loop body is the unit
    from kq.analysis import all_operands_in_block
    from kq.core import is_place, proj_fields
    from rules.r_loopvar import iterator_driver, loops_of
    loop_units = []
    for nm in ("handle_chord", "decompose_chord_into_action_queue"):
        f = prog.fn(W + nm)
        for g in [f] + prog.closures_of(f):
            for lp in loops_of(g):
                if "layout::Queued" not in (iterator_driver(g, lp) or ""):
                    continue
                reads, calls = set(), set()
                for b in lp.body:
                    for o in all_operands_in_block(g, b):
                        if is_place(o):
                            reads |= {(a, fl) for (a, _v, fl) in proj_fields(o)}
                    if g.term(b)["k"] == "call":
                        calls.add(callee_name(g.term(b)))
                loop_units.append(("%s/loop@%s" % (g.norm.split("WaitingState::")[-1], nm), g, lp, reads, calls))
    todo = [(u.norm.split("WaitingState::")[-1], u, u.loc, fn_reads_fields(u), {callee_name(t) for _, t in u.calls()}) for u in units]
    todo += [(key, g, "%s:%s" % (g.file, g.line_of(lp.h)), reads, calls) for key, g, lp, reads, calls in loop_units]
    for key, u, where, reads, calls in todo:
        reads_event = (Q, "event") in reads or (Q + "::event") in calls
        reads_since = (Q, "since") in reads
        if not reads_event:
            continue
        res.fn(u)
        res.inst(key, reads_event=True, reads_since=reads_since)
        res.oblige(reads_since)
        if not reads_since:
            res.viol(key, where,
                     "this pass over the queued events looks at the events but not at their age (Queued.since): keys pressed outside "
                     "the chord window are treated as chord members here, unlike in the sibling passes")
    return res


def rule_ch1_twin(prog):
    """R-CH1-TWIN: handle_chord decides *that* chording ends, decompose_chord_into_action_queue re-scans the same
    queue to decide *what* was typed. Both scans are try_fold closures that stop with Err(..); they must stop under
    the same conditions, otherwise decomposition consumes events the first scan never accounted for."""
    from kq.analysis import discr_switches
    res = RuleResult("R-CH1-TWIN", "the two v1 chord scans over the queue abort under the same conditions", floor=2)
    W = "kanata_keyberon::layout::WaitingState::"
    sigs = {}
    for nm in ("handle_chord", "decompose_chord_into_action_queue"):
        f = prog.fn(W + nm)
        for bi, t in f.calls():
            if (callee_name(t) or "").split("::")[-1] != "try_fold":
                continue
            for a in t["args"][1:]:
                c = closure_arg(prog, f, a)
                if c is None:
                    continue
                sws = []
                for adt in ("kanata_keyberon::layout::Event", "core::option::Option"):
                    sws += [(adt.split("::")[-1], sw) for sw in discr_switches(prog, c, adt)]
                errs = []
                for b2, s2, st in c.all_rvalues():
                    rv = st["rv"]
                    if rv["k"] == "agg" and rv.get("adt") == "core::result::Result" and rv.get("v") == "Err":
                        sig = set()
                        for (an, sw) in sws:
                            for v in sw.all_variants:
                                if b2 in sw.arm_region(v):
                                    sig.add("%s::%s" % (an, v))
                        errs.append("+".join(sorted(sig)) or "unconditional")
                sigs[nm] = sorted(errs)
                res.fn(c)
                res.inst("scan/" + nm, aborts=sorted(errs))
    if len(sigs) < 2:
        res.viol("anchors", "keyberon/src/layout.rs", "could not find the try_fold scans of handle_chord and decompose_chord_into_action_queue")
        return res
    a_, b_ = sigs["handle_chord"], sigs["decompose_chord_into_action_queue"]
    ok = a_ == b_
    res.oblige(ok)
    if not ok:
        res.viol("abort-conditions-differ", "keyberon/src/layout.rs",
                 "handle_chord's scan aborts under %s but decompose_chord_into_action_queue's scan aborts under %s: the decomposition "
                 "looks at a different stretch of the queue than the scan that ended chording" % (a_, b_))
    return res


def rule_ch1_start(prog):
    """R-CH1-START: the list of coordinates that receive the chord's action starts with the coordinate of the key that
    opened the chord, i.e. WaitingState.coord as it was on entry - handle_chord overwrites that field with the
    released key's coordinate before the list is built."""
    from kq.core import proj_fields
    res = RuleResult("R-CH1-START", "the chord action is attached to the first pressed key's coordinate", floor=1)
    WSTATE = "kanata_keyberon::layout::WaitingState"
    f = prog.fn(WSTATE + "::handle_chord")
    res.fn(f)
    stores = set()
    for bi, si, st in f.all_rvalues():
        pf = proj_fields(st["p"])
        if pf and pf[-1][0] == WSTATE and pf[-1][2] == "coord":
            stores.add(bi)
    after_store = set()
    for sb in stores:
        after_store |= f.reach_from(sb)
    n = 0
    for bi, t in f.calls():
        if not (callee_name(t) or "").endswith("ArrayDeque::push_back"):
            continue
        if "PressedQueue" not in (f.place_ty(t["args"][0]) or "") and "(u8, u16)" not in (t.get("ga") or ""):
            continue
        # where is the pushed value read from?
        src_blocks = []
        seen, work = set(), [t["args"][1]]
        while work:
            o = work.pop()
            if not isinstance(o, dict) or "l" not in o:
                continue
            if any(x[0] == WSTATE and x[2] == "coord" for x in proj_fields(o)):
                src_blocks.append(None)
            if o["l"] in seen:
                continue
            seen.add(o["l"])
            for (bb, idx, kind, payload) in f.defs().get(o["l"], []):
                if kind == "assign":
                    from kq.core import rvalue_operands
                    for x in rvalue_operands(payload):
                        if isinstance(x, dict) and any(y[0] == WSTATE and y[2] == "coord" for y in proj_fields(x)):
                            src_blocks.append(bb)
                        work.append(x)
        reads = [b for b in src_blocks if b is not None]
        if not reads:
            continue
        n += 1
        ok = all(b not in after_store for b in reads)
        res.inst("first-coordinate#%d" % n, where="%s:%s" % (f.file, t.get("ln")), read_before_overwrite=ok, stores=len(stores))
        res.oblige(ok)
        if not ok:
            res.viol("first-coordinate#%d" % n, "%s:%s" % (f.file, t.get("ln")),
                     "the coordinate list is seeded from WaitingState.coord after handle_chord may have overwritten it with the "
                     "released key's coordinate: the first pressed key no longer holds the chord's action")
    if n == 0:
        res.inst("first-coordinate", where=f.loc, read_before_overwrite=False, stores=len(stores))
        res.oblige(False)
        res.viol("first-coordinate/missing", f.loc,
                 "handle_chord no longer puts WaitingState.coord (the key that opened the chord) into the list of coordinates that "
                 "receive the chord's action: when the chord is resolved by releasing another key, nothing is bound to the key that is "
                 "still held and the chord's output is released a few ms after it was pressed")
    return res


def run_all(prog):
    return [rule_rel(prog), rule_disabled(prog), rule_ch1(prog), rule_ch1_twin(prog), rule_ch1_start(prog)]


def rule_truncated(prog):
    """R-CHV2-TRUNCATED (C09): a candidate list whose overflow is ignored is never treated as the complete list without
    asking whether it is full.

    process_presses narrows the chords of the starting key down into `chord_candidates`, a heapless Vec of 16, and
    deliberately ignores a failing push ("If full, can't run the optimization above, but not fatal"). With more than 16
    overlapping chords the list is a truncated prefix of the real candidates. That is only "not fatal" because the
    exact-match lookup at timeout / release falls back to the full table when the list `is_full()`. Rule: in every
    function of keyberon's chord.rs (with its closures) that discards the result of a push into a bounded list, the
    function asks `is_full()` of a list of the same type and branches on the answer."""
    from rules.r_errdrop import used_locals
    res = RuleResult("R-CHV2-TRUNCATED", "a bounded list filled with overflow ignored is checked with is_full before it is relied on", floor=1)
    n = 0
    for f in prog.fns.values():
        if f.crate != "kanata_keyberon" or f.derive or f.parent or "chord" not in f.file or "::test" in f.norm:
            continue
        lossy, full = {}, set()
        for g in [f] + prog.closures_of(f):
            used = None
            for bi, t in g.calls():
                cn = callee_name(t) or ""
                short = cn.split("::")[-1]
                if "heapless" not in cn or not t["args"] or not is_place(t["args"][0]):
                    continue
                ty = re.sub(r"^(&mut |&)+", "", g.local_ty(t["args"][0]["l"]) or "")
                if short == "push":
                    used = used if used is not None else used_locals(g)
                    if t["dest"]["l"] not in used:
                        lossy.setdefault(ty, (g, t))
                elif short == "is_full":
                    # the answer decides a branch
                    nxt = t.get("t")
                    if nxt is not None and g.term(nxt)["k"] == "switch":
                        full.add(ty)
        for ty, (g, t) in sorted(lossy.items()):
            n += 1
            ok = ty in full
            key = "%s/%s" % (f.norm.split("::")[-1], ty.split("<")[1].split(",")[0].split("::")[-1].strip("&'_ <>T"))
            res.fn(f)
            res.inst(key, where="%s:%s" % (g.file, t.get("ln")), list_type=ty[:90], asks_is_full=ok, ok=ok)
            res.oblige(ok)
            if not ok:
                res.viol(key, "%s:%s" % (g.file, t.get("ln")),
                         "%s pushes into a bounded list (%s) and ignores a failing push, but never branches on is_full() of that "
                         "list: with more entries than fit, the list is a truncated prefix, and a search in it that finds nothing "
                         "concludes 'no chord matches' although the full table has one - a defined chord (a b) stops firing when more "
                         "than 16 longer chords contain its keys" % (f.norm.split("::")[-1], ty[:80]))
    return res
