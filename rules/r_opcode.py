"""R-OPCODE (C10): the switch opcode encoding — constants partition u16, encoder/decoder/evaluator/
parser agree on tags, bit-fields, arity and bounds."""
import re

from kq.core import (
    Resolver, callee_name, callee_written, const_def, const_val, is_const, is_place, norm_name, place_str, proj,
)
from kq.analysis import discr_switches
from kq.guardflow import GuardFlow, IS
from kq.report import RuleResult

SW = "kanata_keyberon::action::switch::"
OT = SW + "OpCodeType"
OPCODE = SW + "OpCode"

# constructor -> OpCodeType variant it must decode to (the public name states the meaning)
PAIR = {
    "new_key": "KeyCode",
    "new_key_history": "HistoricalKeyCode",
    "new_ticks_since_gt": "TicksSinceGreaterThan",
    "new_ticks_since_lt": "TicksSinceLessThan",
    "new_bool": "BooleanOp",
    "new_active_input": "Input",
    "new_historical_input": "HistoricalInput",
    "new_layer": "Layer",
    "new_base_layer": "BaseLayer",
}


def _bin_consts(fn, blocks=None):
    """[(op, const value, const def)] for binary ops with one constant operand, outside macro expansions"""
    out = []
    for bi, si, st in fn.all_rvalues():
        if blocks is not None and bi not in blocks:
            continue
        rv = st["rv"]
        if rv["k"] != "bin" or "mac" in st:
            continue
        for o in (rv["a"], rv["b"]):
            if is_const(o) and const_val(o) is not None:
                out.append((rv["op"].replace("WithOverflow", ""), const_val(o), const_def(o)))
    return out


def _assert_bounds(fn):
    """constants in comparisons that come from assert! expansions: [(op, value)]"""
    out = []
    # `assert!(x < C)`: the comparison decides a branch whose false side calls a panic function
    for bi in fn.reachable():
        t = fn.term(bi)
        if t["k"] != "switch" or not is_place(t["d"]) or proj(t["d"]):
            continue
        d = fn.single_def(t["d"]["l"])
        if not d or d[2] != "assign" or d[3]["k"] != "bin" or d[3]["op"] not in ("Lt", "Le") or not is_const(d[3]["b"]):
            continue
        zero = [tb for val, tb in t["ts"] if val == 0]
        if not zero:
            continue
        tt = fn.term(zero[0])
        if tt["k"] == "call" and "panic" in (callee_name(tt) or "") and const_val(d[3]["b"]) is not None:
            out.append((d[3]["op"], const_val(d[3]["b"])))
    if out:
        return out
    for bi, si, st in fn.all_rvalues():
        rv = st["rv"]
        if rv["k"] == "bin" and rv["op"] in ("Lt", "Le") and "assert" in st.get("mac", []):
            for o in (rv["b"],):
                if is_const(o) and const_val(o) is not None:
                    out.append((rv["op"], const_val(o)))
    return out


def rule_consts(prog):
    res = RuleResult("R-OPCODE-CONST", "opcode tag constants partition the u16 space", floor=10)
    c = lambda n: prog.const(SW + n)  # noqa: E731
    KEY_MAX = prog.const("kanata_keyberon::key_code::KEY_MAX")
    MAXLEN, OPM = c("MAX_OPCODE_LEN"), c("OP_MASK")
    two = {n: c(n) for n in ("INPUT_VAL", "HISTORICAL_INPUT_VAL", "LAYER_VAL", "BASE_LAYER_VAL")}
    boo = {n: c(n) for n in ("OR_VAL", "AND_VAL", "NOT_VAL")}
    tgt, tlt, hk = c("TICKS_SINCE_VAL_GT"), c("TICKS_SINCE_VAL_LT"), c("HISTORICAL_KEYCODE_VAL")
    kc_max = max(v["discr"] for v in prog.adt("kanata_keyberon::key_code::KeyCode")["variants"])
    where = "keyberon/src/action/switch.rs"

    def chk(key, ok, msg):
        res.inst(key, ok=ok)
        res.oblige(ok)
        if not ok:
            res.viol(key, where, msg)

    chk("keycodes-below-KEY_MAX", kc_max < KEY_MAX, "largest KeyCode %d is not < KEY_MAX %d: a key opcode would decode as a 2-word opcode" % (kc_max, KEY_MAX))
    chk("mask-split", (OPM & MAXLEN) == 0 and (OPM | MAXLEN) == 0xFFFF, "OP_MASK and MAX_OPCODE_LEN must split the 16 bits")
    for n, v in two.items():
        chk("two-word/" + n, KEY_MAX <= v <= MAXLEN, "%s=%d must lie in [KEY_MAX, MAX_OPCODE_LEN]" % (n, v))
    chk("two-word/distinct", len(set(two.values())) == len(two), "2-word tags must be pairwise distinct: %s" % two)
    for n, v in boo.items():
        chk("bool/" + n, v != 0 and (v & ~OPM) == 0 and v < min(tgt, tlt) and v > MAXLEN,
            "%s=%#x must be a non-zero value inside OP_MASK, above MAX_OPCODE_LEN and below the ticks tags" % (n, v))
    chk("bool/distinct", len(set(boo.values())) == 3, "OR/AND/NOT tags must be distinct")
    chk("ticks/tags", tgt != tlt and (tgt & 0xE000) == tgt and (tlt & 0xE000) == tlt and tgt < 0x8000 and tlt < 0x8000 and min(tgt, tlt) > max(boo.values()),
        "ticks tags must be distinct, live in the top 3 bits, below 0x8000 and above the boolean tags")
    for n, v in boo.items():
        chk("bool-vs-ticks/" + n, (v & 0xE000) not in (tgt, tlt), "%s collides with a ticks tag under the 0xE000 mask" % n)
    chk("hist-keycode/topbit", hk == 0x8000, "HISTORICAL_KEYCODE_VAL must be the top bit")
    rec = c("MAX_KEY_RECENCY")
    chk("recency/3bits", rec == 7, "MAX_KEY_RECENCY must fill exactly the 3 recency bits")
    return res


def _decoder_regions(prog, f):
    aggs = {}
    for bi, si, st in f.all_rvalues():
        rv = st["rv"]
        if rv["k"] == "agg" and rv.get("adt") == OT:
            aggs[rv["v"]] = bi
    canreach = {v: set() for v in aggs}
    for b in f.reachable():
        r = f.reach_from(b)
        for v, bv in aggs.items():
            if bv in r:
                canreach[v].add(b)
    excl = {}
    for v in aggs:
        others = set()
        for w in aggs:
            if w != v:
                others |= canreach[w]
        excl[v] = canreach[v] - others
    return aggs, excl


def rule_codec(prog):
    res = RuleResult("R-OPCODE-CODEC", "each constructor's tag/bit-fields are decoded back by opcode_type into the matching OpCodeType", floor=9)
    dec = prog.fn(SW + "OpCode::opcode_type")
    res.fn(dec)
    aggs, excl = _decoder_regions(prog, dec)
    gf = GuardFlow(dec)
    variants = [v["name"] for v in prog.adt(OT)["variants"]]
    self0 = {"l": 1, "pr": [{"f": "0", "i": 0, "adt": OPCODE, "v": None, "ty": "u16"}]}
    # the masked dispatch local: switch discriminant defined as BitAnd(self.0, MASK)
    masked = None
    for bi in sorted(dec.reachable()):
        t = dec.term(bi)
        if t["k"] == "switch" and is_place(t["d"]) and not proj(t["d"]) and t.get("dty") == "u16":
            d = dec.single_def(t["d"]["l"])
            if d and d[2] == "assign" and d[3]["k"] == "bin" and d[3]["op"] == "BitAnd":
                m = const_val(d[3]["b"]) if is_const(d[3]["b"]) else const_val(d[3]["a"])
                if m is not None:
                    masked = (t["d"]["l"], m)
    if masked is None:
        res.viol("decoder/shape", dec.loc, "opcode_type no longer dispatches on a masked tag")
        return res
    KEY_MAX = prog.const("kanata_keyberon::key_code::KEY_MAX")
    MAXLEN = prog.const(SW + "MAX_OPCODE_LEN")

    def decode_variant(first_word_values):
        """variant(s) whose aggregate block admits these first-word values"""
        hits = set()
        for v, b in aggs.items():
            s0 = gf.value_at_term(b, self0)
            sm = gf.value_at_term(b, {"l": masked[0]})
            ok_all = True
            for w in first_word_values:
                ok = s0 is not None and s0.contains(w)
                if ok and w > MAXLEN and sm is not None and not sm.is_top():
                    ok = sm.contains(w & masked[1])
                if not ok:
                    ok_all = False
            if ok_all:
                hits.add(v)
        return hits

    kc_max = max(v["discr"] for v in prog.adt("kanata_keyberon::key_code::KeyCode")["variants"])
    boolvals = [prog.const(SW + n) for n in ("OR_VAL", "AND_VAL", "NOT_VAL")]
    used_variants = {}
    ctors = [f for f in prog.fns.values() if f.norm.startswith(SW + "OpCode::new_") and f.kind == "assoc"]
    for f in sorted(ctors, key=lambda x: x.norm):
        res.fn(f)
        name = f.norm.split("::")[-1]
        tags = [(v, d) for (op, v, d) in _bin_consts(f) if d and "_VAL" in d.split("::")[-1]]
        # tag constants may also be passed straight into the OpCode aggregate
        for bi, si, st in f.all_rvalues():
            rv = st["rv"]
            if rv["k"] == "agg" and rv.get("adt") == OPCODE:
                for o in rv["ops"]:
                    if is_const(o) and const_def(o) and "_VAL" in const_def(o).split("::")[-1]:
                        tags.append((const_val(o), const_def(o)))
        tags = sorted(set(tags))
        two_word = "(" in (f.ret or "") and f.ret.count("OpCode") == 2
        if name == "new_key":
            words = [0, kc_max]
        elif name == "new_bool":
            calls_to_u16 = [t for _, t in f.calls() if (callee_name(t) or "").endswith("BooleanOperator::to_u16")]
            if not calls_to_u16:
                res.viol("ctor/new_bool/tag", f.loc, "new_bool no longer takes its tag from BooleanOperator::to_u16")
            words = boolvals
        elif len(tags) == 1:
            words = [tags[0][0]]
        else:
            res.inst("ctor/" + name, tags=tags)
            res.viol("ctor/%s/tag" % name, f.loc, "constructor %s must use exactly one tag constant, found %s" % (name, tags))
            continue
        got = decode_variant(words)
        exp = PAIR.get(name)
        shl = sorted(v for (op, v, d) in _bin_consts(f) if op == "Shl")
        region = excl.get(exp, set()) if exp else set()
        shr = sorted(v for (op, v, d) in _bin_consts(dec, region) if op == "Shr")
        res.inst("ctor/" + name, tags=[t[1].split("::")[-1] for t in tags], decodes_to=sorted(got), expected=exp,
                 two_word=two_word, shl=shl, shr=shr)
        ok = exp is not None and got == {exp}
        res.oblige(ok)
        if exp is None:
            res.viol("ctor/%s/unknown" % name, f.loc, "constructor %s is not in the constructor->OpCodeType table of the checker; decoded as %s" % (name, sorted(got)))
            continue
        if not ok:
            res.viol("ctor/%s/decode" % name, f.loc,
                     "an opcode built by %s (first word %s) is decoded by opcode_type as %s, expected %s"
                     % (name, [hex(w) for w in words], sorted(got) or "nothing", exp))
        used_variants.setdefault(exp, []).append(name)
        # bit-field agreement: shift amounts
        ok = shl == shr
        res.oblige(ok)
        if not ok:
            res.viol("ctor/%s/shifts" % name, f.loc,
                     "%s packs fields with << %s but opcode_type's %s arm unpacks with >> %s" % (name, shl, exp, shr))
        # masks in the decoder arm: every mask must be contiguous ones (possibly pre-shift)
        masks = [v for (op, v, d) in _bin_consts(dec, region) if op == "BitAnd"]
        bounds = _assert_bounds(f)
        for m in masks:
            low = m & -m
            contiguous = ((m // low) + 1) & (m // low) == 0 if m else False
            res.oblige(contiguous)
            if not contiguous:
                res.viol("ctor/%s/mask/%#x" % (name, m), dec.loc, "decoder mask %#x in the %s arm is not a contiguous bit-field" % (m, exp))
        # every power-of-two bound the constructor asserts for a field (`assert!(x < 0x400)`) is the width of a field: the
        # decoder arm must have a mask of exactly that width (plain, or in front of / behind one of its shifts). A narrower
        # mask silently truncates values the constructor accepts (coordinates >= 512 with `& 0x1FF`).
        for bop, bval in bounds:
            lim_ = bval if bop == "Lt" else bval + 1
            if lim_ <= 1 or lim_ & (lim_ - 1) or not masks:
                continue          # not a bit-field width / the arm delegates the decoding (BooleanOp -> From<u16>, checked below)
            want = lim_ - 1
            has = any(m == want or any((m >> s_) == want and ((m >> s_) << s_) == m for s_ in shr) for m in masks)
            res.oblige(has)
            if not has:
                res.viol("ctor/%s/width/%#x" % (name, lim_), dec.loc,
                         "%s accepts a field value below %#x, but no mask of the %s arm of opcode_type has that width (masks %s, shifts %s): "
                         "values the constructor lets through are truncated when the opcode is decoded"
                         % (name, lim_, exp, [hex(m) for m in masks], shr))
        # each shifted field of width w (from the decoder mask) must hold the encoder's asserted bound
        for s_ in shr:
            cand = [m for m in masks if (m == ((m >> s_) << s_) and m >> s_ > 0 and m >= (1 << s_)) or m < (1 << (16 - s_))]
            widths = []
            for m in masks:
                if m >= (1 << s_) and (m >> s_) << s_ == m:
                    widths.append((m >> s_).bit_length())
                elif m < (1 << (16 - s_)):
                    widths.append(m.bit_length())
            # the field must not reach into a higher field or out of the word
            higher = [x for x in shr if x > s_]
            lim = (min(higher) if higher else 16) - s_
            w_ok = [w for w in widths if 0 < w <= lim]
            res.oblige(bool(w_ok))
            if not w_ok:
                res.viol("ctor/%s/field@%d" % (name, s_), dec.loc,
                         "no decoder mask gives the field at bit %d of %s a width within its %d available bits (masks %s)"
                         % (s_, exp, lim, [hex(m) for m in masks]))
    for v in variants:
        n = used_variants.get(v, [])
        res.inst("variant/" + v, constructors=n)
        if len(n) != 1:
            res.viol("variant/%s/ctors" % v, dec.loc, "OpCodeType::%s must be produced by exactly one constructor, found %s" % (v, n))
    # BooleanOperator::to_u16 and From<u16> for OperatorAndEndIndex are inverse on the three tags
    to = prog.fn(SW + "BooleanOperator::to_u16")
    fr = prog.fn("<kanata_keyberon::action::switch::OperatorAndEndIndex as core::convert::From<u16>>::from")
    res.fn(to)
    res.fn(fr)
    enc = {}
    for sw in discr_switches(prog, to, SW + "BooleanOperator"):
        for v in sw.all_variants:
            tb = sw.target(v)
            for b in to.reach_from(tb, avoid=[sw.bb]):
                for st in to.stmts(b):
                    if st["k"] == "assign" and st["p"]["l"] == 0 and st["rv"]["k"] == "use" and is_const(st["rv"]["a"]):
                        enc.setdefault(v, set()).add(const_val(st["rv"]["a"]))
    decd = {}
    t0 = None
    for bi in sorted(fr.reachable()):
        t = fr.term(bi)
        if t["k"] == "switch" and t.get("dty") == "u16":
            t0 = t
            for val, tb in t["ts"]:
                for b in fr.reach_from(tb, avoid=[bi]):
                    for st in fr.stmts(b):
                        if st["k"] == "assign" and st["rv"]["k"] == "agg" and st["rv"].get("adt") == SW + "BooleanOperator":
                            decd.setdefault(st["rv"]["v"], set()).add(val)
                        # only the first aggregate on the arm counts: stop at join
                    if len(fr.preds(b)) > 1 and b != tb:
                        break
    for v in ("Or", "And", "Not"):
        e, d = enc.get(v, set()), decd.get(v, set())
        res.inst("boolop/" + v, enc=sorted(e), dec=sorted(d))
        ok = len(e) == 1 and e <= d
        res.oblige(ok)
        if not ok:
            res.viol("boolop/" + v, fr.loc, "BooleanOperator::%s encodes to %s but the decoder maps %s back to it" % (v, sorted(e), sorted(d)))
    return res


def rule_arity(prog):
    res = RuleResult("R-OPCODE-ARITY", "2-word opcodes are emitted, decoded and skipped as two words everywhere", floor=4)
    ctors2 = set()
    for f in prog.fns.values():
        if f.norm.startswith(SW + "OpCode::new_") and f.kind == "assoc":
            if f.ret and f.ret.count("OpCode") == 2 and f.ret.strip().startswith("("):
                ctors2.add(f.norm.split("::")[-1])
    c2 = {PAIR[c] for c in ctors2 if c in PAIR}
    # decoder: variants built after reading `next`
    dec = prog.fn(SW + "OpCode::opcode_type")
    aggs, excl = _decoder_regions(prog, dec)
    exp_blocks = [bi for bi, t in dec.calls() if (callee_name(t) or "").endswith("Option::<T>::expect") or (callee_name(t) or "").endswith("Option::expect")
                  or (callee_name(t) or "").endswith("::unwrap")]
    d2 = set()
    for v, b in aggs.items():
        if any(dec.dominates(e, b) for e in exp_blocks):
            d2.add(v)
    # evaluator: arms that advance the index inside the arm
    ev = prog.fn(SW + "evaluate_boolean")
    res.fn(ev)
    res.fn(dec)
    idx_local = None
    for bi in sorted(ev.reachable()):
        t = ev.term(bi)
        if t["k"] == "assert" and t["msg"].get("kind") == "BoundsCheck":
            r = Resolver(ev).root(t["msg"]["index"])
            if r[0] in ("multi", "param"):
                idx_local = r[1]
                break
    e2 = set()
    sws = discr_switches(prog, ev, OT)
    if idx_local is None or not sws:
        res.viol("evaluator/shape", ev.loc, "evaluate_boolean lost its opcode index variable or its match on OpCodeType")
        return res
    sw = sws[0]
    for v in sw.all_variants:
        region = sw.arm_region(v)
        for b in region:
            for st in ev.stmts(b):
                if st["k"] == "assign" and st["rv"]["k"] == "bin" and st["rv"]["op"].startswith("Add") and "mac" not in st:
                    a, bb = st["rv"]["a"], st["rv"]["b"]
                    if is_place(a) and not proj(a) and a["l"] == idx_local and is_const(bb) and const_val(bb) == 1:
                        e2.add(v)
    # BooleanOp advances by one too (it is a 1-word opcode that `continue`s): exclude it by requiring
    # that the arm falls through to the common increment: arms that `continue` are 1-word.
    e2_fall = set()
    for v in e2:
        region = sw.arm_region(v)
        # does the arm leave its region to a block that is not the loop header directly?
        # a `continue` arm jumps (via gotos) back to the header without passing the common `+= 1`
        common = [b for b in ev.reachable() if b not in set().union(*[sw.arm_region(w) for w in sw.all_variants])]
        passes_common_inc = False
        outs = {s_ for b in region for s_ in ev.succs(b) if s_ not in region}
        for o in outs:
            # walk forward until the loop header (dominates sw.bb) looking for another idx += 1
            seen, st_ = set(), [o]
            while st_:
                x = st_.pop()
                if x in seen or ev.dominates(x, sw.bb) and x != o and x in ev.loops_headers():
                    continue
                seen.add(x)
                for s2 in ev.stmts(x):
                    if s2["k"] == "assign" and s2["rv"]["k"] == "bin" and s2["rv"]["op"].startswith("Add"):
                        a, bb = s2["rv"]["a"], s2["rv"]["b"]
                        if is_place(a) and not proj(a) and a["l"] == idx_local and is_const(bb) and const_val(bb) == 1:
                            passes_common_inc = True
                st_.extend(ev.succs(x))
        if passes_common_inc:
            e2_fall.add(v)
    e2 = e2_fall
    if True:
        # table form (takes precedence when it is there): `current_index += opcode_type.width()` - a method (analysed inlined) that matches on the variant and
        # yields the number of words (or of extra words). The variants with the larger constant are the two-word ones.
        widths = {}
        for b in sorted(ev.reachable()):
            for st in ev.stmts(b):
                if not (st["k"] == "assign" and st["rv"]["k"] == "bin" and st["rv"]["op"].startswith("Add") and "mac" not in st):
                    continue
                a, bb = st["rv"]["a"], st["rv"]["b"]
                if not (is_place(a) and not proj(a) and a["l"] == idx_local and is_place(bb) and not proj(bb)):
                    continue
                # constants that reach the added local, per definition block
                src, seen = [bb["l"]], set()
                const_defs = []
                while src:
                    l = src.pop()
                    if l in seen:
                        continue
                    seen.add(l)
                    for (db, di, kind, payload) in ev.defs().get(l, []):
                        if kind == "assign" and payload["k"] == "use":
                            if is_const(payload["a"]) and const_val(payload["a"]) is not None:
                                const_defs.append((db, const_val(payload["a"])))
                            elif is_place(payload["a"]) and not proj(payload["a"]):
                                src.append(payload["a"]["l"])
                for sw2 in sws:
                    for v in sw2.all_variants:
                        reg = set(sw2.arm_region(v))
                        if sw2.target(v) is not None:
                            reg.add(sw2.target(v))
                        for db, c in const_defs:
                            if db in reg:
                                widths.setdefault(v, set()).add(c)
        vals = sorted({c for cs in widths.values() for c in cs})
        if len(vals) == 2 and vals[1] == vals[0] + 1 and all(len(cs) == 1 for cs in widths.values()):
            e2 = {v for v, cs in widths.items() if cs == {vals[1]}}
    # parser: each call of a 2-word constructor uses both halves
    ps = prog.fn("kanata_parser::cfg::switch::parse_switch_case_bool")
    res.fn(ps)
    p2 = set()
    p_bad = []
    for bi, t in ps.calls():
        cn = (callee_name(t) or "")
        if cn.startswith(SW + "OpCode::new_"):
            nm = cn.split("::")[-1]
            dl = t["dest"]["l"]
            used = set()
            for b2, s2, st in ps.all_rvalues():
                for o in ([st["rv"].get("a"), st["rv"].get("b")] + st["rv"].get("ops", [])):
                    if is_place(o) and o["l"] == dl:
                        for e in proj(o):
                            if isinstance(e, dict) and "f" in e:
                                used.add(e["f"])
            if nm in ctors2:
                if {"0", "1"} <= used:
                    p2.add(PAIR.get(nm, nm))
                else:
                    p_bad.append((nm, t.get("ln"), sorted(used)))
    for v in sorted(c2 | d2 | e2 | p2):
        res.inst("two-word/" + v, ctor=v in c2, decoder=v in d2, evaluator=v in e2, parser=v in p2)
        ok = v in c2 and v in d2 and v in e2 and v in p2
        res.oblige(ok)
        if not ok:
            res.viol("two-word/" + v, ev.loc,
                     "OpCodeType::%s: constructor returns 2 words=%s, decoder reads the 2nd word=%s, evaluator skips it=%s, parser pushes both=%s — must all agree"
                     % (v, v in c2, v in d2, v in e2, v in p2))
    for nm, ln, used in p_bad:
        res.viol("parser/%s/halves" % nm, "%s:%s" % (ps.file, ln), "parser calls %s but uses only tuple fields %s" % (nm, used))
    return res


def rule_bounds(prog):
    res = RuleResult("R-OPCODE-BOUNDS", "parser limits (depth, recency, length) are the evaluator's limits", floor=5)
    ps = prog.fn("kanata_parser::cfg::switch::parse_switch_case_bool")
    ev = prog.fn(SW + "evaluate_boolean")
    depth = prog.const(SW + "MAX_BOOL_EXPR_DEPTH")
    rec = prog.const(SW + "MAX_KEY_RECENCY")
    maxlen = prog.const(SW + "MAX_OPCODE_LEN")
    res.fn(ps)
    # evaluator stack capacity in the type of a local
    caps = set()
    for l in ev.locals:
        m = re.search(r"arraydeque::ArrayDeque<kanata_keyberon::action::switch::OperatorAndEndIndex, (\d+)[,>]", l["ty"])
        if m:
            caps.add(int(m.group(1)))
    res.inst("depth/evaluator-stack", capacity=sorted(caps), const=depth)
    if caps != {depth}:
        res.viol("depth/evaluator-stack", ev.loc, "evaluator stack capacity %s differs from MAX_BOOL_EXPR_DEPTH %d" % (sorted(caps), depth))
    # parser: a comparison `depth > MAX_BOOL_EXPR_DEPTH` with the true edge to an Err return
    cmp_ok = False
    for bi, si, st in ps.all_rvalues():
        rv = st["rv"]
        if rv["k"] == "bin" and rv["op"] in ("Gt", "Ge", "Lt", "Le"):
            for side, o in (("a", rv["a"]), ("b", rv["b"])):
                if is_const(o) and (const_def(o) or "").endswith("MAX_BOOL_EXPR_DEPTH"):
                    # depth > MAX  (a=depth) or MAX < depth
                    if (rv["op"] == "Gt" and side == "b") or (rv["op"] == "Lt" and side == "a"):
                        cmp_ok = True
                    res.inst("depth/parser-compare", op=rv["op"], const_side=side, where="%s:%s" % (ps.file, st.get("ln")))
    if not cmp_ok:
        res.viol("depth/parser-compare", ps.loc, "parse_switch_case_bool no longer bails when depth > MAX_BOOL_EXPR_DEPTH (same const item as the evaluator's stack)")
    # initial depth at the external call site(s) >= 1 and recursive call passes depth + 1
    for f, bi, t in prog.call_sites(ps.norm):
        a0 = t["args"][0]
        if f.norm == ps.norm:
            r = Resolver(f).root(a0)
            ok = False
            if r[0] == "bin":
                rv = r[1][2]
                ok = rv["op"].startswith("Add") and is_const(rv["b"]) and const_val(rv["b"]) == 1
            elif is_place(a0):
                # `_x = (_t.0)` of checked add
                d = f.single_def(a0["l"])
                if d and d[2] == "assign" and d[3]["k"] == "use" and is_place(d[3]["a"]):
                    src = d[3]["a"]
                    d2 = f.single_def(src["l"])
                    if d2 and d2[2] == "assign" and d2[3]["k"] == "bin" and d2[3]["op"].startswith("Add") and const_val(d2[3]["b"]) == 1:
                        ok = True
            res.inst("depth/recursive-call", ok=ok, where="%s:%s" % (f.file, t.get("ln")))
            if not ok:
                res.viol("depth/recursive-call", "%s:%s" % (f.file, t.get("ln")), "recursive parse_switch_case_bool call does not pass depth + 1")
        else:
            v = const_val(a0) if is_const(a0) else None
            res.inst("depth/initial/%s" % f.norm, value=v)
            if v is None or v < 1:
                res.viol("depth/initial/%s" % f.norm, "%s:%s" % (f.file, t.get("ln")),
                         "top-level call passes depth %s; with depth starting below 1 an expression nested deeper than the evaluator's stack is accepted" % v)
    # recency: parse_u8_with_range(.., 1, MAX_KEY_RECENCY+1) - 1
    n = 0
    for bi, t in ps.calls():
        if (callee_name(t) or "").endswith("cfg::parse_u8_with_range"):
            lo, hi = const_val(t["args"][3]), const_val(t["args"][4])
            n += 1
            ok = lo is not None and hi is not None and lo >= 1 and hi - 1 <= rec
            res.inst("recency/%d" % n, lo=lo, hi=hi, where="%s:%s" % (ps.file, t.get("ln")))
            res.oblige(ok)
            if not ok:
                res.viol("recency/%d" % n, "%s:%s" % (ps.file, t.get("ln")),
                         "key-recency parsed in range %s..=%s then decremented: must be within 1..=%d" % (lo, hi, rec + 1))
    if n < 3:
        res.viol("recency/census", ps.loc, "expected 3 key-recency parse sites, found %d" % n)
    hist = None
    for k, v in prog.consts.items():
        if k.startswith("kanata_keyberon::layout::") and k.endswith("HISTORICAL_EVENT_LEN"):
            hist = v.get("v")
    res.inst("recency/history-len", history_len=hist, max_recency=rec)
    if hist is not None and hist != rec + 1:
        res.viol("recency/history-len", "keyberon/src/layout.rs", "history keeps %s events but recency allows 0..=%d" % (hist, rec))
    # end-index patch: second new_bool call (argument derived from Vec::len) comes after the child loop
    nb = [(bi, t) for bi, t in ps.calls() if (callee_name(t) or "").endswith("OpCode::new_bool")]
    rec_calls = [bi for bi, t in ps.calls() if callee_name(t) == ps.norm]
    res.inst("end-index/new_bool-calls", n=len(nb))
    patched = False
    for bi, t in nb:
        after_loop = any(bi in ps.reach_from(rb) for rb in rec_calls) and not any(rb in ps.reach_from(bi) for rb in rec_calls)
        if not after_loop:
            continue
        # its result must be stored through IndexMut
        r = ps.reach_from(bi)
        im = [b for b, tt in ps.calls() if b in r and "IndexMut" in (callee_written(tt) or "")]
        # and its end argument derives from a len() call
        a1 = t["args"][1]
        rr = Resolver(ps).root(a1)
        from_len = rr[0] == "call" and "len" in (callee_name(rr[1][1]) or "")
        if im and from_len:
            patched = True
    res.oblige(patched)
    if not patched:
        res.viol("end-index/patch", ps.loc, "the boolean operator's end index is no longer patched (ops[placeholder] = new_bool(op, ops.len())) after all children were compiled")
    # length bail: a comparison against MAX_OPCODE_LEN exists in the parser
    has_len = False
    rsv = Resolver(ps)
    for bi, si, st in ps.all_rvalues():
        rv = st["rv"]
        if rv["k"] == "bin" and rv["op"] in ("Gt", "Lt", "Ge", "Le") and "mac" not in st:
            for o in (rv["a"], rv["b"]):
                r = rsv.root(o)
                if r[0] == "const" and (const_def(r[1]) or "").endswith("MAX_OPCODE_LEN"):
                    has_len = True
    res.inst("length/bail", present=has_len, maxlen=maxlen)
    if not has_len:
        res.viol("length/bail", ps.loc, "parser no longer bounds the opcode count by MAX_OPCODE_LEN")
    return res


def run_all(prog):
    return [rule_consts(prog), rule_codec(prog), rule_arity(prog), rule_bounds(prog)]
