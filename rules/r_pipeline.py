"""C16 rules (narrow).
R-PIPELINE  pre-processing stages run in the order include -> platform -> env -> template, each on the
            previous stage's output; variables are parsed before any parser that resolves variables;
            aliases before layers.
"""
from kq.analysis import blocks_calling
from kq.core import Resolver, callee_name, norm_name
from kq.report import RuleResult
from rules.r_cancel import closure_arg

CFG = "kanata_parser::cfg::"
STAGES = ["expand_includes", "filter_platform_specific_cfg", "filter_env_specific_cfg", "expand_templates"]


def run(prog):
    res = RuleResult("R-PIPELINE", "configuration pre-processing runs in a fixed order on the whole input", floor=6)
    f = prog.fn(CFG + "parse_cfg_raw_string")
    res.fn(f)
    r = Resolver(f)
    parse = blocks_calling(f, f.reachable(), [CFG + "sexpr::parse"])
    chain = []
    for bi, t in f.calls():
        if callee_name(t) == "core::result::Result::and_then" and len(t["args"]) > 1:
            c = closure_arg(prog, f, t["args"][1])
            if c is None:
                continue
            inner = [callee_name(tt) for _, tt in c.calls() if (callee_name(tt) or "").startswith(CFG)]
            stage = [s_ for s_ in STAGES if any(x.split("::")[-1] == s_ for x in inner)]
            if stage:
                src = r.root(t["args"][0])
                chain.append((bi, stage[0], src, t))
    if not chain:
        # the same pipeline written as a sequence of `let xs = stage(xs, ..)?;` statements
        stage_of = {}
        for bi, t in f.calls():
            short = (callee_name(t) or "").split("::")[-1]
            if (callee_name(t) or "").startswith(CFG) and short in STAGES:
                stage_of[bi] = short
        producers = set(stage_of) | {b for b, _ in parse}

        def source_block(op):
            from kq.core import is_place, rvalue_operands
            seen, work = set(), [op]
            while work:
                o = work.pop()
                if not is_place(o) or o["l"] in seen:
                    continue
                seen.add(o["l"])
                for (db, di, kind, payload) in f.defs().get(o["l"], []):
                    if kind == "assign":
                        work.extend(rvalue_operands(payload))
                    elif kind == "call":
                        if db in producers:
                            return db
                        if (callee_name(payload) or "").split("::")[-1] in ("branch", "from_residual", "into", "from", "map_err", "unwrap"):
                            work.extend(payload["args"])
            return None
        for bi, t in f.calls():
            if bi in stage_of and t["args"]:
                sb = source_block(t["args"][0])
                chain.append((bi, stage_of[bi], ("call", (sb, None), []) if sb is not None else ("unknown", None, []), t))
    names = [c[1] for c in chain]
    res.inst("stages", order=names)
    if set(names) != set(STAGES) or names.count("expand_includes") != 1 or names.count("expand_templates") != 1:
        res.viol("stages/census", f.loc, "expected the pre-processing stages %s, each run on the result of the one before (includes and templates once), found %s" % (STAGES, names))
        return res
    # order by data flow: each stage's receiver is the previous stage's result
    prev_block = parse[0][0] if parse else None
    order = []
    remaining = list(chain)
    ok_chain = prev_block is not None
    while remaining and ok_chain:
        nxt = [c for c in remaining if c[2][0] == "call" and c[2][1][0] == prev_block]
        if len(nxt) != 1:
            ok_chain = False
            break
        order.append(nxt[0][1])
        prev_block = nxt[0][0]
        remaining.remove(nxt[0])
    res.inst("data-flow-order", order=order)
    # includes first (everything else must see the included items); the platform and environment filters run at least once
    # after the includes and at least once after template expansion (a template can produce platform / environment items)
    def after(stage, what):
        return stage in order and what in order[order.index(stage) + 1:]
    def before(stage, what):
        return stage in order and what in order[:order.index(stage)]
    ok = (ok_chain and len(order) == len(chain) and order[:1] == ["expand_includes"]
          and after("expand_templates", "filter_platform_specific_cfg") and after("expand_templates", "filter_env_specific_cfg"))
    res.oblige(ok)
    if not ok:
        res.viol("stage-order", f.loc,
                 "pre-processing order is %s: includes must come first, and the platform / environment filters must run (again) after "
                 "template expansion - otherwise (platform ...) items of included files or produced by templates are left unprocessed"
                 % (order or names))
    # ... and once before it: expand_templates collects `deftemplate` among the top-level items only, so a template defined
    # inside (platform (linux) (deftemplate ..)) / (environment ..) has to be unwrapped before the templates are collected
    ok_b = ok_chain and before("expand_templates", "filter_platform_specific_cfg") and before("expand_templates", "filter_env_specific_cfg")
    res.inst("filters-before-templates", ok=ok_b)
    res.oblige(ok_b)
    if not ok_b:
        res.viol("stage-order/filters-before-templates", f.loc,
                 "pre-processing order is %s: the platform / environment filters no longer run before template expansion. "
                 "expand_templates only looks for `deftemplate` among the top-level items: a deftemplate wrapped in (platform (...) ..) "
                 "or (environment ..) is still wrapped when it runs, is never registered, and every use of it is an unknown-template error"
                 % (order or names))
    last_stage_block = prev_block if ok_chain else None
    # variables before any parser that resolves variables
    pv = blocks_calling(f, f.reachable(), [CFG + "parse_vars"])
    res.inst("parse_vars", n=len(pv))
    vars_fn = CFG + "ParserState::vars"
    if len(pv) != 1:
        res.viol("parse_vars/census", f.loc, "expected exactly one parse_vars call")
    else:
        vb = pv[0][0]
        for bi, t in f.calls():
            cn = callee_name(t) or ""
            if not cn.startswith(CFG) or cn == CFG + "parse_vars":
                continue
            if vars_fn in prog.reachable_from([cn]):
                ok = f.dominates(vb, bi)
                res.inst("after-vars/%s" % cn.split("::")[-1], ok=ok)
                res.oblige(ok)
                if not ok:
                    res.viol("after-vars/%s" % cn.split("::")[-1], "%s:%s" % (f.file, t.get("ln")),
                             "%s resolves $variables but can run before parse_vars has filled the variable table" % cn.split("::")[-1])
        if last_stage_block is not None and not f.dominates(last_stage_block, vb):
            res.viol("vars-after-preprocessing", f.loc, "parse_vars runs before the pre-processing pipeline finished")
    pa = blocks_calling(f, f.reachable(), [CFG + "parse_aliases"])
    pl = blocks_calling(f, f.reachable(), [CFG + "parse_layers"])
    ok = bool(pa) and bool(pl) and all(any(f.dominates(a, l_) for a, _ in pa) for l_, _ in pl)
    res.inst("aliases-before-layers", ok=ok)
    res.oblige(ok)
    if not ok:
        res.viol("aliases-before-layers", f.loc, "parse_layers can run before parse_aliases: @alias references in layers would be unknown")
    return res


def run_template(prog):
    """R-TPL-ONEPASS (C16): template parameters are substituted in one simultaneous pass over the body."""
    from kq.analysis import backward_slice
    res = RuleResult("R-TPL-ONEPASS", "template expansion substitutes all parameters in a single pass", floor=1)
    f = prog.fn(CFG + "deftemplate::expand")
    res.fn(f)
    T = CFG + "deftemplate::Template"
    visits = blocks_calling(f, f.reachable(), [CFG + "deftemplate::visit_mut_all_atoms"])
    res.inst("visit_mut_all_atoms-calls", n=len(visits))
    if not visits:
        res.viol("anchors", f.loc, "expand no longer walks the template body with visit_mut_all_atoms")
        return res
    nexts = [(b, t) for b, t in f.calls() if (callee_name(t) or "").endswith("::next")]
    for n, (vb, vt) in enumerate(visits):
        bad = None
        for (nb, nt) in nexts:
            # vb inside the loop headed by nb: nb dominates vb and vb can reach nb again
            if f.dominates(nb, vb) and nb in f.reach_from(vb):
                flds, _, _ = backward_slice(f, nt["args"][0])
                if (T, "vars_substitute_names") in flds or (T, "vars") in flds:
                    bad = nt.get("ln")
        res.inst("visit#%d" % n, line=vt.get("ln"), inside_parameter_loop=bool(bad))
        res.oblige(not bad)
        if bad:
            res.viol("visit#%d/per-parameter" % n, "%s:%s" % (f.file, vt.get("ln")),
                     "the template body is re-scanned once per template parameter: text substituted for an earlier parameter is "
                     "scanned again for later parameter names (variable capture), so indirection through a template changes meaning")
    return res


def run_vars(prog):
    """R-VARS-TRANSITIVE: `$name` is resolved lazily and transitively at its use: the value found in the defvar table
    is itself resolved again (a variable may name another variable, in any order of definition)."""
    from kq.analysis import backward_slice
    from kq.core import callee_name
    res = RuleResult("R-VARS-TRANSITIVE", "a variable that names another variable resolves to that variable's value", floor=3)
    verdict, delegated = {}, {}
    for nm in ("atom", "list", "span_list"):
        f = prog.fn("kanata_parser::cfg::sexpr::SExpr::" + nm)
        res.fn(f)
        ok = False
        for bi, t in f.calls():
            if callee_name(t) == f.norm and t["args"]:
                _, cals, _ = backward_slice(f, t["args"][0])
                from kq.core import Resolver
                r = Resolver(f).root(t["args"][1]) if len(t["args"]) > 1 else ("?",)
                with_table = r[0] == "agg" and r[1][2].get("v") == "Some" or r[0] == "param"
                if any(c.endswith("HashMap::get") for c in cals) and with_table:
                    ok = True
        verdict[nm] = ok
        if not ok:
            # `list(vars)` written as `self.span_list(vars).map(|l| l.t.as_slice())`: it resolves whatever the sibling resolves
            for bi, t in f.calls():
                cn = callee_name(t) or ""
                sib = cn.split("::")[-1]
                if cn.startswith("kanata_parser::cfg::sexpr::SExpr::") and sib in ("atom", "list", "span_list") and cn != f.norm and len(t["args"]) >= 2:
                    from kq.core import Resolver
                    r0, r1 = Resolver(f).root(t["args"][0]), Resolver(f).root(t["args"][1])
                    if r0[0] == "param" and r1[0] == "param":
                        delegated[nm] = sib
    for nm in ("atom", "list", "span_list"):
        f = prog.fn("kanata_parser::cfg::sexpr::SExpr::" + nm)
        ok = verdict[nm] or (nm in delegated and verdict.get(delegated[nm], False))
        res.inst("resolve/" + nm, looked_up_value_is_resolved_again=ok, **({"delegates_to": delegated[nm]} if nm in delegated and not verdict[nm] else {}))
        res.oblige(ok)
        if not ok:
            res.viol("resolve/" + nm, f.loc,
                     "SExpr::%s no longer resolves the value it found in the defvar table again: `(defvar a $b b 5)` stops working "
                     "when the alias is defined before its target" % nm)
    return res


def run_layer_lists(prog):
    """R-LAYER-ORDER: parse_cfg_raw_string builds the list of layer expressions twice (with spans, for names / indexes /
    count checks, and without, for the layer bodies). Index i of one must be index i of the other: both are produced
    by filtering the top-level expressions in file order: the same order-affecting adaptors (chain, rev, skip, sort, ..),
    normally none, appear in both pipelines."""
    from kq.analysis import backward_slice
    from kq.core import callee_name
    res = RuleResult("R-LAYER-ORDER", "layer names and layer bodies are listed in the same order", floor=2)
    f = prog.fn("kanata_parser::cfg::parse_cfg_raw_string")
    res.fn(f)
    pipes = {}
    for bi, t in f.calls():
        cn = callee_name(t) or ""
        if not cn.endswith("Iterator::collect"):
            continue
        ty = f.local_ty(t["dest"]["l"]) or ""
        for tag, needle in (("spanned", "Vec<kanata_parser::cfg::SpannedLayerExprs>"), ("plain", "Vec<kanata_parser::cfg::LayerExprs>")):
            if needle in ty:
                _, cals, _ = backward_slice(f, t["args"][0])
                order_affecting = ("chain", "rev", "skip", "skip_while", "take", "take_while", "step_by", "zip", "flat_map", "flatten",
                                   "cycle", "sort", "sort_by", "sort_by_key", "sort_unstable", "dedup", "partition", "extend", "append",
                                   "insert", "swap", "reverse", "rotate_left", "rotate_right")
                ad = sorted(c.split("::")[-1] for c in cals if c.split("::")[-1] in order_affecting)
                pipes[tag] = ad
                res.inst("pipeline/" + tag, adaptors=ad)
    if set(pipes) != {"spanned", "plain"}:
        res.viol("anchors", f.loc, "could not find both layer lists (SpannedLayerExprs / LayerExprs) in parse_cfg_raw_string")
        return res
    ok = pipes["spanned"] == pipes["plain"]
    res.oblige(ok)
    if not ok:
        res.viol("pipelines-differ", f.loc,
                 "the spanned layer list is built with %s but the plain one with %s: layer names/indexes and layer bodies can be "
                 "paired up in different orders" % (pipes["spanned"], pipes["plain"]))
    return res


RAW_OK = {
    CFG + "parse_action_list": "the head of a list action is a keyword that selects the parser, not a value; everything after it goes through atom(vars)/list(vars)",
}


def run_rawmatch(prog):
    """R-RAWMATCH (C16, defvar clause): action parsers look at expressions only through atom(vars) / list(vars).

    `SExpr::atom(vars)` and `SExpr::list(vars)` are where `$name` is replaced by the variable's value. An action
    parser that matches on the expression itself (`match expr { SExpr::Atom(a) => .. }`) sees the literal text
    `$name`: the configuration with the variable is then accepted or behaves differently from the one with the
    value written out. Rule: among the functions reachable from parse_action, only the s-expression module itself
    and the reviewed functions in RAW_OK switch on the discriminant of an SExpr."""
    from kq.analysis import discr_switches
    from kq.report import norm_key
    res = RuleResult("R-RAWMATCH", "action parsers never match on a raw SExpr (which would bypass variable substitution)", floor=100)
    reach = prog.reachable_from([CFG + "parse_action"])
    allowed = {norm_key(k): v for k, v in RAW_OK.items()}
    seen_ok = set()
    for n in sorted(reach):
        for f in prog.by_norm.get(n, []):
            if f.crate != "kanata_parser" or f.derive:
                continue
            res.fn(f)
            sws = discr_switches(prog, f, CFG + "sexpr::SExpr")
            k = norm_key(f.norm)
            in_sexpr = f.norm.startswith(CFG + "sexpr::")
            ok = not sws or in_sexpr or k in allowed
            if sws and k in allowed:
                seen_ok.add(k)
            res.inst("raw/" + k, where=f.loc, raw_matches=len(sws), ok=ok)
            res.oblige(ok)
            if not ok:
                res.viol("raw/" + k, "%s:%s" % (f.file, f.line_of(sws[0].bb)),
                         "%s is reachable from parse_action and matches on an SExpr directly (line %s) instead of going through "
                         "atom(vars) / list(vars): a `$variable` in that position is not substituted, so naming the value with defvar "
                         "changes what the configuration means" % (f.norm.split("::")[-1], f.line_of(sws[0].bb)))
    for k in allowed:
        if k not in seen_ok:
            res.notes.append("reviewed raw match no longer present: %s" % k)
    return res


def run_cfg_mirror(prog):
    """R-CFG-MIRROR (C04, C12): the parser state mirrors the defcfg options it is named after.

    ParserState is built with struct-update syntax (`..Default::default()`): a field that is not listed silently keeps
    its default. For every ParserState field whose name is a CfgOptions field name (optionally prefixed `default_`),
    the value stored in parse_cfg_raw_string must be read from that CfgOptions field - otherwise e.g. `sldr` ignores
    `(defcfg sequence-timeout N)` and uses 1000 ms."""
    from kq.analysis import backward_slice
    res = RuleResult("R-CFG-MIRROR", "ParserState fields named after defcfg options are initialised from them", floor=4)
    f = prog.fn(CFG + "parse_cfg_raw_string")
    res.fn(f)
    opts = prog.adt(CFG + "defcfg::CfgOptions")
    opt_fields = {fl["name"] for v in opts.get("variants", [opts]) for fl in v.get("fields", [])} if "variants" in opts else {fl["name"] for fl in opts.get("fields", [])}
    aggs = [(bi, si, st["rv"]) for bi, si, st in f.all_rvalues() if st["rv"]["k"] == "agg" and st["rv"].get("adt") == CFG + "ParserState"]
    if not aggs:
        res.viol("anchor", f.loc, "no ParserState aggregate in parse_cfg_raw_string")
        return res
    bi, si, rv = aggs[0]
    for name, op in zip(rv["fn"], rv["ops"]):
        src = name if name in opt_fields else (name[len("default_"):] if name.startswith("default_") and name[len("default_"):] in opt_fields else None)
        if src is None:
            continue
        fields, _c, _k = backward_slice(f, op, maxdepth=8)
        ok = any(a == CFG + "defcfg::CfgOptions" and fl == src for a, fl in fields)
        res.inst("field/" + name, where="%s:%s" % (f.file, f.line_of(bi, si)), from_option=src, ok=ok)
        res.oblige(ok)
        if not ok:
            res.viol("field/" + name, "%s:%s" % (f.file, f.line_of(bi, si)),
                     "ParserState.%s is not initialised from the defcfg option `%s` (it keeps ParserState::default()): the option is "
                     "parsed and then ignored by the action parsers" % (name, src))
    return res


VARS_NONE_OK = {
    # function -> (number of atom/list calls without the variable table, why)
    CFG + "chord::parse_defchordv2": (1, "the top-level keyword `defchordsv2` itself"),
    CFG + "zippychord::inner::parse_zippy_inner": (1, "the top-level keyword `defzippy` itself"),
}
# An audit of the first version of this table found two of its four reasons wrong: the parentheses check of
# parse_layer_indexes and the character of a zippychord output-character-mapping did read `$name` literally where the
# literal and the variable are accepted differently (repaired in /repo, e56e09f), and parse_layer_opts - which has no
# `vars` parameter and is therefore outside this rule's view - stored `$ico` as a layer icon. Known hole: closures that
# capture the ParserState are not looked at (their own parameters do not include it).


def run_vars_passed(prog):
    """R-VARS-PASSED (C16): where the variable table is at hand, expressions are read through it.

    `expr.atom(vars)` / `expr.list(vars)` replace `$name` by the variable's value only when they are given the table;
    `expr.list(None)` looks at the raw expression. A function that has the table (a `vars` parameter or the ParserState)
    and still passes `None` reads `$name` literally: `(concat $prefix 1)` with `(defvar prefix (f))` silently loses the
    list and yields `1`. Rule: in functions of the parser that receive the table or the ParserState, atom / list /
    span_list are called with the table, except at the reviewed keyword positions."""
    from kq.core import Resolver
    res = RuleResult("R-VARS-PASSED", "functions that have the variable table pass it to atom() / list()", floor=30)
    ACC = {CFG + "sexpr::SExpr::atom", CFG + "sexpr::SExpr::list", CFG + "sexpr::SExpr::span_list"}
    for f in sorted(prog.fns.values(), key=lambda x: x.norm):
        if f.crate != "kanata_parser" or f.derive:
            continue
        has = any("HashMap<alloc::string::String, kanata_parser::cfg::sexpr::SExpr" in (f.local_ty(i) or "") or
                  "ParserState" in (f.local_ty(i) or "") for i in range(1, f.nargs + 1))
        if not has:
            continue
        none_sites, with_sites = [], 0
        for bi, t in f.calls():
            if (callee_name(t) or "") not in ACC or len(t["args"]) < 2:
                continue
            r = Resolver(f).root(t["args"][1])
            if (r[0] == "agg" and r[1][2].get("v") == "None") or r[0] == "const":
                none_sites.append(t.get("ln"))
            else:
                with_sites += 1
        if not none_sites and not with_sites:
            continue
        allowed = VARS_NONE_OK.get(f.norm, (0, ""))[0]
        ok = len(none_sites) <= allowed
        key = f.norm.split("cfg::")[-1]
        res.fn(f)
        res.inst(key, where=f.loc, with_table=with_sites, without=len(none_sites), reviewed_without=allowed, ok=ok)
        res.oblige(ok)
        if not ok:
            res.viol(key, "%s:%s" % (f.file, none_sites[-1]),
                     "%s has the variable table (a `vars` parameter or the ParserState) but reads an expression with atom(None) / list(None) "
                     "(lines %s; %d reviewed): a `$name` at that position is taken literally instead of being replaced by the variable's "
                     "value - the configuration with the variable behaves differently from the one with the value written out"
                     % (f.norm.split("::")[-1], none_sites, allowed))
    return res
