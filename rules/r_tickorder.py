"""Ordering rules inside the tick / event functions (added after the fourth seeding round).

R-WAIT-GATE (C01, C05)   Layout::tick takes the next event out of the queue only while *no* key is undecided: the
    `queue.pop_front()` that feeds dequeue() is confined to the branch where `waiting` is None and
    `extra_waiting.is_empty()` is true. (If the release of a key is dequeued while a concurrent tap-hold that was
    pressed at the same coordinate is still undecided, the tap-hold later presses its hold action at a coordinate
    that is already up and nothing ever releases it.)

R-RPT-ORDER (C02)   in Layout::do_action, `self.rpt_action = Some(..)` is never followed by a recursive do_action
    call in the same invocation. The Repeat arm guards against self-reference by `take()`-ing rpt_action before it
    recurses; an arm that stores the action first and recurses afterwards (fork, one-shot) hands the inner
    `rpt-any` the very action that contains it: unbounded recursion, stack overflow.

R-TICK-TOGETHER (C05, C08)   the per-tick clocks of the layout advance on the same paths: on every path of
    Layout::tick that ages the event queue (`queue.iter_mut().for_each(Queued::tick_qd)`), the last-press tracker
    (tick_lpt) and the key history (tick_hist) are advanced too. A clock that only runs while nothing is waiting
    measures the tap-repress window from the wrong moment.

R-LOOP-MS (C07)   in the processing loop, the elapsed time handed to can_block_update_idle_waiting comes from the
    handle_time_ticks call of the same iteration in every arm: every path from the loop header to that call passes
    an assignment of handle_time_ticks' Ok value to the variable."""
from kq.core import callee_name, is_place, norm_name, proj
from kq.gf2 import root_desc
from kq.report import RuleResult, norm_key

KB = "kanata_keyberon::layout::"
KAN = "kanata_state_machine::kanata::"


def _short(t):
    return (callee_name(t) or "").split("::")[-1]


def rule_wait_gate(prog):
    res = RuleResult("R-WAIT-GATE", "Layout::tick dequeues an event only while no tap-hold / chord decision is pending", floor=1)
    f = prog.fn_opt(KB + "Layout::tick")
    if f is None:
        res.viol("anchor", "keyberon/src/layout.rs", "Layout::tick not found")
        return res
    res.fn(f)
    # the dequeue() call and the pop_front that feeds it
    from kq.analysis import calls_incl_closures
    deq = calls_incl_closures(prog, f, lambda t: norm_name(callee_name(t) or "") == KB + "Layout::dequeue")
    pops = [(bi, t) for bi, t in f.calls() if _short(t) == "pop_front" and t["args"] and (root_desc(f, t["args"][0]) or "").endswith(".queue")]
    if not deq or not pops:
        res.viol("anchor", f.loc, "the pop_front / dequeue pair was not found in Layout::tick")
        return res
    empties = [(bi, t) for bi, t in f.calls() if _short(t) == "is_empty" and t["args"] and (root_desc(f, t["args"][0]) or "").endswith(".extra_waiting")]
    for n, (pb, pt) in enumerate(pops):
        if not any(db in f.reach_from(pb) for db, _ in deq):
            continue
        ok = False
        for eb, et in empties:
            # the switch on the result of is_empty(): the pop must be reachable only through the `true` edge
            sb = et.get("t")
            if sb is None or not f.dominates(eb, pb):
                continue
            tt = f.term(sb)
            if tt["k"] != "switch" or not is_place(tt["d"]) or tt["d"]["l"] != et["dest"]["l"]:
                continue
            false_t = [tb for v, tb in tt["ts"] if v == 0]
            true_t = tt["o"]
            if false_t and pb not in f.reach_from(false_t[0], avoid=[sb]) and pb in f.reach_from(true_t, avoid=[sb]):
                ok = True
        key = "pop#%d" % n
        res.inst(key, where="%s:%s" % (f.file, pt.get("ln")), ok=ok)
        res.oblige(ok)
        if not ok:
            res.viol(key, "%s:%s" % (f.file, pt.get("ln")),
                     "Layout::tick pops the next event off the queue on a path that is not confined to `extra_waiting.is_empty()`: an event "
                     "(e.g. the release of the key) is processed while a concurrent tap-hold is still undecided, so when that tap-hold "
                     "resolves it presses its action at a coordinate that is already up and nothing releases it")
    return res


def rule_rpt_order(prog):
    res = RuleResult("R-RPT-ORDER", "do_action never recurses after it has stored rpt_action", floor=10)
    f = prog.fn_opt(KB + "Layout::do_action")
    if f is None:
        res.viol("anchor", "keyberon/src/layout.rs", "Layout::do_action not found")
        return res
    res.fn(f)
    rec = [(bi, t) for bi, t in f.calls() if norm_name(callee_name(t) or "") == f.norm]
    stores = [(bi, si) for bi, si, st in f.all_rvalues() if proj(st["p"]) and (root_desc(f, st["p"]) or "").endswith(".rpt_action")]
    if not rec or not stores:
        res.viol("anchor", f.loc, "no recursive call / no rpt_action store found in do_action")
        return res
    n = 0
    for bi, si in stores:
        r = f.reach_from(bi)
        after = [(b, t) for b, t in rec if b in r and not (b == bi)]
        ok = not after
        key = "store#%d" % n
        n += 1
        res.inst(key, where="%s:%s" % (f.file, f.line_of(bi, si)), ok=ok)
        res.oblige(ok)
        if not ok:
            res.viol(key, "%s:%s" % (f.file, f.line_of(bi, si)),
                     "rpt_action is stored at line %s and do_action is called again afterwards at line %s in the same invocation: if the "
                     "inner action is `rpt-any`, it takes the action that was just stored - the one that contains it - and recurses "
                     "without end" % (f.line_of(bi, si), after[0][1].get("ln")))
    return res


def rule_tick_together(prog):
    res = RuleResult("R-TICK-TOGETHER", "the per-tick clocks of Layout::tick advance on the same paths", floor=2)
    f = prog.fn_opt(KB + "Layout::tick")
    if f is None:
        res.viol("anchor", "keyberon/src/layout.rs", "Layout::tick not found")
        return res
    res.fn(f)
    anchor = None
    for bi, t in f.calls():
        if _short(t) == "for_each" and any("tick_qd" in str(a.get("c", {}).get("fn", "")) + str(a.get("c", {}).get("rfn", "")) for a in t["args"] if isinstance(a, dict) and "c" in a):
            anchor = bi
    if anchor is None:
        res.viol("anchor", f.loc, "the ageing of the event queue (for_each(Queued::tick_qd)) was not found in Layout::tick")
        return res
    rets = set(f.return_blocks())
    for name in ("tick_lpt", "tick_hist"):
        sites = [bi for bi, t in f.calls() if _short(t) == name]
        if not sites:
            res.inst(name, where=f.loc, ok=False)
            res.oblige(False)
            res.viol(name, f.loc, "%s() is no longer called from Layout::tick" % name)
            continue
        # a path through the anchor that avoids every call of `name`
        before = anchor in f.reach_from(0, avoid=sites)
        after = bool(f.reach_from(anchor, avoid=sites) & rets)
        ok = not (before and after)
        res.inst(name, where="%s:%s" % (f.file, f.term(sites[0]).get("ln")), sites=len(sites), ok=ok)
        res.oblige(ok)
        if not ok:
            res.viol(name, "%s:%s" % (f.file, f.term(sites[0]).get("ln")),
                     "a path through Layout::tick ages the event queue (tick_qd) but does not call %s(): this clock stops while "
                     "something else keeps running (e.g. while a tap-hold decision is pending), so the time it measures is wrong" % name)
    return res


def rule_loop_ms(prog):
    res = RuleResult("R-LOOP-MS", "the processing loop hands can_block_update_idle_waiting the elapsed time of the same iteration", floor=1)
    target = KAN + "Kanata::can_block_update_idle_waiting"
    found = False
    for f in prog.fns.values():
        if f.crate != "kanata_state_machine" or f.derive:
            continue
        for bi, t in f.calls():
            if norm_name(callee_name(t) or "") != target or len(t["args"]) < 2:
                continue
            # the processing loop: the call is inside a loop of this function
            from rules.r_loopvar import loops_of
            lps = [lp for lp in loops_of(f) if bi in lp.body]
            if not lps:
                continue
            found = True
            res.fn(f)
            lp = max(lps, key=lambda l: len(l.body))
            a = t["args"][1]
            var = a["l"] if is_place(a) and not proj(a) else None
            d = f.single_def(var) if var is not None else None
            while d is not None and d[2] == "assign" and d[3]["k"] == "use" and is_place(d[3]["a"]) and not proj(d[3]["a"]):
                var = d[3]["a"]["l"]
                d = f.single_def(var)
            # definitions of the variable inside the loop that come from handle_time_ticks
            good = set()
            for (db, di, kind, payload) in f.defs().get(var, []):
                if db not in lp.body or kind != "assign":
                    continue
                rv = payload
                src = rv["a"] if rv["k"] == "use" else None
                hops = 0
                while src is not None and is_place(src) and hops < 6:
                    dd = f.single_def(src["l"])
                    if dd is None:
                        break
                    if dd[2] == "call":
                        if _short(dd[3]) == "handle_time_ticks":
                            good.add(db)
                        break
                    if dd[2] == "assign" and dd[3]["k"] == "use":
                        src = dd[3]["a"]
                        hops += 1
                    else:
                        break
            # the call sits at the top of the loop and uses the value set during the previous iteration: look for a way
            # round the loop, from the call back to the call, that avoids every good definition
            nxt = t.get("t")
            stale = nxt is not None and nxt not in good and bi in f.reach_from(nxt, avoid=good)
            ok = bool(good) and not stale
            key = "%s/ms_elapsed" % "::".join(norm_key(f.norm).split("::")[-2:])
            res.inst(key, where="%s:%s" % (f.file, t.get("ln")), definitions_from_handle_time_ticks=len(good), ok=ok)
            res.oblige(ok)
            if not ok:
                res.viol(key, "%s:%s" % (f.file, t.get("ln")),
                         "the processing loop can go round, from one can_block_update_idle_waiting call to the next, without the "
                         "elapsed-time variable being set from that iteration's handle_time_ticks(): the idle clock (on-idle actions, the 1 s reload "
                         "fallback) then advances by a stale value - 0 after back-to-back events, so it never fires")
    if not found:
        res.viol("anchor", "src/kanata/mod.rs", "no call of can_block_update_idle_waiting inside a loop was found")
    return res


def rule_rpt_queue(prog):
    """R-RPT-QUEUE (C02): a repeated action cannot repeat itself through the action queue.

    `take()` only protects the Repeat arm against recursion inside one call. An action that reaches its inner
    `rpt-any` through the action queue (`(multi (switch () rpt-any break))`: switch queues its case actions) runs it
    one tick later, when the outer action has been put back as the action to repeat: the queue then never drains and,
    because Layout::tick handles nothing else while the queue is non-empty, every later event is swallowed.
    Checked shape of the repair: (1) the recursive call of the Repeat arm is dominated by a test of a `pending` flag
    whose set outcome returns without recursing; (2) after that call the flag is stored from a comparison of
    action_queue.len(); (3) Layout::tick clears the flag only on the path that did not run a queued action."""
    from kq.analysis import backward_slice
    res = RuleResult("R-RPT-QUEUE", "Repeat does nothing while actions queued by a repeated action are pending", floor=1)
    f = prog.fn_opt(KB + "Layout::do_action")
    g = prog.fn_opt(KB + "Layout::tick")
    if f is None or g is None:
        res.viol("anchor", "keyberon/src/layout.rs", "do_action / tick not found")
        return res
    res.fn(f)
    res.fn(g)
    takes = [bi for bi, t in f.calls() if _short(t) == "take" and t["args"] and (root_desc(f, t["args"][0]) or "").endswith(".rpt_action")]
    rec = [(bi, t) for bi, t in f.calls() if norm_name(callee_name(t) or "") == f.norm and any(f.dominates(tb, bi) for tb in takes)]
    if not takes or not rec:
        res.inst("repeat-arm-takes-the-action", where=f.loc, ok=False)
        res.oblige(False)
        res.viol("repeat-arm-takes-the-action", f.loc,
                 "the Repeat arm of do_action does not take the action out of rpt_action (Option::take) before it runs it: an action that "
                 "contains rpt-any, e.g. (multi rpt-any b), finds itself in rpt_action and recurses until the stack overflows")
        return res
    rb, rt = rec[0]
    # (1) a dominating test of a bool field, one outcome of which cannot reach the recursive call
    flag = None
    for b in sorted(f.reachable()):
        if not f.dominates(b, rb) or b == rb:
            continue
        t = f.term(b)
        if t["k"] != "switch" or t.get("dty") != "bool" or not is_place(t["d"]):
            continue
        fields, _c, _k = backward_slice(f, t["d"], maxdepth=6)
        names = [x[1] for x in fields if "Layout" in (x[0] or "")]
        if len(names) != 1:
            continue
        if any(rb not in f.reach_from(s, avoid=[b]) for s in f.succs(b) if not f.is_cleanup(s)):
            flag = names[0]
    ok1 = flag is not None
    res.inst("guarded-by-pending-flag", where="%s:%s" % (f.file, rt.get("ln")), flag=flag, ok=ok1)
    res.oblige(ok1)
    if not ok1:
        res.viol("guarded-by-pending-flag", "%s:%s" % (f.file, rt.get("ln")),
                 "the Repeat arm runs the action to repeat without first testing a flag that says actions queued by an earlier repeat are "
                 "still pending: `(multi (switch () rpt-any break))` then re-queues its own rpt-any on every tick and all later input is swallowed")
        return res
    # (2) the flag is stored after the call from a comparison involving action_queue.len()
    ok2 = False
    for bi, si, st in f.all_rvalues():
        if proj(st["p"]) and (root_desc(f, st["p"]) or "").endswith("." + flag) and bi in f.reach_from(rb):
            _f, callees, _k = backward_slice(f, st["rv"].get("a", st["rv"].get("p")) if st["rv"]["k"] in ("use",) else {"l": -1}, maxdepth=8)
            ops = [st["rv"].get("a"), st["rv"].get("b")]
            cs = set()
            for o in ops:
                if o is not None and is_place(o):
                    cs |= backward_slice(f, o, maxdepth=8)[1]
            if any(c.split("::")[-1] == "len" for c in cs):
                ok2 = True
    res.inst("flag-set-from-queue-growth", where=f.loc, ok=ok2)
    res.oblige(ok2)
    if not ok2:
        res.viol("flag-set-from-queue-growth", f.loc, "after the repeated action ran, `%s` is not set from a comparison of action_queue.len()" % flag)
    # (3) tick clears it only where no queued action was run
    clears = [(bi, si) for bi, si, st in g.all_rvalues() if proj(st["p"]) and (root_desc(g, st["p"]) or "").endswith("." + flag)]
    runs = [bi for bi, t in g.calls() if norm_name(callee_name(t) or "") == f.norm]
    ok3 = bool(clears) and all(not any(rb2 in g.reach_from(cb) or cb in g.reach_from(rb2) for rb2 in runs) for cb, _ in clears)
    res.inst("flag-cleared-when-queue-empty", where=g.loc, clears=len(clears), ok=ok3)
    res.oblige(ok3)
    if not ok3:
        res.viol("flag-cleared-when-queue-empty", g.loc,
                 "Layout::tick does not clear `%s` exactly on the path where the action queue was empty (cleared on a path that also runs a "
                 "queued action, or never): the guard either never engages or never lets go" % flag)
    return res


def rule_queue_trans(prog):
    """R-QUEUE-TRANS (C01, C02): a transparent action is never put into the action queue unresolved.

    Queued actions run on a later tick with a layer stack computed from the top (`trans_resolution_layer_order()
    .skip(1)`), not from the layer the queuing action was found on. A queued `_` can therefore resolve to the action
    that queued it (a switch on the base layer with another layer held above it), which queues it again on every tick;
    Layout::tick processes no input while the queue is non-empty. Rule: every push of a switch case into the action
    queue takes the case through a match whose Trans arm substitutes the result of resolve_coord (computed with the
    layer stack of the current invocation)."""
    from kq.analysis import discr_switches
    res = RuleResult("R-QUEUE-TRANS", "switch cases are resolved (Trans -> the action below the switch) before they are queued", floor=1)
    f = prog.fn_opt(KB + "Layout::do_action")
    if f is None:
        res.viol("anchor", "keyberon/src/layout.rs", "do_action not found")
        return res
    res.fn(f)
    ACTION = "kanata_keyberon::action::Action"
    pushes = [(bi, t) for bi, t in f.calls() if _short(t) == "push_back" and t["args"] and (root_desc(f, t["args"][0]) or "").endswith("action_queue")
              and any(_short(t2) == "next" and "SwitchActions" in (callee_name(t2) or "") + (t2.get("ga") or "") + (f.local_ty(t2["args"][0]["l"]) if t2["args"] and is_place(t2["args"][0]) else "")
                      and bi in f.reach_from(b2) for b2, t2 in f.calls())]
    if not pushes:
        res.viol("anchor", f.loc, "the push of switch cases into the action queue was not found")
        return res
    resolves = [bi for bi, t in f.calls() if _short(t) == "resolve_coord"]
    sws = [sw for sw in discr_switches(prog, f, ACTION) if "Trans" in sw.arms]
    for n, (pb, pt) in enumerate(pushes):
        # a match on the case with an explicit Trans arm dominates the push, and that arm's value comes from resolve_coord
        ok = False
        for sw in sws:
            if sw.bb == 0 or not f.dominates(sw.bb, pb):
                continue
            region = sw.arm_region("Trans")
            for b in region:
                for st in f.stmts(b):
                    if st["k"] == "assign" and st["rv"]["k"] == "use" and is_place(st["rv"]["a"]):
                        src = st["rv"]["a"]
                        d = f.single_def(src["l"]) if not proj(src) else None
                        hops = 0
                        while d is not None and d[2] == "assign" and d[3]["k"] == "use" and is_place(d[3]["a"]) and hops < 4:
                            d = f.single_def(d[3]["a"]["l"])
                            hops += 1
                        if d is not None and d[2] == "call" and _short(d[3]) == "resolve_coord":
                            ok = True
        key = "switch-case-push#%d" % n
        res.inst(key, where="%s:%s" % (f.file, pt.get("ln")), ok=ok)
        res.oblige(ok)
        if not ok:
            res.viol(key, "%s:%s" % (f.file, pt.get("ln")),
                     "a switch case is pushed into the action queue without a `Trans => <resolve_coord(..)>` substitution: a transparent "
                     "case is then looked up from the top of the layer stack when it runs, can find the switch that queued it, and "
                     "re-queues itself on every tick - no input is processed while the action queue is non-empty")
    return res


def rule_overflow_all(prog):
    """R-OVERFLOW-ALL (C01, C05): on queue overflow every undecided tap-hold is forced into hold - not every second one.

    `Layout::event` resolves the main waiting slot and then the entries of `extra_waiting` when the event queue
    overflows, because the evicted event is processed at once and a release must find the state of its key.
    `waiting_into_hold(i)` *removes* entry i and the others move up. A loop that counts i up therefore skips every
    second entry; the release evicted for a skipped tap-hold finds nothing to release, and when that tap-hold later
    resolves as hold its key stays down for ever. Rule: a call of waiting_into_hold inside a loop of Layout::event passes a
    constant index (always "the first one")."""
    from kq.core import is_const
    from rules.r_loopvar import loops_of
    res = RuleResult("R-OVERFLOW-ALL", "the overflow path of Layout::event resolves extra_waiting entries by a constant index", floor=1)
    f = prog.fn_opt("kanata_keyberon::layout::Layout::event")
    if f is None:
        res.viol("anchor", "keyberon/src/layout.rs", "Layout::event not found")
        return res
    res.fn(f)
    inloop = set()
    for lp in loops_of(f):
        inloop |= lp.body
    n = 0
    for bi, t in f.calls():
        if not (callee_name(t) or "").endswith("::waiting_into_hold") or len(t["args"]) < 2:
            continue
        n += 1
        a = t["args"][1]
        const = is_const(a)
        if not const and isinstance(a, dict) and "l" in a:
            d = f.single_def(a["l"])
            const = bool(d and d[2] == "assign" and d[3]["k"] == "use" and is_const(d[3]["a"]))
            # the slot written as a value of a small enum: `WaitingSlot::Extra(0)` - an aggregate of constants is a constant
            if d and d[2] == "assign" and d[3]["k"] == "agg" and all(is_const(o) for o in d[3].get("ops", [])):
                const = True
        ok = const or bi not in inloop
        res.inst("waiting_into_hold%s" % ("#%d" % (n - 1) if n > 1 else ""), where="%s:%s" % (f.file, t.get("ln")), in_loop=bi in inloop,
                 constant_index=const, ok=ok)
        res.oblige(ok)
        if not ok:
            res.viol("waiting_into_hold/loop-index", "%s:%s" % (f.file, t.get("ln")),
                     "Layout::event calls waiting_into_hold(i) in a loop with an index that changes from one iteration to the next. Each "
                     "call removes the entry it resolves, so the remaining entries move up and every second one is skipped: with three or "
                     "more tap-holds undecided at once (home-row mods typed together) a burst that overflows the queue leaves a hold "
                     "key down for ever")
    if n < 1:
        res.viol("anchor/calls", f.loc, "the waiting_into_hold calls of the overflow path were not found (%d)" % n)
    return res


def rule_stack_dedup(prog):
    """R-LAYER-STACK-SET (C01, C02, C04): the layer stack used to resolve transparent keys lists every layer once.

    Queued actions (switch cases, chord actions) resolve `_` with "the stack minus its first entry", i.e. the layers below
    the one the action came from. If a layer can occur twice in the stack (held by two keys, or held and also the default
    layer), "below" still contains the layer itself: a `_` switch case finds its own switch again and re-queues itself on
    every tick - no further input is processed, held keys stay down. Rule: in trans_resolution_layer_order the held layers
    are de-duplicated (a retain whose closure asks `contains`), and every later push into the stack is guarded by a
    `contains` test."""
    from rules.r_cancel import closure_arg
    res = RuleResult("R-LAYER-STACK-SET", "trans_resolution_layer_order returns every layer at most once", floor=1)
    f = prog.fn_opt("kanata_keyberon::layout::Layout::trans_resolution_layer_order")
    if f is None:
        res.viol("anchor", "keyberon/src/layout.rs", "trans_resolution_layer_order not found")
        return res
    res.fn(f)
    short = lambda t: (callee_name(t) or "").split("::")[-1]  # noqa: E731
    dedup = False
    for bi, t in f.calls():
        if short(t) in ("retain", "retain_mut", "dedup") and len(t["args"]) > 1:
            c = closure_arg(prog, f, t["args"][1])
            if c is not None and any(short(t2) == "contains" for _, t2 in c.calls()):
                dedup = True
    how = "retain(!seen.contains)" if dedup else None
    if not dedup:
        # the same thing written as a loop: the held layers enter the stack one by one, each push guarded by `contains`
        # (checked below for every push), and nothing fills the stack wholesale
        held = [bi for bi, t in f.calls() if short(t) == "active_held_layers"]
        region = set()
        for hb in held:
            region |= f.dominated_by(hb)
        bulk = [t.get("ln") for bi, t in f.calls() if bi in region and short(t) in ("collect", "from_iter", "extend", "extend_from_slice", "append")]
        pushes = [bi for bi, t in f.calls() if bi in region and short(t) == "push"]
        from rules.r_loopvar import loops_of
        in_loop = any(pb in lp.body for lp in loops_of(f) for pb in pushes)
        if held and not bulk and in_loop:
            dedup = True
            how = "push loop guarded by contains"
    res.inst("held-layers-deduplicated", where=f.loc, ok=dedup, how=how)
    res.oblige(dedup)
    if not dedup:
        res.viol("held-layers-deduplicated", f.loc,
                 "trans_resolution_layer_order no longer removes repeated layers from the list of held layers: with one layer held by two "
                 "keys the stack is [nav, nav, base], 'the layers below this one' still contains nav, and a `_` switch case on nav "
                 "resolves to its own switch again on every tick (kanata stops processing input, held keys stay down)")
    contains = [bi for bi, t in f.calls() if (callee_name(t) or "").split("::")[-1] == "contains"]
    k = 0
    for bi, t in f.calls():
        if (callee_name(t) or "").split("::")[-1] != "push" or not dedup:
            continue
        # pushes of the branch that de-duplicates (the other branch builds a stack of one or two fixed entries)
        if not any(f.dominates(rb, bi) for rb, t2 in f.calls() if short(t2) in ("retain", "retain_mut", "dedup", "active_held_layers")):
            continue
        from rules.r_loopvar import loops_of as _loops
        inner = [lp for lp in _loops(f) if bi in lp.body]
        inner = min(inner, key=lambda lp: len(lp.body)) if inner else None
        # the test belongs to this push: inside the same (innermost) loop round
        ok = any(f.dominates(cb, bi) and (inner is None or cb in inner.body) for cb in contains)
        res.inst("push-guarded-by-contains%s" % ("#%d" % k if k else ""), where="%s:%s" % (f.file, t.get("ln")), ok=ok)
        k += 1
        res.oblige(ok)
        if not ok:
            res.viol("push-guarded-by-contains", "%s:%s" % (f.file, t.get("ln")),
                     "a layer is pushed onto the de-duplicated stack without asking whether it is there already (the default layer can also "
                     "be a held layer: layer-switch nav plus layer-while-held nav)")
    return res
