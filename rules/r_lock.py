"""R-LOCK (C02): no mutex is acquired again, on the same thread, while its guard is still alive.

kanata's locks are parking_lot mutexes (not re-entrant): a second lock() of the same mutex on the thread
that holds it blocks forever, i.e. an event or tick is never "processed to completion".

Rule. Mutex identity is approximated by the protected type T (Mutex<T>); for every acquisition site —
a call to Mutex::lock or to a kanata function that returns a MutexGuard<T> (e.g. zch()) — the guard's
live range is the set of blocks reachable from the acquisition without passing the guard's drop (moves
of the guard into another local are followed). No call inside the live range may reach, through the
call graph (closures handed to thread::spawn excluded: they run on another thread), another acquisition
of the same T.

Exemption (instance trees): Mutex<ZchPossibleChords> protects the nodes of the zippychord trie; parent
and child are different mutexes of the same type, locking the child while holding the parent is how the
trie is walked."""
import re
from collections import defaultdict, deque

from kq.core import callee_name, callee_written, is_place, norm_name, proj
from kq.report import RuleResult

LOCK_FNS = ("lock_api::mutex::Mutex::lock", "std::sync::poison::mutex::Mutex::lock", "lock_api::mutex::Mutex::try_lock")
GUARD_RE = re.compile(r"MutexGuard<'?[^,>]*,?\s*(?:parking_lot::raw_mutex::RawMutex,\s*)?(.+)>$")
INSTANCE_TREES = {"kanata_parser::cfg::zippychord::inner::ZchPossibleChords": "trie nodes: parent and child are distinct mutexes"}
SPAWN = ("std::thread::functions::spawn", "std::thread::spawn", "std::thread::Builder::spawn", "std::thread::builder::Builder::spawn", "std::thread::scoped::Scope::spawn")


def short(T):
    head = T.split("<")[0]
    return head.split("::")[-1] + ("<..>" if "<" in T else "")


def guard_ty(ty):
    if not ty or "MutexGuard<" not in ty:
        return None
    i = ty.index("MutexGuard<")
    inner = ty[i + len("MutexGuard<"):]
    # strip the trailing '>' that closes MutexGuard (types are printed without trailing junk)
    depth, out = 1, []
    for ch in inner:
        if ch == "<":
            depth += 1
        elif ch == ">":
            depth -= 1
            if depth == 0:
                break
        out.append(ch)
    parts, depth, cur = [], 0, ""
    for ch in "".join(out):
        if ch == "<":
            depth += 1
        elif ch == ">":
            depth -= 1
        if ch == "," and depth == 0:
            parts.append(cur.strip())
            cur = ""
        else:
            cur += ch
    parts.append(cur.strip())
    parts = [p for p in parts if not p.startswith("'") and "RawMutex" not in p]
    return parts[-1] if parts else None


class Locks:
    def __init__(self, prog):
        self.prog = prog
        self.sites = defaultdict(list)   # fn norm -> [(bb, term, T, how)]
        self.spawned = set()             # closures that run on another thread
        self._collect()
        self._closure()

    def _collect(self):
        prog = self.prog
        wrappers = {}
        for f in prog.fns.values():
            if not f.crate.startswith("kanata") or f.derive:
                continue
            rt = guard_ty(f.local_ty(0))
            if rt and not f.parent:
                wrappers[f.norm] = rt
        self.wrappers = wrappers
        for f in prog.fns.values():
            if not f.crate.startswith("kanata") or f.derive:
                continue
            for bi, t in f.calls():
                cn = callee_name(t) or ""
                if cn in LOCK_FNS:
                    d = t["dest"]
                    T = guard_ty(f.place_ty(d) if proj(d) else f.local_ty(d["l"]))
                    if T is None:
                        m = re.search(r"\[(?:[^,\]]+,\s*)?(.+)\]$", t.get("ga", ""))
                        T = m.group(1).split(", ")[-1] if m else "?"
                    self.sites[f.norm].append((bi, t, T, "lock()"))
                elif cn in wrappers:
                    self.sites[f.norm].append((bi, t, wrappers[cn], cn.split("::")[-1] + "()"))
                if cn in SPAWN or (callee_written(t) or "") in SPAWN:
                    for a in t["args"]:
                        if is_place(a):
                            ty = f.local_ty(a["l"]) or ""
                            m = re.search(r"\{closure@|closure#", ty)
                            d = f.single_def(a["l"])
                            while d is not None and d[2] == "assign" and d[3]["k"] == "use" and is_place(d[3]["a"]):
                                d = f.single_def(d[3]["a"]["l"])
                            if d is not None and d[2] == "assign" and d[3]["k"] == "agg" and "clo" in d[3]:
                                self.spawned.add(norm_name(d[3]["clo"]))

    def _closure(self):
        """acq[f] = set of T acquired by f or anything it calls on the same thread"""
        cg = self.prog.callgraph()
        acq = {n: set(T for (_, _, T, _) in v) for n, v in self.sites.items()}
        rev = defaultdict(set)
        for a, outs in cg.items():
            for b in outs:
                if b in self.spawned:
                    continue
                rev[b].add(a)
        dq = deque(acq)
        full = defaultdict(set)
        for n, s in acq.items():
            full[n] |= s
        while dq:
            n = dq.popleft()
            for c in rev.get(n, ()):
                before = len(full[c])
                full[c] |= full[n]
                if len(full[c]) != before:
                    dq.append(c)
        self.acq = full


def hold_region(f, bi, t):
    """blocks executed while the guard produced by the call at bi is alive, and the blocks that end it"""
    d = t["dest"]
    if proj(d):
        return None
    guards = {d["l"]}
    # follow whole-local moves of the guard
    changed = True
    while changed:
        changed = False
        for b2, s2, st in f.all_rvalues():
            rv = st["rv"]
            if rv["k"] == "use" and is_place(rv["a"]) and not proj(rv["a"]) and rv["a"]["l"] in guards and not proj(st["p"]):
                if st["p"]["l"] not in guards:
                    guards.add(st["p"]["l"])
                    changed = True
    ends = set()
    for b2 in f.reachable():
        tt = f.term(b2)
        if tt["k"] == "drop" and not proj(tt["p"]) and tt["p"]["l"] in guards:
            ends.add(b2)
        elif tt["k"] == "call" and any(is_place(a) and not proj(a) and a["l"] in guards and a.get("mv") for a in tt["args"]):
            ends.add(b2)   # guard moved into a call (mem::drop, or handed to the callee)
    start = t.get("t")
    if start is None:
        return set(), ends
    # drop flags: `switch flag -> [drop(guard), skip]`; while the guard is alive its flag is set, so the
    # skip edge is infeasible inside the live range
    def flag_only(l):
        ds = f.defs().get(l, [])
        return (f.local_ty(l) == "bool" and ds and
                all(x[2] == "assign" and x[3]["k"] == "use" and "c" in x[3]["a"] for x in ds))
    region, dq = set(), deque([start])
    while dq:
        b = dq.popleft()
        if b in region or b in ends:
            continue
        region.add(b)
        tt = f.term(b)
        succ = list(f.succs(b))
        if tt["k"] == "switch" and is_place(tt["d"]) and not proj(tt["d"]) and flag_only(tt["d"]["l"]) and any(x in ends for x in succ):
            succ = [x for x in succ if x in ends]
        dq.extend(succ)
    return region, ends


def run(prog):
    res = RuleResult("R-LOCK", "no mutex is locked again while the same thread still holds its guard", floor=20)
    lk = Locks(prog)
    res.notes.append("lock wrappers: %s" % sorted(lk.wrappers))
    res.notes.append("closures run on another thread: %d" % len(lk.spawned))
    for fnm, sites in sorted(lk.sites.items()):
        for f in prog.by_norm.get(fnm, []):
            if f.crate == "kanata":
                continue
            res.fn(f)
            per = defaultdict(int)
            for (bi, t, T, how) in sites:
                n = per[T]
                per[T] += 1
                key = "%s/%s%s" % (f.norm, short(T), "#%d" % n if n else "")
                where = "%s:%s" % (f.file, t.get("ln"))
                if T in INSTANCE_TREES:
                    res.inst(key, where=where, how="exempt: " + INSTANCE_TREES[T])
                    continue
                hr = hold_region(f, bi, t)
                if hr is None:
                    res.inst(key, where=where, how="guard stored into a place: not tracked")
                    continue
                region, ends = hr
                bad = []
                for b2 in sorted(region):
                    tt = f.term(b2)
                    if tt["k"] != "call":
                        continue
                    if b2 in ends:
                        continue
                    cn = callee_name(tt) or ""
                    n2 = norm_name(cn)
                    direct = any(b3 == b2 and T3 == T for (b3, _, T3, _) in sites)
                    if direct or T in lk.acq.get(n2, ()):
                        bad.append((b2, tt, cn))
                    else:
                        # closures / fn items passed as arguments are assumed to be called by the callee
                        for a in tt["args"]:
                            if is_place(a):
                                dd = f.single_def(a["l"]) if not proj(a) else None
                                if dd is not None and dd[2] == "assign" and dd[3]["k"] == "agg" and "clo" in dd[3]:
                                    cl = norm_name(dd[3]["clo"])
                                    if cl not in lk.spawned and T in lk.acq.get(cl, ()) and cn not in SPAWN:
                                        bad.append((b2, tt, cn + " (closure " + cl.split("::")[-1] + ")"))
                res.inst(key, where=where, how=how, held_over_blocks=len(region), ok=not bad)
                res.oblige(not bad)
                for (b2, tt, cn) in bad:
                    res.viol("%s->%s" % (key, cn.split("::")[-1]), "%s:%s" % (f.file, tt.get("ln")),
                             "the guard of Mutex<%s> taken at %s (%s) is still alive when %s is called, which locks the same mutex "
                             "again on this thread: parking_lot mutexes are not re-entrant, the thread would block forever"
                             % (short(T), where, how, cn))
    return res
