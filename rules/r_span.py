"""R-SPAN (C03): diagnostics point inside the file they name and slicing by a span cannot split a character.
 (a) the lexer only splits at ASCII bytes: every byte constant it compares against is < 0x80 and the only
     classifier it calls is u8::is_ascii_whitespace;
 (b) Span / Position values are only built or modified inside the s-expression module;
 (c) the one place that adjusts a span after the fact (the unterminated-comment fix-up) is guarded by a
     test that selects exactly one lexer error message;
 (d) text is sliced by a span only through `Index<Span>`, and the indexed text is that span's own
     file_content() (or the lexer's own input inside the s-expression module).
"""
from kq.analysis import backward_slice
from kq.core import Resolver, callee_name, callee_written, const_val, is_const, is_place, proj_fields, rvalue_operands
from kq.gf2 import root_desc
from kq.report import RuleResult
from rules.r_panic import _range_parts

SX = "kanata_parser::cfg::sexpr::"
SPAN, POS = SX + "Span", SX + "Position"


def _in_sexpr(f):
    return f.norm.startswith(SX) or ("<" in f.norm and SX in f.norm.split(" as ")[0] and f.file.endswith("sexpr.rs")) or f.file.endswith("cfg/sexpr.rs")


def _str_consts(f):
    out = []
    for b in f.reachable():
        for st in f.stmts(b):
            if st["k"] == "assign":
                for o in rvalue_operands(st["rv"]):
                    if is_const(o) and o["c"].get("str"):
                        out.append(o["c"]["str"])
        t = f.term(b)
        if t["k"] == "call":
            for o in t["args"]:
                if is_const(o) and o["c"].get("str"):
                    out.append(o["c"]["str"])
    return out


def run(prog):
    res = RuleResult("R-SPAN", "spans are lexer-made, ASCII-delimited and only used on their own text", floor=10)
    # (a) lexer alphabet
    lex = [f for f in prog.fns.values() if f.norm.startswith(SX + "Lexer::") or f.norm.startswith("<" + SX + "PositionCountingBytesIterator")]
    n_consts = 0
    for f in lex:
        res.fn(f)
        for bi, si, st in f.all_rvalues():
            rv = st["rv"]
            if rv["k"] == "bin" and rv["op"] in ("Eq", "Ne", "Lt", "Le", "Gt", "Ge"):
                for o in (rv["a"], rv["b"]):
                    if is_const(o) and o["c"].get("ty") == "u8" and const_val(o) is not None:
                        n_consts += 1
                        if const_val(o) >= 0x80:
                            res.viol("alphabet/%s/%d" % (f.norm, const_val(o)), "%s:%s" % (f.file, st.get("ln")),
                                     "the lexer compares a byte with %#x: token boundaries would no longer be char boundaries" % const_val(o))
        for bi in f.reachable():
            t = f.term(bi)
            if t["k"] == "switch" and t.get("dty") == "u8":
                for v, _ in t["ts"]:
                    n_consts += 1
                    if v >= 0x80:
                        res.viol("alphabet/%s/%d" % (f.norm, v), "%s:%s" % (f.file, t.get("ln")), "the lexer matches byte %#x (non-ASCII)" % v)
            if t["k"] == "call":
                cn = callee_name(t) or ""
                if cn.startswith("core::num::") and "is_" in cn and cn != "core::num::is_ascii_whitespace":
                    res.viol("classifier/%s" % cn, "%s:%s" % (f.file, t.get("ln")), "lexer uses byte classifier %s (only is_ascii_whitespace is reviewed)" % cn)
    res.inst("lexer-byte-constants", n=n_consts, fns=len(lex))
    if n_consts < 8:
        res.viol("alphabet/census", "parser/src/cfg/sexpr.rs", "found only %d byte constants in the lexer" % n_consts)
    # (b) owners of Span / Position
    for f in prog.fns.values():
        if not f.crate.startswith("kanata") or f.derive:
            continue
        bad = None
        for bi, si, st in f.all_rvalues():
            rv = st["rv"]
            if rv["k"] == "agg" and rv.get("adt") in (SPAN, POS):
                bad = ("builds %s" % rv["adt"].split("::")[-1], st.get("ln"))
            pf = proj_fields(st["p"])
            if pf and pf[-1][0] in (SPAN, POS):
                bad = ("modifies %s.%s" % (pf[-1][0].split("::")[-1], pf[-1][2]), st.get("ln"))
        if bad:
            ok = _in_sexpr(f)
            res.inst("owner/%s" % f.norm, what=bad[0], in_sexpr=ok)
            res.oblige(ok)
            if not ok:
                res.viol("owner/%s" % f.norm, "%s:%s" % (f.file, bad[1]), "%s outside the s-expression module: spans must come from the lexer" % bad[0])
    # (c) post-hoc span adjustment guarded by a message test selecting exactly one lexer message
    lit = set()
    for f in lex:
        for sconst in _str_consts(f):
            if "nterminated" in sconst or "nexpected" in sconst or "nclosed" in sconst:
                lit.add(sconst.strip('"'))
    res.inst("lexer-error-literals", literals=sorted(x[:40] for x in lit))
    for f in prog.fns.values():
        if not _in_sexpr(f) or f in lex:
            continue
        adj = [st for bi, si, st in f.all_rvalues() if proj_fields(st["p"]) and proj_fields(st["p"])[-1] == (POS, None, "absolute")]
        if not adj:
            continue
        if f.norm.startswith("<" + SX + "PositionCountingBytesIterator") or f.norm.startswith(SX + "Position::"):
            continue
        guards = []
        for bi, t in f.calls():
            cn = callee_name(t) or ""
            if cn in ("core::str::contains", "core::str::starts_with", "core::str::ends_with") and len(t["args"]) > 1 and is_const(t["args"][1]) and t["args"][1]["c"].get("str"):
                guards.append((cn.split("::")[-1], t["args"][1]["c"]["str"].strip('"')))
        sel = []
        for (pred, g) in guards:
            for l_ in lit:
                if (pred == "contains" and g in l_) or (pred == "starts_with" and l_.startswith(g)) or (pred == "ends_with" and l_.endswith(g)):
                    sel.append(l_)
        ok = len(guards) >= 1 and len(set(sel)) == 1
        res.inst("fixup/%s" % f.norm, guards=guards, selects=sorted(set(x[:40] for x in sel)))
        res.oblige(ok)
        if not ok:
            res.viol("fixup/%s" % f.norm, f.loc,
                     "a span is adjusted after lexing under a message test %s that selects %d lexer messages %s; the fixed-width "
                     "adjustment is only valid for the one message whose token starts with that many ASCII bytes"
                     % (guards, len(set(sel)), sorted(set(x[:30] for x in sel))))
    # (d) slicing text by spans
    idx_impls = {"<str as core::ops::index::Index<kanata_parser::cfg::sexpr::Span>>::index",
                 "<alloc::string::String as core::ops::index::Index<kanata_parser::cfg::sexpr::Span>>::index"}
    for f in prog.fns.values():
        if f.crate != "kanata_parser" or f.derive:
            continue
        for bi, t in f.calls():
            cw, cn = callee_written(t) or "", callee_name(t) or ""
            if cw not in ("core::ops::index::Index::index",):
                continue
            if cn in idx_impls:
                # receiver must be the span's own text
                _, callees, _ = backward_slice(f, t["args"][0])
                own = (SPAN + "::file_content") in callees
                ok = own or _in_sexpr(f)
                if own:
                    # same span object on both sides
                    fc = [tt for _, tt in f.calls() if callee_name(tt) == SPAN + "::file_content"]
                    roots_fc = {root_desc(f, tt["args"][0]) for tt in fc}
                    rs = root_desc(f, t["args"][1])
                    r2 = Resolver(f).root(t["args"][1])
                    if r2[0] == "call" and (callee_written(r2[1][1]) or "").endswith("Clone::clone"):
                        rs = root_desc(f, r2[1][1]["args"][0])
                    ok = rs in roots_fc
                res.inst("index-by-span/%s" % f.norm, own_text=own, ok=ok, where="%s:%s" % (f.file, t.get("ln")))
                res.oblige(ok)
                if not ok:
                    res.viol("index-by-span/%s" % f.norm, "%s:%s" % (f.file, t.get("ln")),
                             "text is indexed by a span but is not that span's own file_content(): spans of included files / "
                             "BOM-stripped text index a different string (out-of-range or mid-character slice)")
            else:
                rty = f.place_ty(t["args"][1]) if len(t["args"]) > 1 and is_place(t["args"][1]) else ""
                recv_ty = f.place_ty(t["args"][0]) or ""
                if "Range" in (rty or "") and ("str" in recv_ty or "String" in recv_ty):
                    rp = _range_parts(f, t["args"][1])
                    ends = [x for x in (rp[1:] if rp else []) if x is not None]
                    from_span = False
                    for e in ends:
                        _, callees, _ = backward_slice(f, e)
                        if (SPAN + "::start") in callees or (SPAN + "::end") in callees:
                            from_span = True
                    if from_span:
                        ok = f.norm in idx_impls
                        res.inst("slice-by-span-bounds/%s" % f.norm, ok=ok)
                        res.oblige(ok)
                        if not ok:
                            res.viol("slice-by-span-bounds/%s" % f.norm, "%s:%s" % (f.file, t.get("ln")),
                                     "a string is sliced with span.start()..span.end() outside Index<Span>: nothing ties the span to this text")
    # (e) the label handed to the diagnostic renderer is exactly the span: offset = start, length = end - start.
    # Any other arithmetic on these byte offsets (clamping, padding, rounding) can land inside a character.
    n_lbl = 0
    allowed = {SPAN + "::start", SPAN + "::end"}
    for f in prog.fns.values():
        if not f.crate.startswith("kanata") or f.derive:
            continue
        for bi, t in f.calls():
            cn = callee_name(t) or ""
            if not (cn.endswith("SourceSpan::new") or (cn.endswith("::from") and "SourceSpan" in (f.local_ty(t["dest"]["l"]) or "") and "SourceSpan" not in (f.place_ty(t["args"][0]) or "") if t["args"] and is_place(t["args"][0]) else False)):
                continue
            n_lbl += 1
            bad = []
            for a in t["args"]:
                _, callees, consts = backward_slice(f, a)
                other = {c for c in callees if c not in allowed and not c.startswith(("core::convert::", "<")) and "::from" not in c and "::into" not in c}
                nums = [c for c in consts if isinstance(c.get("c", {}).get("v"), int) and "fn" not in c["c"]]
                if other or nums:
                    bad.append((sorted(other), [c["c"].get("v") for c in nums]))
            ok = not bad
            res.inst("label-offsets/%s" % f.norm, ok=ok, where="%s:%s" % (f.file, t.get("ln")))
            res.oblige(ok)
            if not ok:
                res.viol("label-offsets/%s" % f.norm, "%s:%s" % (f.file, t.get("ln")),
                         "the diagnostic label is not exactly (span.start, span.end - span.start): its offsets also depend on %s — "
                         "byte offsets are only char-aligned where the lexer put them" % (bad,))
    if n_lbl == 0:
        res.viol("label-offsets/anchor", "parser/src/cfg/error.rs", "no SourceSpan construction found")
    return res


def rule_own_text(prog):
    """R-SPAN-OWN-TEXT (C03, C16): a span is only ever applied to the text of the file it was lexed from.

    A Span carries byte offsets into one file plus that file's content. With `include`, items of several files sit in
    one list; applying a span to the *main* file's text (which happens to be at hand) slices an unrelated fragment, or
    panics when the included file is longer than the main one / the offset falls inside a multi-byte character - a
    configuration that is accepted as one file kills the parser once its layers are moved into an included file.

    Rule: every `text[span]` (`Index<Span>` on str / String) in the parser crate takes its text from
    `span.file_content()` of the same span; the lexer-driven parse loop, which slices the text it is lexing with the
    spans the lexer just produced for it, is the one reviewed exception."""
    res = RuleResult("R-SPAN-OWN-TEXT", "text[span] slices the content of the span's own file", floor=2)
    LEXER_LOOP = {"kanata_parser::cfg::sexpr::parse_with": "slices the text being lexed with the token spans its own lexer yields for that text"}
    for f in prog.fns.values():
        if f.crate != "kanata_parser" or f.derive:
            continue
        k = 0
        for bi, t in f.calls():
            cn = t.get("r") or callee_name(t) or ""
            if "Index<kanata_parser::cfg::sexpr::Span>" not in cn or len(t["args"]) < 2:
                continue
            R = Resolver(f)
            base, idx = R.root(t["args"][0]), R.root(t["args"][1])
            key = "%s/index%s" % (f.norm.split("::{closure")[0].split("::")[-1], "#%d" % k if k else "")
            k += 1
            how = None
            ok = False
            if base[0] == "call" and (callee_name(base[1][1]) or "").endswith("Span::file_content") and base[1][1]["args"]:
                own = R.root(base[1][1]["args"][0])
                same = (own[0] == idx[0] and (own[1] == idx[1] or (own[0] == "call" and own[1][0] == idx[1][0]))
                        and [x[2] for x in own[2]][-1:] == [x[2] for x in idx[2]][-1:])
                ok, how = same, "file_content() of %s span" % ("the same" if same else "ANOTHER")
            elif f.norm.split("::{closure")[0] in LEXER_LOOP:
                ok, how = True, "reviewed: " + LEXER_LOOP[f.norm.split("::{closure")[0]]
            else:
                how = "text that does not come from the span (%s)" % base[0]
            res.fn(f)
            res.inst(key, where="%s:%s" % (f.file, t.get("ln")), text=how, ok=ok)
            res.oblige(ok)
            if not ok:
                res.viol(key, "%s:%s" % (f.file, t.get("ln")),
                         "%s applies a span to %s. Spans of items that came from an included file hold offsets into that file: "
                         "applied to another text they cut out an unrelated fragment or panic (byte index out of bounds / not a char "
                         "boundary), so moving layers into an included file turns an accepted configuration into a crash"
                         % (f.norm.split("::{closure")[0].split("::")[-1], how))
    return res


def rule_label_column(prog):
    """R-LABEL-COLUMN (C03): a diagnostic is only rendered with a source snippet when its label starts within a bounded column.

    "Rendering the diagnostic for the user does not crash either": the graphical report handler (miette) pads the underline of a
    label with `format!("{:width$}", ..)`, and a format width has to fit in 16 bits - a label that starts right of column
    65535 makes `kanata --check`, start-up and live reload panic with "Formatting argument out of range" instead of printing
    the error (reproduced; repaired in /repo 9c38ca8). The conversion ParseError -> miette::Error therefore has to drop the
    span (and say the position in words) when the label lies too far right.

    Rule: (1) the bound MAX_LABEL_COLUMN exists and four times its value (a tab is rendered four columns wide) fits a 16-bit
    width; (2) a guard function of the error module compares a column with that constant; (3) the conversion calls the
    guard, every SourceSpan it builds (in itself or in a closure created there) comes after that call, and the removal of
    the span (`val.span.take()`) is conditional on it."""
    from kq.core import callee_name, const_def, is_const
    res = RuleResult("R-LABEL-COLUMN", "a label is only rendered when its column is bounded (the report renderer's format width is 16 bits)", floor=1)
    ERRMOD = "kanata_parser::cfg::error::"
    cname = ERRMOD + "MAX_LABEL_COLUMN"
    c = prog.consts.get(cname)
    okc = c is not None and isinstance(c.get("v"), int) and 0 < c["v"] * 4 < 65536
    res.inst("bound", where="parser/src/cfg/error.rs", value=(c or {}).get("v"), ok=okc)
    res.oblige(okc)
    if not okc:
        res.viol("bound", "parser/src/cfg/error.rs",
                 "the column bound MAX_LABEL_COLUMN is missing or too large (%s): with a tab rendered as four columns the padding width "
                 "handed to format! must stay below 65536, or rendering the diagnostic panics" % ((c or {}).get("v"),))
    guards = []
    for g in prog.fns.values():
        if g.crate != "kanata_parser" or not g.file.endswith("cfg/error.rs") or g.kind == "closure":
            continue
        n = 0
        for h in [g] + list(prog.closures_of(g)):
            for bi, si, st in h.all_rvalues():
                rv = st["rv"]
                if rv["k"] == "bin" and rv["op"] in ("Le", "Lt", "Gt", "Ge") and any(is_const(o) and (const_def(o) or "") == cname for o in (rv["a"], rv["b"])):
                    n += 1
        if n:
            guards.append((g, n))
    okg = bool(guards)
    res.inst("guard", where=guards[0][0].loc if guards else "parser/src/cfg/error.rs", functions=[g.norm.split("::")[-1] for g, _ in guards],
             comparisons=sum(n for _, n in guards), ok=okg)
    res.oblige(okg)
    if not okg:
        res.viol("guard", "parser/src/cfg/error.rs", "no function of the error module compares a column with MAX_LABEL_COLUMN")
        return res
    convs = [f for f in prog.fns.values() if f.crate == "kanata_parser" and f.kind != "closure" and f.norm.endswith("::from")
             and "ParseError" in f.norm and "miette" in f.norm]
    if not convs:
        res.viol("anchor/conversion", "parser/src/cfg/error.rs", "the conversion ParseError -> miette::Error was not found")
        return res
    f = convs[0]
    res.fn(f)
    gnames = {g.norm for g, _ in guards}
    from kq.analysis import calls_incl_closures
    gcalls = calls_incl_closures(prog, f, lambda t: (callee_name(t) or "") in gnames and (callee_name(t) or "") != f.norm)
    if f.norm in gnames:
        # the guard was written into the conversion itself (or is a helper analysed inlined): the comparisons are the guard
        def _cmp_here(h):
            return [bi for bi, si, st in h.all_rvalues() if st["rv"]["k"] == "bin" and st["rv"]["op"] in ("Le", "Lt", "Gt", "Ge")
                    and any(is_const(o) and (const_def(o) or "") == cname for o in (st["rv"]["a"], st["rv"]["b"]))]
        gcalls = gcalls + [(bi, None) for bi in _cmp_here(f)]
        clos_with_cmp = {c.norm for c in prog.closures_of(f) if _cmp_here(c)}
        if clos_with_cmp:
            from kq.core import Resolver, norm_name
            for bi, t in f.calls():
                for a in t["args"]:
                    r = Resolver(f).root(a) if isinstance(a, dict) and "l" in a else ("?",)
                    if r[0] == "agg" and norm_name(r[1][2].get("clo", "")) in clos_with_cmp:
                        gcalls.append((bi, t))
    okcall = bool(gcalls)
    spans_ok, n_spans = True, 0
    for bi, t in calls_incl_closures(prog, f, lambda t: (callee_name(t) or "").endswith("SourceSpan::new")):
        n_spans += 1
        if not any(f.dominates(gb, bi) and gb != bi for gb, _ in gcalls):
            spans_ok = False
    takes = [bi for bi, t in f.calls() if (callee_name(t) or "") in ("core::option::Option::take", "core::mem::take")]
    pd = f.postdominators()
    cond_take = any(any(f.dominates(gb, tb) and not f.postdominates(tb, gb, pd) for gb, _ in gcalls) for tb in takes)
    if not cond_take and gcalls:
        # or no `take()` at all: the labelled span is built only on a branch that the guard's answer selects
        # (`match span { Some(s) if too_far_right(&s) => without_snippet(..), Some(s) => with_snippet(s, ..), None => .. }`)
        from kq.analysis import control_deps
        from kq.core import rvalue_operands, is_place
        gblocks = {gb for gb, _ in gcalls}

        def decided_by_guard(block):
            seenb, work = set(), [block]
            while work:
                b = work.pop()
                if b in seenb:
                    continue
                seenb.add(b)
                for S in control_deps(f, b, pd):
                    op = f.term(S).get("d")
                    seenl, ow = set(), [op]
                    while ow:
                        o = ow.pop()
                        if not is_place(o) or o["l"] in seenl:
                            continue
                        seenl.add(o["l"])
                        for (db, di, kind, payload) in f.defs().get(o["l"], []):
                            if db in gblocks:
                                return True
                            if kind == "assign":
                                ow.extend(rvalue_operands(payload))
                            elif kind == "call":
                                ow.extend(payload["args"])
                    work.append(S)
            return False
        span_blocks = [bi for bi, t in calls_incl_closures(prog, f, lambda t: (callee_name(t) or "").endswith("SourceSpan::new"))]
        cond_take = bool(span_blocks) and all(decided_by_guard(b) for b in span_blocks)
    ok = okcall and spans_ok and n_spans >= 1 and cond_take
    res.inst("conversion", where=f.loc, guard_calls=len(gcalls), labelled_spans=n_spans, spans_after_guard=spans_ok, span_dropped_conditionally=cond_take, ok=ok)
    res.oblige(ok)
    if not ok:
        res.viol("conversion", f.loc,
                 "the conversion ParseError -> miette::Error builds the labelled span without first testing its column against "
                 "MAX_LABEL_COLUMN and dropping the span when it lies beyond (guard calls: %d, spans built after the guard: %s, span "
                 "removed conditionally: %s): an error located right of column 65535 makes the report renderer panic instead of "
                 "printing the diagnostic" % (len(gcalls), spans_ok, cond_take))
    return res
