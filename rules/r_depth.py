"""R-DEPTH (C03): the parser's recursion depth is bounded by explicit guards, not by the good will of the input.

R-REC shows that every recursion in the parser descends into a finite structure, i.e. terminates. That is not
enough for "never overflows the stack": the structure can be arbitrarily deep (thousands of nested parentheses,
a chain of variables each wrapping the previous one, a template that expands to itself one level deeper each
time). The repaired parser bounds the depth at four places; this rule checks that each bound is still in force.

 1. reader        parse_with: the push that opens a new list is dominated by a comparison of the length of the
                  open-list stack with a constant whose other outcome leaves with an error.
 2. actions       every cycle of the call graph among the action parsers passes through a closure handed to
                  `parse_nested` (the function that counts the nesting and bails out above a constant): with
                  those closures removed, the strongly connected component of parse_action is acyclic.
                  parse_nested itself compares the counter with a constant before it calls the closure.
 3. templates     deftemplate::expand: its recursive call passes `nesting + 1`, and the function compares
                  `nesting` with a constant on entry and bails out; every push of a replacement is dominated by
                  a `checked_sub` on the expression budget whose None outcome bails out.
 4. variables     check_vars_are_not_cyclic compares the length of a chain of references and the list nesting of
                  a variable's *resolved* value with a constant and bails out (parse_vars hands the table out only
                  after that check: R-REC).
 6. size          every parsed action, and at an `@alias` reference the alias's whole action again, is charged to a
                  bounded budget (a function that adds its parameter to a Cell counter, compares with a constant and bails).
 5. aliases       an `@alias` reference adds the recorded nesting of the alias's action to the current counter and
                  compares the sum with a constant (the action of an alias is spliced in without being parsed again).

The other recursive walkers of the parser (SExpr visitors, Action visitors) inherit their depth bound from 1-3:
expressions are at most 128 + 128 deep, actions at most 128 (aliases included)."""
from collections import defaultdict

from kq.core import Resolver, callee_name, is_const, is_place, norm_name, proj
from kq.gf2 import root_desc
from kq.report import RuleResult
from rules.r_rec import sccs

KP = "kanata_parser::cfg::"
ACTION_ROOTS = (KP + "parse_action", KP + "parse_macro_item")


def _cmp_with_const(f, bb, want_operand=None):
    """switch at the end of `bb` on a comparison one side of which is a constant (or named constant); returns
    (op, other operand) or None"""
    t = f.term(bb)
    if t["k"] != "switch" or not is_place(t["d"]) or proj(t["d"]):
        return None
    d = f.single_def(t["d"]["l"])
    if not d or d[2] != "assign" or d[3]["k"] != "bin" or d[3]["op"] not in ("Lt", "Le", "Gt", "Ge"):
        return None
    a, b = d[3]["a"], d[3]["b"]
    if is_const(b) and is_place(a):
        return d[3]["op"], a
    if is_const(a) and is_place(b):
        return d[3]["op"], b
    return None


def _reaches_err_return(f, start, avoid):
    """some block reachable from `start` (not through `avoid`) builds Result::Err / calls from_residual into _0"""
    for b in f.reach_from(start, avoid=avoid):
        for st in f.stmts(b):
            if st["k"] == "assign" and st["rv"]["k"] == "agg" and st["rv"].get("adt") == "core::result::Result" and st["rv"].get("v") == "Err":
                return True
        t = f.term(b)
        if t["k"] == "call" and (callee_name(t) or "").endswith("::from_residual"):
            return True
    return False


def _guard_before(f, site_bb, is_counter):
    """a block dominating `site_bb` that switches on (counter CMP const) with one outcome leaving with Err
    without reaching the site"""
    for b in sorted(f.reachable()):
        if b == site_bb or not f.dominates(b, site_bb):
            continue
        c = _cmp_with_const(f, b)
        if c is None or not is_counter(c[1]):
            continue
        succs = [s for s in f.succs(b) if not f.is_cleanup(s)]
        for s in succs:
            if site_bb not in f.reach_from(s) and _reaches_err_return(f, s, avoid=[site_bb]):
                return b
    return None


def _derives_from_call(f, op, names, depth=0):
    """operand is (a copy / cast of) the result of a call whose short name is in `names`; returns the call terminator"""
    if depth > 6 or not is_place(op) or proj(op):
        return None
    d = f.single_def(op["l"])
    if d is None:
        return None
    if d[2] == "call":
        return d[3] if (callee_name(d[3]) or "").split("::")[-1] in names else None
    if d[2] == "assign" and d[3]["k"] in ("use", "cast") and is_place(d[3]["a"]):
        return _derives_from_call(f, d[3]["a"], names, depth + 1)
    return None


def _is_copy_of_param(f, op, n, depth=0):
    if depth > 6 or not is_place(op) or proj(op):
        return False
    if op["l"] == n:
        return True
    d = f.single_def(op["l"])
    return bool(d and d[2] == "assign" and d[3]["k"] == "use" and is_place(d[3]["a"]) and _is_copy_of_param(f, d[3]["a"], n, depth + 1))


def run(prog):
    res = RuleResult("R-DEPTH", "the parser's recursion depth is bounded by explicit guards (reader, actions, templates, variables)", floor=6)

    # ---- 1. reader
    f = prog.fn_opt(KP + "sexpr::parse_with")
    if f is None:
        res.viol("reader/anchor", "parser/src/cfg/sexpr.rs", "parse_with not found")
    else:
        res.fn(f)
        pushes = []
        for bi, t in f.calls():
            if (callee_name(t) or "").endswith("Vec::<T, A>::push") or (callee_name(t) or "").endswith("::push"):
                recv = t["args"][0] if t["args"] else None
                d = root_desc(f, recv) if recv is not None and is_place(recv) else None
                if d and "." not in d and "[" not in d and (f.local_name(int(d[1:])) if d[1:].isdigit() else None) == "stack":
                    pushes.append((bi, t, d))
        ok_all = bool(pushes)
        for bi, t, d in pushes:
            def is_len_of_stack(op, d=d):
                c = _derives_from_call(f, op, ("len",))
                return c is not None and c["args"] and root_desc(f, c["args"][0]) == d
            g = _guard_before(f, bi, is_len_of_stack)
            ok = g is not None
            ok_all = ok_all and ok
            key = "reader/push-guarded"
            res.inst(key, where="%s:%s" % (f.file, t.get("ln")), guard_block=g, ok=ok)
            res.oblige(ok)
            if not ok:
                res.viol(key, "%s:%s" % (f.file, t.get("ln")),
                         "a list is opened (pushed on the stack of open lists) without a preceding comparison of the stack depth with a "
                         "constant that leaves with an error: the nesting of the parsed expressions, and with it the recursion depth of "
                         "everything that walks them, is unbounded")
        if not pushes:
            res.viol("reader/anchor", "%s" % f.file, "no push onto the open-list stack found in parse_with")

    # ---- 2. actions
    cg = prog.callgraph()
    # nesting counters are recognised by their shape, not by name: a parser function that calls a closure it
    # received as a parameter, after comparing a Cell counter (`.get()`) with a constant and bailing out
    guards = {}
    for g in prog.fns.values():
        if g.crate != "kanata_parser" or g.derive or g.parent:
            continue
        sites = [(bi, t) for bi, t in g.calls()
                 if (callee_name(t) or "").split("::")[-1] in ("call_once", "call_mut", "call") and t["args"]
                 and any(_is_copy_of_param(g, t["args"][0], p) for p in range(1, g.nargs + 1))]
        if sites and all(_guard_before(g, bi, lambda op, g=g: _derives_from_call(g, op, ("get",)) is not None) is not None for bi, t in sites):
            guards[g.norm] = g
    for n, g in sorted(guards.items()):
        res.fn(g)
        res.inst("actions/counter-compared|" + n.split("::")[-1], where=g.loc, ok=True)
        res.oblige(True)
    guarded = set()
    for n in guards:
        for (cf, bi, t) in prog.call_sites(n):
            for a in t["args"]:
                if is_place(a):
                    r = Resolver(cf).root(a)
                    if r[0] == "agg" and "clo" in r[1][2]:
                        guarded.add(norm_name(r[1][2]["clo"]))
    reach = prog.reachable_from(list(ACTION_ROOTS))
    nodes = sorted(n for n in reach if n.startswith("kanata_parser"))
    comps = sccs(nodes, lambda n: [m for m in cg.get(n, ()) if m in reach and m.startswith("kanata_parser")])
    big = [c for c in comps if any(r in c for r in ACTION_ROOTS)]
    res.notes.append("nesting counters: %s; closures run under them: %s" % (sorted(guards), sorted(guarded)))
    if not big:
        res.viol("actions/anchor", "parser/src/cfg/mod.rs", "parse_action / parse_macro_item are not in a recursive component of the call graph")
    for comp in big:
        comp = set(comp)
        rest = sorted(comp - guarded)
        sub = sccs(rest, lambda n: [m for m in cg.get(n, ()) if m in comp and m not in guarded])
        cyc = [c for c in sub if len(c) > 1 or (len(c) == 1 and c[0] in cg.get(c[0], ()))]
        ok = not cyc
        res.inst("actions/every-cycle-counted", where="parser/src/cfg/mod.rs", component=len(comp), cut=len(guarded & comp), ok=ok)
        res.oblige(ok)
        for c in cyc:
            names = sorted(c)
            res.viol("actions/every-cycle-counted|" + names[0].split("::")[-1], "parser/src/cfg/mod.rs",
                     "the action parsers %s call each other recursively without passing through a nesting counter (a function that "
                     "compares a counter with a constant before running the nested parser it was given): a chain of variables or nested "
                     "lists can make this cycle overflow the stack" % ", ".join(n.split("::")[-1] for n in names[:6]))

    # ---- 3. templates
    f = prog.fn_opt(KP + "deftemplate::expand")
    if f is None:
        res.viol("templates/anchor", "parser/src/cfg/deftemplate.rs", "deftemplate::expand not found")
    else:
        res.fn(f)
        rec = [(bi, t) for bi, t in f.calls() if norm_name(callee_name(t) or "") == f.norm]
        depth_param = None
        ok = bool(rec)
        for bi, t in rec:
            found = None
            for i, a in enumerate(t["args"]):
                if not is_place(a) or proj(a):
                    continue
                d = f.single_def(a["l"])
                # nesting + 1 : `_x = (AddWithOverflow(param, 1)).0`
                if d and d[2] == "assign" and d[3]["k"] == "use" and is_place(d[3]["a"]) and proj(d[3]["a"]):
                    dd = f.single_def(d[3]["a"]["l"])
                    if dd and dd[2] == "assign" and dd[3]["k"] == "bin" and dd[3]["op"].startswith("Add") and is_const(dd[3]["b"]) \
                            and dd[3]["b"]["c"].get("v", 0) >= 1 and is_place(dd[3]["a"]):
                        for p in range(1, f.nargs + 1):
                            if _is_copy_of_param(f, dd[3]["a"], p) and p == i + 1:
                                found = p
            ok = ok and found is not None
            depth_param = depth_param or found
        gb = None
        if ok and depth_param:
            for bi, t in rec:
                gb = _guard_before(f, bi, lambda op: _is_copy_of_param(f, op, depth_param))
                ok = ok and gb is not None
        res.inst("templates/recursion-counted", where=f.loc, recursive_calls=len(rec), depth_param=depth_param, ok=ok)
        res.oblige(ok)
        if not ok:
            res.viol("templates/recursion-counted", f.loc,
                     "deftemplate::expand recurses into nested lists without passing `nesting + 1` and comparing `nesting` with a constant "
                     "on the way: a template that expands to itself one level deeper each time overflows the stack")
        # budget: every push onto `replacements` is dominated by a checked_sub whose None outcome bails out
        pushes = [(bi, t) for bi, t in f.calls() if (callee_name(t) or "").endswith("::push") and t["args"] and is_place(t["args"][0])
                  and (lambda d: d and d[1:].isdigit() and f.local_name(int(d[1:])) == "replacements")(root_desc(f, t["args"][0]))]
        okb = bool(pushes)
        for bi, t in pushes:
            dom = False
            for b2, t2 in f.calls():
                if (callee_name(t2) or "").split("::")[-1] == "checked_sub" and f.dominates(b2, bi):
                    # the None outcome leaves with an error
                    nb = t2.get("t")
                    if nb is not None:
                        for b3 in f.reach_from(nb, avoid=[bi]):
                            tt = f.term(b3)
                            if tt["k"] == "switch" and is_place(tt["d"]):
                                dd = f.single_def(tt["d"]["l"]) if not proj(tt["d"]) else None
                                if dd and dd[2] == "assign" and dd[3]["k"] == "discr" and dd[3]["p"]["l"] == t2["dest"]["l"]:
                                    for s in f.succs(b3):
                                        if bi not in f.reach_from(s) and _reaches_err_return(f, s, avoid=[bi]):
                                            dom = True
            okb = okb and dom
        res.inst("templates/size-budget", where=f.loc, pushes=len(pushes), ok=okb)
        res.oblige(okb)
        if not okb:
            res.viol("templates/size-budget", f.loc,
                     "an expansion is recorded without first charging its size to the expression budget (checked_sub, bailing out on None): "
                     "a template that multiplies or enlarges its own expansions runs out of time or memory")

    # ---- 4. variables
    f = prog.fn_opt(KP + "check_vars_are_not_cyclic")
    if f is None:
        res.viol("variables/anchor", "parser/src/cfg/mod.rs", "check_vars_are_not_cyclic not found")
    else:
        res.fn(f)
        n_cmp, n_big = 0, 0
        for b in sorted(f.reachable()):
            c = _cmp_with_const(f, b)
            if c is None:
                continue
            succs = [s_ for s_ in f.succs(b) if not f.is_cleanup(s_)]
            if any(_reaches_err_return(f, s_, avoid=[o for o in succs if o != s_]) and all(o not in f.reach_from(s_, avoid=[o for o in succs if o != s_]) for o in succs if o != s_) for s_ in succs):
                # the limit compared with: a depth (small) or a size (large)
                from kq.core import const_val as _cv
                d_ = f.single_def(f.term(b)["d"]["l"])
                lim = max([_cv(o) or 0 for o in (d_[3]["a"], d_[3]["b"]) if is_const(o)] or [0])
                if lim >= 10000:
                    n_big += 1
                else:
                    n_cmp += 1
        ok3 = n_big >= 1
        res.inst("variables/size-compared", where=f.loc, size_tests=n_big, ok=ok3)
        res.oblige(ok3)
        if not ok3:
            res.viol("variables/size-compared", f.loc,
                     "the variable table check compares the reference-chain length and the nesting of the resolved value with limits, but "
                     "not its size (%d tests against a size limit): variables that each use the previous one twice double the resolved value at "
                     "every link, and a 1 kB configuration makes the loader allocate until the process is killed" % n_big)
        # .. and concat, which resolves eagerly while the table is being built, stops at a limit too
        pa = prog.fn_opt(KP + "push_all_atoms")
        okp = False
        if pa is not None:
            res.fn(pa)
            for b in sorted(pa.reachable()):
                c = _cmp_with_const(pa, b)
                if c is None:
                    continue
                succs = [s_ for s_ in pa.succs(b) if not pa.is_cleanup(s_)]
                if any(_reaches_err_return(pa, s_, avoid=[o for o in succs if o != s_]) for s_ in succs):
                    okp = True
        res.inst("variables/concat-bounded", where=pa.loc if pa is not None else "parser/src/cfg/mod.rs", ok=okp)
        res.oblige(okp)
        if not okp:
            res.viol("variables/concat-bounded", pa.loc if pa is not None else "parser/src/cfg/mod.rs",
                     "push_all_atoms (the eager evaluation of `concat` in defvar) builds its result without comparing its length with a "
                     "limit: `(concat $v $v)` chains double the text at every variable")
        ok2 = n_cmp >= 2
        res.inst("variables/chain-and-nesting-compared", where=f.loc, bound_tests=n_cmp, ok=ok2)
        res.oblige(ok2)
        if not ok2:
            res.viol("variables/chain-and-nesting-compared", f.loc,
                     "check_vars_are_not_cyclic has fewer than two bound tests that leave with an error (length of a chain of references, "
                     "list nesting of the resolved value): resolving a variable recurses once per link of the chain, and the walkers "
                     "that resolve variables (push-msg, cmd, concat) once per level of that nesting")
    # ---- 4b. variables: a reference back to a variable that is still being visited is an error
    f4 = prog.fn_opt(KP + "check_vars_are_not_cyclic")
    if f4 is not None:
        from kq.analysis import discr_switches
        okc = False
        for sw in discr_switches(prog, f4):
            # the visit-state enum of the walk (named Visit on the reviewed tree): an enum of the parser with an InProgress variant
            if not (sw.adt or "").startswith("kanata_parser::") or "InProgress" not in sw.arms:
                continue
            tgt = sw.arms["InProgress"]
            others = [b for v, b in sw.arms.items() if v != "InProgress"] + ([sw.otherwise] if sw.otherwise is not None else [])
            if _reaches_err_return(f4, tgt, avoid=others):
                okc = True
        res.inst("variables/cycle-detected", where=f4.loc, ok=okc)
        res.oblige(okc)
        if not okc:
            res.viol("variables/cycle-detected", f4.loc,
                     "check_vars_are_not_cyclic no longer leaves with an error when the walk over the references comes back to a variable "
                     "that is still being visited: a variable that refers to itself is accepted, and resolving it recurses for ever")

    # ---- 5. aliases: a reference adds the nesting of the alias's action
    f = prog.fn_opt(KP + "parse_action_atom")
    if f is None:
        res.viol("aliases/anchor", "parser/src/cfg/mod.rs", "parse_action_atom not found")
    else:
        res.fn(f)
        ok = False
        for b in sorted(f.reachable()):
            c = _cmp_with_const(f, b)
            if c is None:
                continue
            add = _derives_from_call(f, c[1], ("saturating_add", "checked_add", "wrapping_add"))
            if add is None or not add["args"] or _derives_from_call(f, add["args"][0], ("get",)) is None:
                continue
            succs = [s_ for s_ in f.succs(b) if not f.is_cleanup(s_)]
            for s_ in succs:
                others = [o for o in succs if o != s_]
                if _reaches_err_return(f, s_, avoid=others) and all(o not in f.reach_from(s_, avoid=others) for o in others):
                    ok = True
        res.inst("aliases/reference-adds-nesting", where=f.loc, ok=ok)
        res.oblige(ok)
        if not ok:
            res.viol("aliases/reference-adds-nesting", f.loc,
                     "an `@alias` reference no longer adds the nesting of the alias's action to the current nesting counter and compares "
                     "the sum with a constant: the action of an alias is spliced in as it is, so chains of aliases build action trees of "
                     "unbounded depth (stack overflow in the chord-resolution pass or in do_action)")
        # 5c: the sum that is compared with the limit is also what raises the recorded maximum (`max.set(max.get().max(sum))`):
        # recording only the alias's own nesting loses the levels around the reference, so the nesting of an alias that uses
        # an alias stops growing along the chain and every single use stays under the limit
        sums = []
        for b in sorted(f.reachable()):
            c = _cmp_with_const(f, b)
            if c is not None:
                add = _derives_from_call(f, c[1], ("saturating_add", "checked_add", "wrapping_add"))
                if add is not None and add["args"] and _derives_from_call(f, add["args"][0], ("get",)) is not None:
                    sums.append(add)
        okm, nmax = False, 0
        for bi, t in f.calls():
            if (callee_name(t) or "").split("::")[-1] != "max" or len(t["args"]) < 2:
                continue
            # .. whose result goes into a Cell::set
            used_in_set = any((callee_name(t2) or "").split("::")[-1] == "set" and len(t2["args"]) > 1 and
                              _derives_from_call(f, t2["args"][1], ("max",)) is t for _, t2 in f.calls())
            if not used_in_set:
                continue
            nmax += 1
            src = _derives_from_call(f, t["args"][1], ("saturating_add", "checked_add", "wrapping_add"))
            if src is not None and any(src is a for a in sums):
                okm = True
        res.inst("aliases/recorded-maximum-is-the-sum", where=f.loc, sums=len(sums), max_updates=nmax, ok=okm)
        res.oblige(okm)
        if not okm:
            res.viol("aliases/recorded-maximum-is-the-sum", f.loc,
                     "at an `@alias` reference the recorded maximum nesting is not raised to the sum (current nesting + the alias's nesting) "
                     "that was just compared with the limit: the nesting recorded for an alias that refers to another alias leaves out the "
                     "levels around the reference, so it stops accumulating along a chain of aliases and actions of unbounded depth are "
                     "accepted (stack overflow in create_key_outputs / do_action)")
    # 5b: the nesting recorded for an alias is read from the counter that was reset before the alias's action was parsed
    g5 = prog.fn_opt(KP + "read_alias_name_action_pairs")
    if g5 is None:
        res.viol("aliases/recorded-from-reset-counter|anchor", "parser/src/cfg/mod.rs", "read_alias_name_action_pairs not found")
    else:
        res.fn(g5)
        R5 = Resolver(g5)
        parse_calls = [bi for bi, t in g5.calls() if norm_name(callee_name(t) or "") == KP + "parse_action"]
        reset = set()
        for bi, t in g5.calls():
            if (callee_name(t) or "").split("::")[-1] == "set" and len(t["args"]) > 1 and is_const(t["args"][1]) and \
                    any(g5.dominates(bi, pc) for pc in parse_calls):
                r = R5.root(t["args"][0])
                reset |= {x[2] for x in r[2][-1:]}
        rec = None
        for bi, t in g5.calls():
            if (callee_name(t) or "").split("::")[-1] == "insert" and len(t["args"]) > 2 and (root_desc(g5, t["args"][0]) or "").endswith(".alias_nesting"):
                d = g5.single_def(t["args"][2]["l"]) if is_place(t["args"][2]) and not proj(t["args"][2]) else None
                if d and d[2] == "assign" and d[3]["k"] == "agg" and d[3].get("tup") and d[3]["ops"]:
                    get = _derives_from_call(g5, d[3]["ops"][0], ("get",))
                    if get is not None and get["args"]:
                        r = R5.root(get["args"][0])
                        rec = [x[2] for x in r[2][-1:]]
        ok5 = bool(rec) and bool(reset) and rec[0] in reset
        res.inst("aliases/recorded-from-reset-counter", where=g5.loc, recorded_from=rec, reset_before_parse=sorted(reset), ok=ok5)
        res.oblige(ok5)
        if not ok5:
            res.viol("aliases/recorded-from-reset-counter", g5.loc,
                     "the nesting recorded for an alias is read from %s, but the counter that is reset before the alias's action is parsed "
                     "(and therefore holds the maximum nesting reached inside it) is %s: every alias is recorded with a stale / zero "
                     "nesting, references to it add nothing, and chains of aliases nest without bound"
                     % (rec or "something that is not a counter", sorted(reset) or "none"))
    # ---- 6. size: the tree of actions (aliases counted at every use) is bounded
    counters = []
    for g in prog.fns.values():
        if g.crate != "kanata_parser" or g.derive or g.parent:
            continue
        sets = [bi for bi, t in g.calls() if (callee_name(t) or "").endswith("Cell::<T>::set") or (callee_name(t) or "").split("::")[-1] == "set"]
        if not sets:
            continue
        for b in sorted(g.reachable()):
            c = _cmp_with_const(g, b)
            if c is None:
                continue
            add = _derives_from_call(g, c[1], ("saturating_add", "checked_add"))
            if add is None or not add["args"] or _derives_from_call(g, add["args"][0], ("get",)) is None:
                continue
            # the added amount is a parameter (a size), not the constant 1 of a depth counter
            if not any(_is_copy_of_param(g, add["args"][1], p_) for p_ in range(1, g.nargs + 1)):
                continue
            succs = [s_ for s_ in g.succs(b) if not g.is_cleanup(s_)]
            if any(_reaches_err_return(g, s_, avoid=[o for o in succs if o != s_]) for s_ in succs):
                counters.append(g)
                break
    users = set()
    for g in counters:
        for (cf, bi, t) in prog.call_sites(g.norm):
            users.add(norm_name(cf.norm))
    need = {"parse_nested": any(n.endswith("::parse_nested") or n in {x for x in guards} for n in users) if False else any(n in guards for n in users),
            "parse_action_atom": (KP + "parse_action_atom") in users}
    ok = bool(counters) and all(need.values())
    res.inst("actions/size-budget", where="parser/src/cfg/mod.rs", counters=[g.norm.split("::")[-1] for g in counters], charged_in=sorted(k for k, v in need.items() if v), ok=ok)
    res.oblige(ok)
    if not ok:
        res.viol("actions/size-budget", "parser/src/cfg/mod.rs",
                 "the number of actions is not charged to a bounded budget in the nesting counter (every parsed action) and at `@alias` "
                 "references (the alias's whole action again): aliases share actions, so a few dozen aliases that each use the previous "
                 "one twice describe a tree of 2^n actions that the post-parse passes walk node by node")

    # ---- 6b. an action that an any-key entry of a deflayermap puts into many positions is charged per position
    pl = prog.fn_opt(KP + "parse_layers")
    if pl is not None:
        res.fn(pl)
        okl = False
        cn_ = {c.norm for c in counters}
        for bi, t in pl.calls():
            if norm_name(callee_name(t) or "") in cn_ and len(t["args"]) > 2:
                if _derives_from_call(pl, t["args"][2], ("saturating_mul", "checked_mul")) is not None:
                    okl = True
        res.inst("actions/any-key-charged-per-position", where=pl.loc, ok=okl)
        res.oblige(okl)
        if not okl:
            res.viol("actions/any-key-charged-per-position", pl.loc,
                     "parse_layers does not charge the action of a deflayermap any-key entry (`_`, `__`, `___`) to the action budget once per "
                     "position it fills (count_actions with a product): the action is counted once and stored in up to 767 positions, "
                     "which the passes after parsing walk one by one - the budget no longer bounds their work")
    # ---- 7. an action that is stored twice in its parent is charged twice
    # (aliases share actions: `hold` and `timeout_action` of a tap-hold without an explicit timeout action are the same
    #  parsed action, so a chain of aliases through it doubles the tree per level while the plain count grows by one)
    def origin(g, op):
        """the call (block) whose result `op` is, looking through `?`"""
        R = Resolver(g)
        for _ in range(4):
            r = R.root(op)
            if r[0] != "call":
                return None
            t = r[1][1]
            cn = callee_name(t) or ""
            if cn.endswith("Try>::branch") or cn.split("::")[-1] in ("unwrap", "expect", "clone", "deref"):
                if not t["args"]:
                    return None
                op = t["args"][0]
                continue
            return (r[1][0], cn)
        return None
    n_twice = 0
    for g in sorted(prog.fns.values(), key=lambda x: x.norm):
        if g.crate != "kanata_parser" or g.derive:
            continue
        for bi, si, st in g.all_rvalues():
            rv = st["rv"]
            if rv["k"] != "agg" or not (rv.get("adt") or "").startswith("kanata_keyberon::action::") or len(rv.get("ops") or []) < 2:
                continue
            seen = {}
            for i, op in enumerate(rv["ops"]):
                o = origin(g, op)
                if o is None:
                    continue
                cal = prog.fn_opt(norm_name(o[1]))
                if cal is None or "Action<" not in (cal.ret_ty if hasattr(cal, "ret_ty") else (cal.local_ty(0) or "")):
                    continue
                seen.setdefault(o, []).append(i)
            for o, idxs in seen.items():
                if len(idxs) < 2:
                    continue
                n_twice += 1
                short = o[1].split("::")[-1]
                # charged twice = parsed by a function that parses the action and then charges the counter for what was parsed
                cnorms = {c.norm for c in counters}
                cal = prog.fn_opt(norm_name(o[1]))
                callees = {norm_name(callee_name(t2) or "") for _, t2 in cal.calls()}
                okd = bool(callees & cnorms) and any(
                    (lambda h: h is not None and "Action<" in (h.local_ty(0) or ""))(prog.fn_opt(c)) for c in callees - cnorms)
                key = "actions/stored-twice-charged-twice|%s" % g.norm.split("::")[-1]
                res.inst(key, where="%s:%s" % (g.file, g.line_of(bi, si)), parsed_by=short, ok=okd)
                res.oblige(okd)
                if not okd:
                    res.viol(key, "%s:%s" % (g.file, g.line_of(bi, si)),
                             "%s stores the action parsed by %s in two fields of %s, but the action is charged to the action budget only "
                             "once (it is not parsed with parse_hold_action_also_used_on_timeout). Aliases share actions: a chain of ~40 "
                             "aliases through this parameter describes a tree of 2^40 actions whose count grows by one per alias, so "
                             "the limit never triggers and the passes that walk the tree after parsing do not terminate"
                             % (g.norm.split("::")[-1], short, rv["adt"].split("::")[-1]))
    if n_twice < 2:
        res.viol("actions/stored-twice-charged-twice|anchor", "parser/src/cfg/mod.rs",
                 "the tap-hold parsers that store the hold action twice (hold, timeout_action) were not found (%d)" % n_twice)
    return res
