"""R-CANCEL (C01, C08): every place that clears the running macros also removes the fake keys the
macros were holding (sibling agreement between the cancel sites)."""
from kq.analysis import discr_switches
from kq.core import Resolver, callee_name, const_val, is_const, norm_name, proj
from kq.report import RuleResult
from rules.r_doaction import receiver_fields

STATE = "kanata_keyberon::layout::State"


def closure_arg(prog, f, operand):
    r = Resolver(f).root(operand)
    if r[0] == "agg" and "clo" in r[1][2]:
        return prog.fn_opt(norm_name(r[1][2]["clo"]))
    return None


def closure_false_variants(prog, c):
    """State variants for which a retain-closure may return false (i.e. removes the element)"""
    out = set()
    sws = discr_switches(prog, c, STATE)
    # a closure that delegates to State::seq_release removes FakeKey by definition of that method
    for bi, t in c.calls():
        if callee_name(t) == "kanata_keyberon::layout::State::seq_release":
            out.add("FakeKey")
    for sw in sws[:1]:
        for v in sw.all_variants:
            for b in sw.arm_reach(v):
                for st in c.stmts(b):
                    if st["k"] == "assign" and st["p"]["l"] == 0 and not proj(st["p"]):
                        rv = st["rv"]
                        if rv["k"] == "use" and is_const(rv["a"]) and const_val(rv["a"]) == 0:
                            out.add(v)
                        if rv["k"] == "un" and rv["op"] == "Not":
                            # `!matches!(..)`: false when the matches! temp is true — find arms setting the temp true
                            src = rv["a"]
                            for b2 in sw.arm_reach(v):
                                for st2 in c.stmts(b2):
                                    if st2["k"] == "assign" and st2["p"]["l"] == src.get("l") and st2["rv"]["k"] == "use" \
                                            and is_const(st2["rv"]["a"]) and const_val(st2["rv"]["a"]) == 1 and b2 in sw.arm_region(v):
                                        out.add(v)
    return out


def run(prog):
    res = RuleResult("R-CANCEL", "clearing the running macros is always followed by removing the macro-held fake keys", floor=3)
    n = 0
    for f in list(prog.fns.values()):
        if not f.crate.startswith("kanata"):
            continue
        for bi, t in f.calls():
            if not (callee_name(t) or "").endswith("ArrayDeque::clear"):
                continue
            fl = receiver_fields(f, t)
            if not fl or fl[-1] != "active_sequences":
                continue
            n += 1
            res.fn(f)
            after = f.reach_from(t["t"]) if t["t"] is not None else set()
            found = []
            for b2, t2 in f.calls():
                if b2 in after and (callee_name(t2) or "") in ("heapless::vec::Vec::retain", "alloc::vec::Vec::retain"):
                    fl2 = receiver_fields(f, t2)
                    if fl2 and fl2[-1] == "states" and len(t2["args"]) > 1:
                        c = closure_arg(prog, f, t2["args"][1])
                        if c is not None:
                            found.append((b2, sorted(closure_false_variants(prog, c))))
            ok = any("FakeKey" in vs for _, vs in found)
            key = "clear@%s" % f.norm
            res.inst(key, where="%s:%s" % (f.file, t.get("ln")), retains=[vs for _, vs in found])
            res.oblige(ok)
            if not ok:
                res.viol(key, "%s:%s" % (f.file, t.get("ln")),
                         "active_sequences.clear() in %s is not followed by a states.retain that removes State::FakeKey "
                         "(found retains removing %s): keys pressed by the cancelled macro stay down forever"
                         % (f.norm, [vs for _, vs in found]))
    return res


OWED = {"Custom": "its release runs the custom action's release handler (mouse button up, scroll / mouse-move stop, unmod key up)",
        "SeqCustomActive": "a macro's custom action was pressed and its release is sent on the next tick of the macro"}
RELEASE_FNS = ("kanata_keyberon::layout::State::release",)


def rule_owed(prog):
    """R-CANCEL-OWED (C01, C08): states that owe a release are never dropped wholesale.

    `State::Custom` and `State::SeqCustomActive` are the only record that a custom action is pressed; the release
    side effect happens when State::release turns them into a CustomEvent::Release. A `states.retain(..)` whose
    closure can return false for these variants without going through State::release forgets the release: the
    mouse button / scrolling / unmod key stays on. Every retain over Layout.states in the kanata crates is examined."""
    res = RuleResult("R-CANCEL-OWED", "no states.retain drops Custom / SeqCustomActive states without State::release", floor=10)
    for f in list(prog.fns.values()):
        if not f.crate.startswith("kanata") or f.derive:
            continue
        per = 0
        for bi, t in f.calls():
            if (callee_name(t) or "").split("::")[-1] not in ("retain", "retain_mut") or len(t["args"]) < 2:
                continue
            fl = receiver_fields(f, t)
            if not fl or fl[-1] != "states":
                continue
            c = closure_arg(prog, f, t["args"][1])
            key = "%s/retain%s" % (f.norm, "#%d" % per if per else "")
            per += 1
            res.fn(f)
            if c is None:
                res.inst(key, where="%s:%s" % (f.file, t.get("ln")), how="predicate is not a closure literal", ok=False)
                res.oblige(False)
                res.viol(key, "%s:%s" % (f.file, t.get("ln")), "states.retain with a predicate that is not a closure literal: cannot see which states it drops")
                continue
            via_release = any((callee_name(t2) or "") in RELEASE_FNS for _, t2 in c.calls())
            removed = sorted(closure_false_variants(prog, c))
            bad = [v for v in removed if v in OWED] if not via_release else []
            res.inst(key, where="%s:%s" % (f.file, t.get("ln")), removes=removed, via_state_release=via_release, ok=not bad)
            res.oblige(not bad)
            for v in bad:
                res.viol(key + "|" + v, "%s:%s" % (f.file, t.get("ln")),
                         "this states.retain drops State::%s without passing it through State::release: %s, so dropping the state "
                         "loses that release and the output stays on" % (v, OWED[v]))
    return res


def _applies_pred_to_element(prog, c, PRED, depth=0):
    """closure c applies a State release predicate to *its own element*: the receiver of the predicate call is derived from
    the closure's parameter (not from a captured variable), or a closure nested in c applies it to a value captured from c.
    `states.retain(|s| removed.all(|r| s.release_state(r).is_some()))`: the inner closure (given to all()) applies the
    predicate to the captured `s`, so it is the retain closure that applies it to its element."""
    from kq.core import Resolver
    for _, t2 in c.calls():
        if (callee_name(t2) or "") in PRED and t2["args"]:
            r = Resolver(c).root(t2["args"][0])
            if not (r[0] == "param" and r[1] == 1):      # parameter 1 of a closure is its environment (the captures)
                return True
    if depth < 2:
        for n in prog.closures_of(c, transitive=False):
            for _, t2 in n.calls():
                if (callee_name(t2) or "") in PRED and t2["args"]:
                    r = Resolver(n).root(t2["args"][0])
                    if r[0] == "param" and r[1] == 1:
                        return True
    return False


def rule_retain_all(prog):
    """R-RELEASE-ALL (C01, C04): a release predicate is applied to *every* state.

    State::release / release_state / seq_release answer "does this state survive the release". They are meant for
    `states.retain(..)`: all states that match are removed (the same key or layer can be held by two physical keys, a
    coordinate can own several states). Handing such a predicate to `position` / `find` / `any` and removing one element
    leaves the other matching states behind: the layer stays active, the key stays down."""
    res = RuleResult("R-RELEASE-ALL", "State release predicates are only used with retain (all matching states go)", floor=5)
    PRED = ("kanata_keyberon::layout::State::release", "kanata_keyberon::layout::State::release_state", "kanata_keyberon::layout::State::seq_release")
    for f in list(prog.fns.values()):
        if not f.crate.startswith("kanata") or f.derive:
            continue
        n = 0
        for bi, t in f.calls():
            for a in t["args"][1:]:
                c = closure_arg(prog, f, a) if isinstance(a, dict) and "l" in a else None
                if c is None or not _applies_pred_to_element(prog, c, PRED):
                    continue
                meth = (callee_name(t) or "").split("::")[-1]
                ok = meth in ("retain", "retain_mut")
                key = "%s/%s%s" % (f.norm, meth, "#%d" % n if n else "")
                n += 1
                res.fn(f)
                res.inst(key, where="%s:%s" % (f.file, t.get("ln")), ok=ok)
                res.oblige(ok)
                if not ok:
                    res.viol(key, "%s:%s" % (f.file, t.get("ln")),
                             "a State release predicate is passed to %s() instead of retain(): only the first matching state is dealt with, "
                             "further states that the same release should remove (the same layer or key held by a second physical key) "
                             "stay active" % meth)
    return res
