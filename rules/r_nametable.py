"""R-NAME-TABLE (C01, C18 and the parser in general): a keyword is not mapped to the enum variant that bears another
keyword's name.

The parser turns keywords into enum variants with `match s { "press" => FakeKeyAction::Press, "release" => .. }`.
In most of these tables the keyword *is* the variant's name (case and `-`/`_` aside). Where that holds for a table, an
entry that maps the keyword `release` to `Toggle` while a variant `Release` exists contradicts the table's own naming:
slow use may look the same (toggling a pressed key releases it), the difference shows when the key is not in the
state the author assumed - and then a balanced press/release pair latches a key.

Rule: for every comparison of a string with a literal L in the kanata crates whose true branch yields a variant V of a
kanata enum E: if normalise(L) is the name of a variant V' of E, then V' = V. Entries whose literal names no variant
of E are not judged. Instances = entries where literal and variant agree."""
import re

from kq.core import callee_name, is_const
from kq.report import RuleResult


def _norm(s):
    return re.sub(r"[^a-z0-9]", "", s.lower())


def run(prog):
    res = RuleResult("R-NAME-TABLE", "a keyword that is the name of an enum variant maps to that variant", floor=40)
    for f in sorted(prog.fns.values(), key=lambda x: x.norm):
        if not f.crate.startswith("kanata") or f.derive or "::tests::" in f.norm:
            continue
        for bi, t in f.calls():
            cn = t.get("r") or callee_name(t) or ""
            if "PartialEq for str>::eq" not in cn and not cn.endswith("<impl core::cmp::PartialEq for str>::eq"):
                continue
            lit = None
            for a in t["args"]:
                if is_const(a) and "str" in a["c"]:
                    lit = a["c"]["str"].strip('"')
            if not lit:
                continue
            nxt = t.get("t")
            if nxt is None or f.term(nxt)["k"] != "switch":
                continue
            sw = f.term(nxt)
            # the branch taken when the comparison is true
            tb = sw["o"] if any(v == 0 for v, _ in sw["ts"]) else None
            if tb is None:
                continue
            cur, hops, found = tb, 0, None
            while cur is not None and hops < 3 and found is None:
                for st in f.stmts(cur):
                    if st["k"] == "assign" and st["rv"]["k"] == "agg" and (st["rv"].get("adt") or "").startswith("kanata") and st["rv"].get("v"):
                        found = (st["rv"]["adt"], st["rv"]["v"])
                        break
                ss = f.succs(cur)
                cur = ss[0] if len(ss) == 1 else None
                hops += 1
            if found is None:
                continue
            adt, v = found
            try:
                names = list(prog.enum_variants(adt).values())
            except Exception:
                continue
            if len(names) < 2:
                continue
            byn = {_norm(n): n for n in names}
            want = byn.get(_norm(lit))
            if want is None:
                continue
            ok = want == v
            key = "%s/%s" % (f.norm.split("::{closure")[0].split("::")[-1], lit)
            res.fn(f)
            res.inst(key, where="%s:%s" % (f.file, t.get("ln")), maps_to="%s::%s" % (adt.split("::")[-1], v), ok=ok)
            res.oblige(ok)
            if not ok:
                res.viol(key, "%s:%s" % (f.file, t.get("ln")),
                         "the keyword `%s` is mapped to %s::%s although the enum has a variant named %s: the table contradicts its own "
                         "naming (every other entry maps a keyword to the variant of that name). A configuration that says `%s` gets "
                         "the behaviour of `%s`" % (lit, adt.split("::")[-1], v, want, lit, v.lower()))
    return res


def run_consts(prog):
    """R-CONST-NAME (C04 and others): a function named after one constant of a family does not read its sibling instead.

    Flag constants come in families that differ in one word (`NORMAL_KEY_FLAG_CLEAR_ON_NEXT_ACTION` / `.._NEXT_RELEASE`)
    and are read by predicates named after them (`clear_on_next_action`, `clear_on_next_release`). A predicate whose name
    carries the distinguishing word of constant A but that reads only the sibling B contradicts itself: the states
    marked "clear on next action" (output-chord keys) are then cleared by the release of any other key.

    Rule: for every function and every constant C it reads: if a constant D of the same module differs from C in exactly
    one word, the function's name contains D's word and not C's, and the function does not read D too - violation.
    Instances = (function, constant) pairs where the name carries the word of the constant that is read."""
    def walk(x, out):
        if isinstance(x, dict):
            if "c" in x and isinstance(x["c"], dict) and x["c"].get("def"):
                out.add(x["c"]["def"])
            for v_ in x.values():
                walk(v_, out)
        elif isinstance(x, list):
            for v_ in x:
                walk(v_, out)
    res = RuleResult("R-CONST-NAME", "a function named after one constant of a family reads that constant, not its sibling", floor=3)
    perfn, defs = {}, set()
    for f in prog.fns.values():
        if not f.crate.startswith("kanata") or f.derive:
            continue
        s_ = set()
        for b in f.reachable():
            for st in f.stmts(b):
                walk(st, s_)
            walk(f.term(b), s_)
        if s_:
            perfn[f] = s_
            defs |= s_
    toks = lambda n: [t for t in re.split(r"_+", n.split("::")[-1].lower()) if t]     # noqa: E731
    for f, s_ in sorted(perfn.items(), key=lambda kv: kv[0].norm):
        ft = set(toks(f.norm.split("::{closure")[0]))
        for c in sorted(s_):
            ct = toks(c)
            for d in sorted(defs):
                if d == c or d.rsplit("::", 1)[0] != c.rsplit("::", 1)[0]:
                    continue
                dt = toks(d)
                if len(dt) != len(ct):
                    continue
                diff = [(a, b) for a, b in zip(ct, dt) if a != b]
                if len(diff) != 1:
                    continue
                a, b = diff[0]
                key = "%s/%s" % (f.norm.split("::")[-1], c.split("::")[-1])
                if a in ft and b not in ft:
                    res.fn(f)
                    res.inst(key, where=f.loc, sibling=d.split("::")[-1], ok=True)
                    res.oblige(True)
                elif b in ft and a not in ft and d not in s_:
                    res.fn(f)
                    res.inst(key, where=f.loc, sibling=d.split("::")[-1], ok=False)
                    res.oblige(False)
                    res.viol(key, f.loc,
                             "%s reads the constant %s, but its name carries the word `%s` of the sibling constant %s (which it does not "
                             "read): the predicate tests the wrong flag / value of the family, so everything marked with the one is treated "
                             "as marked with the other" % (f.norm.split("::")[-1], c.split("::")[-1], b, d.split("::")[-1]))
    return res
