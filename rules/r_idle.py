"""R-IDLE (C07, C01): every piece of state that changes merely because time passes is looked at by the
idle predicate (is_idle / can_block_update_idle_waiting), or is exempt with a reason.

 T := (ADT, field) with a *self-dependent scalar update* (new value computed from the old one: counters,
      timers) in a function reachable from Kanata::tick_ms, plus container fields of the state ADTs from
      which a tick-path function removes elements.
 I := fields read as a whole by the idle predicate (transitively through its callees); reading a field
      covers the fields of the ADTs its type mentions (queue.is_empty() covers Queued.since).
 rule: T ⊆ cover(I) ∪ Exempt
"""
from kq.analysis import backward_fields, ref_targets
from kq.core import callee_name, is_place, proj, proj_fields
from kq.effects import Effects, _field_elems
from kq.report import RuleResult

K = "kanata_state_machine::kanata::Kanata::"
REMOVERS = ("pop", "pop_back", "pop_front", "remove", "retain", "drain", "swap_remove", "truncate", "clear")

# (ADT suffix, field) -> reason. An exemption suppresses one field; it is never a property-level finding.
EXEMPT = {
    ("kanata_keyberon::layout::Layout", "rpt_action"): "taken out and put back inside do_action while a repeat runs (event-driven, within one call); nothing counts it down",
    ("kanata_state_machine::oskbd::simulated::LogFmt", "ticks"): "feature simulated_output (simulator binaries only): tick counter of the textual output log, no effect on emitted events; the simulator never blocks",
    ("kanata_state_machine::oskbd::simulated::Outputs", "ticks"): "feature simulated_output (simulator binaries only): tick counter of the recorded output, no effect on emitted events; the simulator never blocks",
    ("kanata_state_machine::kanata::Kanata", "prev_keys"): "what was sent to the OS; a difference to the layout's key states that is still to be sent is flagged by keystate_changed_after_read, which the predicate reads",
    ("kanata_state_machine::kanata::Kanata", "cur_keys"): "scratch list rebuilt from the layout's key states on every tick (see prev_keys)",
    ("kanata_state_machine::kanata::Kanata", "time_remainder"): "wall-clock bookkeeping: the sub-millisecond remainder of the last tick conversion; it is not reset on wake-up (only last_tick is), but it stays below one millisecond, so it adds at most one tick after a wake-up",
    ("kanata_state_machine::kanata::Kanata", "last_tick"): "wall-clock bookkeeping, reset on wake-up (R-LOOP)",
    ("kanata_state_machine::kanata::Kanata", "ticks_since_idle"): "the idle counter itself; read by can_block through counting_idle_ticks",
    ("kanata_keyberon::multikey_buffer::MultiKeyBuffer", "size"): "scratch buffer rebuilt inside do_action on a key press (event-driven)",
    ("kanata_state_machine::oskbd::linux::KbdOut", "accumulated_scroll"): "changed only inside KbdOut::scroll, which is called for an active scroll state (covered by scroll_state), for a wheel-notch press and for passed-through wheel events - all of them driven by a state the predicate reads or by an input event, never by the mere passing of time",
    ("kanata_state_machine::oskbd::linux::KbdOut", "accumulated_hscroll"): "as accumulated_scroll (covered by hscroll_state / event-driven)",
    ("kanata_state_machine::kanata::sequences::SequenceState", "noerase_count"): "changed only by a key press in sequence mode / at sequence termination (event-driven)",
    ("kanata_keyberon::layout::Layout", "states"): "read by is_idle for the pending custom states (R-IDLE-STATES); removals after the keys were read for a tick are flagged by keystate_changed_after_read",
    ("kanata_keyberon::layout::OneShotState", "timeout"): "counts down only while OneShotState.keys is non-empty (tick_osh returns early otherwise); the predicate requires keys to be empty",
    ("kanata_parser::cfg::key_override::OverrideStates", "mods_pressed"): "per-tick scratch recomputed from the key list (R-OVR-SCRATCH)",
    ("kanata_parser::cfg::key_override::OverrideStates", "oscs_to_add"): "per-tick scratch recomputed from the key list (R-OVR-SCRATCH)",
    ("kanata_parser::cfg::key_override::OverrideStates", "oscs_to_remove"): "per-tick scratch recomputed from the key list (R-OVR-SCRATCH)",
    ("kanata_state_machine::kanata::Kanata", "movemouse_buffer"): "written only while a move_mouse_state_* is Some (which the predicate reads) and cleared by every MoveMouse release",
    ("kanata_state_machine::kanata::Kanata", "unmodded_keys"): "changed by unmod press/release events only",
    ("kanata_state_machine::kanata::Kanata", "unshifted_keys"): "changed by unshift press/release events only",
    ("kanata_state_machine::kanata::Kanata", "move_mouse_speed_modifiers"): "changed by press/release events only",
    ("kanata_state_machine::kanata::Kanata", "dynamic_macros"): "table of recorded macros: changed by record/stop events only",
    ("kanata_keyberon::layout::OneShotState", "released_keys"): "drained together with OneShotState.keys, which the predicate reads",
    ("kanata_keyberon::layout::OneShotState", "other_pressed_keys"): "drained together with OneShotState.keys, which the predicate reads",
    ("kanata_keyberon::chord::ChordsV2", "ticks_until_next_state_change"): "counts only while ChordsV2.queue is non-empty, which the predicate reads",
    ("kanata_state_machine::kanata::Kanata", "cur_cfg_idx"): "changed by the lrld-next/prev/num key actions and by a finished reload only (event-driven)",
    ("kanata_state_machine::kanata::Kanata", "loaded_cfg_idx"): "set by a successful reload only (event-driven)",
    ("kanata_state_machine::kanata::Kanata", "keys_hidden_by_sequence"):
        "grows when a key is pressed during a hidden-mode sequence and shrinks in the release loop, when that key's release is sent: "
        "both are driven by key events, nothing counts down",
    ("kanata_state_machine::kanata::sequences::SequenceState", "ticks_until_timeout"): "counts only while activity != Inactive, which the predicate reads through is_inactive()",
    ("kanata_state_machine::kanata::sequences::SequenceState", "overlapped_sequence"): "cleared on key-state changes while a sequence is active (event-driven); activity is read by the predicate through is_inactive()",
    ("kanata_state_machine::kanata::sequences::SequenceState", "raw_oscs"): "cleared when a sequence is activated (a key press); activity is read by the predicate through is_inactive()",
    ("kanata_state_machine::oskbd::linux::KbdOut", "raw_buf"): "output write buffer: filled by write_raw from the input thread, the tick path only flushes it; it holds no time-dependent state",
    ("kanata_state_machine::kanata::sequences::SequenceState", "sequence"): "changes on key presses in sequence mode only; activity is read by the predicate",
    ("kanata_state_machine::kanata::output_logic::zippychord::ZchDynamicState", "zchd_ticks_until_enabled"): "counts only in state WaitEnable; zchd_enabled_state is read by zchd_is_idle",
    ("kanata_state_machine::kanata::output_logic::zippychord::ZchDynamicState", "zchd_ticks_until_disable"): "non-zero only while input keys are held; zchd_input_keys is read by zchd_is_idle",
    ("kanata_state_machine::kanata::output_logic::zippychord::ZchDynamicState", "zchd_characters_to_delete_on_next_activation"): "set by key presses; also cleared from zchd_tick by the chord-deadline soft reset (covered: the deadline counts only while input keys are held, which the predicate reads) and by the 10 s forced reset (the known finding zchd_ticks_since_state_change)",
    ("kanata_state_machine::kanata::output_logic::zippychord::ZchDynamicState", "zchd_prior_activation_output_count"): "set by key presses; also cleared from zchd_tick by the chord-deadline soft reset (covered: the deadline counts only while input keys are held, which the predicate reads) and by the 10 s forced reset (the known finding zchd_ticks_since_state_change)",
    ("kanata_state_machine::kanata::output_logic::zippychord::ZchDynamicState", "zchd_same_hold_activation_count"): "changed by key presses and releases only (event-driven)",
    ("kanata_state_machine::kanata::output_logic::zippychord::ZchDynamicState", "zchd_prior_activation"): "set by key presses; also cleared from zchd_tick by the chord-deadline soft reset (covered: the deadline counts only while input keys are held, which the predicate reads) and by the 10 s forced reset (the known finding zchd_ticks_since_state_change)",
    ("kanata_state_machine::kanata::output_logic::zippychord::ZchDynamicState", "zchd_prioritized_chords"): "set by key presses; also cleared from zchd_tick by the chord-deadline soft reset (covered: the deadline counts only while input keys are held, which the predicate reads) and by the 10 s forced reset (the known finding zchd_ticks_since_state_change)",
}


def state_adts(prog):
    seen = set()
    st = ["kanata_state_machine::kanata::Kanata", "kanata_state_machine::kanata::output_logic::zippychord::ZchState"]
    while st:
        a = st.pop()
        if a in seen or a not in prog.adts:
            continue
        seen.add(a)
        for v in prog.adts[a]["variants"]:
            for f in v["fields"]:
                st.extend(f["adts"])
    return seen


def cover(prog, whole_reads):
    out = set(whole_reads)
    work = list(whole_reads)
    seen_adts = set()
    while work:
        (a, f) = work.pop()
        adt = prog.adts.get(a)
        if not adt:
            continue
        for v in adt["variants"]:
            for fl in v["fields"]:
                if fl["name"] == f:
                    for b in fl["adts"]:
                        if b in seen_adts or b not in prog.adts:
                            continue
                        seen_adts.add(b)
                        for v2 in prog.adts[b]["variants"]:
                            for f2 in v2["fields"]:
                                out.add((b, f2["name"]))
                                work.append((b, f2["name"]))
    return out


# exemptions that are only valid while the idle predicate reads some other field
EXEMPT_NEEDS = {
    ("kanata_state_machine::kanata::Kanata", "prev_keys"): ("kanata_state_machine::kanata::Kanata", "keystate_changed_after_read"),
    ("kanata_state_machine::kanata::Kanata", "cur_keys"): ("kanata_state_machine::kanata::Kanata", "keystate_changed_after_read"),
    ("kanata_keyberon::layout::Layout", "states"): ("kanata_state_machine::kanata::Kanata", "keystate_changed_after_read"),
    ("kanata_keyberon::layout::OneShotState", "timeout"): ("kanata_keyberon::layout::OneShotState", "keys"),
    ("kanata_keyberon::layout::OneShotState", "released_keys"): ("kanata_keyberon::layout::OneShotState", "keys"),
    ("kanata_keyberon::layout::OneShotState", "other_pressed_keys"): ("kanata_keyberon::layout::OneShotState", "keys"),
}


def self_updates(f):
    """[(adt, field, bb, line)] scalar self-dependent updates in f"""
    out = []
    refs = ref_targets(f)
    for bi in sorted(f.reachable()):
        for si, st in enumerate(f.stmts(bi)):
            if st["k"] != "assign":
                continue
            dst = st["p"]
            # store through a `&mut field` local: (*_r) = ...
            if proj(dst) and proj(dst)[0] == "*" and dst["l"] in refs and len(proj(dst)) == 1:
                dst = refs[dst["l"]]
            fe = _field_elems(dst)
            if not fe:
                continue
            a, fld, last = fe[-1]
            rv = st["rv"]
            if rv["k"] in ("agg", "ref", "discr"):
                continue
            deps = set()
            from kq.core import rvalue_operands
            for o in rvalue_operands(rv):
                deps |= backward_fields(f, o)
            if (a, fld) in deps:
                out.append((a, fld, bi, st.get("ln")))
        t = f.term(bi)
        if t["k"] == "call":
            dst = t["dest"]
            if proj(dst) and proj(dst)[0] == "*" and dst["l"] in refs and len(proj(dst)) == 1:
                dst = refs[dst["l"]]
            fe = _field_elems(dst)
            if fe:
                a, fld, last = fe[-1]
                deps = set()
                for o in t["args"]:
                    deps |= backward_fields(f, o)
                cn = callee_name(t) or ""
                if (a, fld) in deps and not cn.endswith("::clone") and "Default" not in cn:
                    out.append((a, fld, bi, t.get("ln")))
    return out


def removals(f, refs=None):
    """[(adt, field, bb, line, method)] element removals from container fields"""
    out = []
    refs = ref_targets(f)
    for bi, t in f.calls():
        cn = callee_name(t) or ""
        meth = cn.split("::")[-1]
        if meth not in REMOVERS or not t["args"] or cn.startswith("kanata"):
            continue
        a0 = t["args"][0]
        tgt = None
        if is_place(a0) and not proj(a0) and a0["l"] in refs:
            tgt = refs[a0["l"]]
        elif is_place(a0):
            tgt = a0
        if tgt is None:
            continue
        fe = _field_elems(tgt)
        if fe:
            a, fld, last = fe[-1]
            out.append((a, fld, bi, t.get("ln"), meth))
    return out


def run(prog):
    res = RuleResult("R-IDLE", "state that changes merely because time passes is read by the idle predicate", floor=25)
    ef = Effects(prog)
    idle, _, ireach = ef.transitive([K + "is_idle", K + "can_block_update_idle_waiting"])
    if len(ireach) < 5:
        res.viol("shape", "src/kanata/mod.rs", "idle predicate reaches only %d functions" % len(ireach))
    I = cover(prog, idle["reads_ext"])
    sadts = state_adts(prog)
    reach = prog.reachable_from([K + "tick_ms"], stop=[K + "do_live_reload"])
    T = {}
    for n in sorted(reach):
        for f in prog.by_norm.get(n, []):
            if not f.crate.startswith("kanata"):
                continue
            res.fn(f)
            for (a, fld, bi, ln) in self_updates(f):
                if a in sadts:
                    T.setdefault((a, fld), []).append(("self-update", f.norm, "%s:%s" % (f.file, ln)))
            for (a, fld, bi, ln, meth) in removals(f):
                if a in sadts:
                    T.setdefault((a, fld), []).append(("removes:" + meth, f.norm, "%s:%s" % (f.file, ln)))
    res.notes.append("idle predicate reads %d fields as a whole; covers %d fields" % (len(idle["reads_ext"]), len(I)))
    for (a, fld), sites in sorted(T.items()):
        covered = (a, fld) in I
        ex = EXEMPT.get((a, fld))
        need = EXEMPT_NEEDS.get((a, fld))
        if ex is not None and need is not None and need not in I and need not in idle["reads"]:
            ex = None   # the exemption leans on the predicate reading another field, which it no longer does
        res.inst("%s.%s" % (a, fld), covered=covered, exempt=ex, sites=[s[0] + "@" + s[1].split("::")[-1] for s in sites[:3]])
        ok = covered or ex is not None
        res.oblige(ok)
        if not ok:
            kind, fn, where = sites[0]
            res.viol("%s.%s" % (a, fld), where,
                     "%s.%s changes on the tick path (%s in %s) but the idle predicate never looks at it: kanata may block "
                     "while it is still counting, postponing its effect until the next key event" % (a.split("::")[-1], fld, kind, fn))
    return res


def run_keytiming(prog):
    """R-IDLE-KEYTIMING: every key-timing condition the parser compiles raises the bound that keeps
    kanata ticking until key history is old enough (can_block's switch_max_key_timing test)."""
    from kq.analysis import blocks_calling
    from kq.core import callee_name, proj
    from rules.r_doaction import receiver_fields
    res = RuleResult("R-IDLE-KEYTIMING", "each compiled key-timing test raises switch_max_key_timing", floor=2)
    f = prog.fn("kanata_parser::cfg::switch::parse_switch_case_bool")
    res.fn(f)
    emits = [(b, t) for b, t in f.calls() if (callee_name(t) or "").split("::")[-1].startswith("new_ticks_since")]
    sets = []
    for b, t in f.calls():
        if callee_name(t) == "core::cell::Cell::set":
            fl = receiver_fields(f, t)
            if fl and fl[-1] == "switch_max_key_timing":
                sets.append(b)
    oks = [bi for bi, si, st in f.all_rvalues()
           if st["p"]["l"] == 0 and not proj(st["p"]) and st["rv"]["k"] == "agg" and st["rv"].get("adt") == "core::result::Result" and st["rv"].get("v") == "Ok"]
    res.inst("anchors", emits=len(emits), sets=len(sets), ok_returns=len(oks))
    # the bound is accumulated over all key-timing conditions of a configuration: every store must be
    # max(previous value, new threshold), never a plain overwrite
    from kq.core import Resolver
    for b in sets:
        t = f.term(b)
        r = Resolver(f).root(t["args"][1]) if len(t["args"]) > 1 else ("unknown", None, [])
        mono = False
        if r[0] == "call" and (callee_name(r[1][1]) or "") in ("core::cmp::max", "core::cmp::Ord::max"):
            for a in r[1][1]["args"]:
                ra = Resolver(f).root(a)
                if ra[0] == "call" and callee_name(ra[1][1]) == "core::cell::Cell::get":
                    fl = receiver_fields(f, ra[1][1])
                    if fl and fl[-1] == "switch_max_key_timing":
                        mono = True
        res.inst("store-is-monotone@%s" % t.get("ln"), ok=mono)
        res.oblige(mono)
        if not mono:
            res.viol("store-is-monotone", "%s:%s" % (f.file, t.get("ln")),
                     "switch_max_key_timing is overwritten instead of raised (max of the previous value and the new threshold): a "
                     "later, smaller key-timing threshold lowers the bound and the loop may block before an earlier condition's "
                     "threshold is reached")
    if not emits:
        res.viol("anchors", f.loc, "parser no longer emits ticks-since opcodes")
        return res
    for b, t in emits:
        nm = callee_name(t).split("::")[-1]
        reach = f.reach_from(t["t"], avoid=sets) if t["t"] is not None else set()
        ok = bool(sets) and not any(o in reach for o in oks)
        res.inst("emit/" + nm, raises_bound=ok)
        res.oblige(ok)
        if not ok:
            res.viol("emit/" + nm, "%s:%s" % (f.file, t.get("ln")),
                     "a key-timing condition compiled with %s does not raise switch_max_key_timing on every successful path: the loop "
                     "may block while the last key is younger than the threshold, freezing its age" % nm)
    # consumer: can_block compares history age against the same field
    g = prog.fn(K + "can_block_update_idle_waiting")
    ef = Effects(prog)
    idle, _, _ = ef.transitive([g.norm])
    ok = ("kanata_state_machine::kanata::Kanata", "switch_max_key_timing") in (idle["reads"] | idle["through"])
    res.inst("consumer/can_block-reads-bound", ok=ok)
    if not ok:
        res.viol("consumer/can_block-reads-bound", g.loc, "can_block_update_idle_waiting no longer consults switch_max_key_timing")
    return res


STATE_VARIANT_EXEMPT = {
    "FakeKey": "a key held by a running macro: exists only while that macro is in active_sequences, which the predicate reads",
    "Tombstone": "an inert marker (no key code, coordinate or layer; nothing reads it), removed by the next tick that reports no custom event",
}


def run_states(prog):
    """R-IDLE-STATES: the state vector holds entries that the tick path itself creates and later retires (the custom-action
    steps of a running macro). While such an entry exists kanata still owes output, so the idle predicate must test for
    every State variant that the tick path builds."""
    from kq.analysis import discr_switches
    STATE = "kanata_keyberon::layout::State"
    res = RuleResult("R-IDLE-STATES", "the idle predicate tests every transient state kind that the tick path creates", floor=2)
    built = {}
    for nm in ("process_sequences", "process_sequence_custom"):
        g = prog.fn("kanata_keyberon::layout::Layout::" + nm)
        res.fn(g)
        for h in [g] + prog.closures_of(g):
            for bi, si, st in h.all_rvalues():
                rv = st["rv"]
                if rv["k"] == "agg" and rv.get("adt") == STATE:
                    built.setdefault(rv["v"], "%s:%s" % (h.file, st.get("ln")))
    f = prog.fn(K + "is_idle")
    tested = set()
    for g in [f] + prog.closures_of(f):
        for sw in discr_switches(prog, g, STATE):
            tested |= set(sw.arms)
    for v, where in sorted(built.items()):
        ok = v in tested or v in STATE_VARIANT_EXEMPT
        res.inst("state/" + v, tested=v in tested, exempt=STATE_VARIANT_EXEMPT.get(v))
        res.oblige(ok)
        if not ok:
            res.viol("state/" + v, where,
                     "the tick path creates State::%s entries but is_idle does not look for them: the loop may block while a "
                     "macro's custom action still has to be released" % v)
    if not built:
        res.viol("anchors", "keyberon/src/layout.rs", "process_sequences / process_sequence_custom build no State entries any more")
    return res


def run_snapshot(prog):
    """R-IDLE-SNAPSHOT (C07, C13): keystate_changed_after_read compares the number of layout states at the end of
    handle_keystate_changes with the number *at the moment the keys were read*. The snapshot therefore has to be taken
    next to `layout.keycodes()`: between the two, nothing that can mutate the layout runs. If the snapshot is taken later
    (after the override handling, which can erase the overridden key's state), that removal is not noticed, kanata
    reports idle and blocks before the tick that would release the override's output key."""
    from kq.analysis import backward_slice
    from kq.core import callee_name, is_place, proj
    from kq.gf2 import root_desc
    res = RuleResult("R-IDLE-SNAPSHOT", "the state-count snapshot is taken together with the key read", floor=1)
    f = prog.fn("kanata_state_machine::kanata::Kanata::handle_keystate_changes")
    res.fn(f)
    # the store of the flag and the snapshot it compares with
    stores = [(bi, si, st) for bi, si, st in f.all_rvalues() if proj(st["p"]) and (root_desc(f, st["p"]) or "").endswith(".keystate_changed_after_read")]
    reads = [bi for bi, t in f.calls() if (callee_name(t) or "").endswith("Layout::keycodes")]
    if not stores or not reads:
        res.inst("snapshot", where=f.loc, ok=False)
        res.oblige(False)
        res.viol("snapshot/flag-missing", f.loc,
                 "handle_keystate_changes does not record (keystate_changed_after_read) whether key states were removed after the keys "
                 "of this tick were read: such a removal still has to reach the OS on the next tick, but is_idle cannot see it and "
                 "kanata blocks with the key down")
        return res
    bi, si, st = stores[-1]
    # len() calls feeding the comparison
    rv = st["rv"]
    lens = []
    seen = set()
    work = [o for o in (rv.get("a"), rv.get("b")) if o is not None]
    while work:
        o = work.pop()
        if not is_place(o) or o["l"] in seen:
            continue
        seen.add(o["l"])
        for d in f.defs().get(o["l"], []):
            if d[2] == "call":
                if (callee_name(d[3]) or "").split("::")[-1] == "len":
                    lens.append((d[0], d[3]))
            elif d[2] == "assign":
                from kq.core import rvalue_operands
                work.extend(rvalue_operands(d[3]))
    early = [(b, t) for b, t in lens if b != bi and bi in f.reach_from(b) and not f.dominates(bi, b)]
    snap = min(early, key=lambda x: x[0]) if early else None
    if snap is None or len(lens) < 2:
        res.inst("snapshot", where=f.loc, ok=False)
        res.oblige(False)
        res.viol("snapshot", f.loc, "the flag is no longer computed from two states.len() reads (snapshot and end of the function)")
        return res
    # the comparison itself: any difference counts. Everything that touches the states after the read *removes* them
    # (macro cancel on release, override release-on-activation), so `>` ("more states than before") never fires
    cmpop = None
    from kq.core import rvalue_operands as _rvo2
    seen_c, wl_c, cmps = set(), [rv], []
    while wl_c:
        r_ = wl_c.pop()
        if r_["k"] == "bin" and r_.get("op") in ("Ne", "Eq", "Lt", "Le", "Gt", "Ge"):
            cmps.append(r_["op"])
            continue
        for o_ in _rvo2(r_):
            if is_place(o_) and not proj(o_) and o_["l"] not in seen_c:
                seen_c.add(o_["l"])
                for dd_ in f.defs().get(o_["l"], []):
                    if dd_[2] == "assign":
                        wl_c.append(dd_[3])
    bad_c = [c_ for c_ in cmps if c_ not in ("Ne", "Eq")]
    cmpop = bad_c[0] if bad_c else (cmps[0] if cmps else None)
    okc = not bad_c and bool(cmps)
    res.inst("comparison", where="%s:%s" % (f.file, f.line_of(bi, si)), operator=cmpop, ok=okc)
    res.oblige(okc)
    if not okc:
        res.viol("comparison", "%s:%s" % (f.file, f.line_of(bi, si)),
                 "keystate_changed_after_read is computed with `%s` instead of an inequality test: the handlers that run after the keys "
                 "were read only remove states (macro cancel on release, override release-on-activation), so a shrink is the case that "
                 "matters; it is not noticed, is_idle becomes true with an output key still down and the loop blocks" % cmpop)
    # caps-word ended by an action of this tick (caps-word-toggle): its shift was among the keys already sent, so that is a
    # change after the read as well - the flag must learn of it
    rb0 = reads[0]
    ends = []
    from kq.analysis import discr_switches as _ds
    custom_phase = set()
    for sw in _ds(prog, f):
        if (sw.adt or "").endswith("custom_action::CustomAction"):
            for v_ in sw.arms:
                custom_phase |= sw.arm_region(v_)
    for b0, s0, st0 in f.all_rvalues():
        if not proj(st0["p"]) or not (root_desc(f, st0["p"]) or "").endswith(".caps_word") or not f.dominates(rb0, b0) or b0 == rb0:
            continue
        if b0 not in custom_phase:
            continue          # before the keys are written (the key-list phase ends caps-word without adding its shift)
        rv0 = st0["rv"]
        if rv0["k"] == "use" and is_place(rv0["a"]) and not proj(rv0["a"]):
            for dd in f.defs().get(rv0["a"]["l"], []):
                if dd[2] == "assign" and dd[3]["k"] == "agg" and dd[3].get("v") == "None":
                    ends.append(dd[0])
        elif rv0["k"] == "agg" and rv0.get("v") == "None":
            ends.append(b0)
    if ends:
        from kq.core import rvalue_operands as _rvo, is_const as _isc
        from kq.analysis import control_deps as _cd
        seen_l, seen_b, wl, true_defs = set(), set(), list(_rvo(rv)), []
        while wl:
            o = wl.pop()
            if not is_place(o) or proj(o) or o["l"] in seen_l:
                continue
            seen_l.add(o["l"])
            for dd in f.defs().get(o["l"], []):
                if dd[2] == "assign":
                    if dd[3]["k"] == "use" and _isc(dd[3]["a"]) and dd[3]["a"]["c"].get("ty") == "bool" and dd[3]["a"]["c"].get("v") == 1:
                        true_defs.append(dd[0])
                    wl.extend(_rvo(dd[3]))
                    # `a || b`: the value also depends on the bool that decides which definition is taken
                    if dd[0] not in seen_b and f.local_ty(o["l"]) == "bool":
                        seen_b.add(dd[0])
                        for S in _cd(f, dd[0]):
                            tS = f.term(S)
                            if tS.get("dty") == "bool" and f.dominates(rb0, S):
                                wl.append(tS["d"])
        oke = all(any(d == e or f.dominates(d, e) or f.dominates(e, d) for d in true_defs) for e in ends)
        res.inst("caps-word-ended-after-read", where="%s:%s" % (f.file, f.line_of(ends[0])), ends=len(ends), ok=oke)
        res.oblige(oke)
        if not oke:
            res.viol("caps-word-ended-after-read", "%s:%s" % (f.file, f.line_of(ends[0])),
                     "an action handled after the keys of the tick were read sets caps_word to None (caps-word-toggle pressed while a "
                     "capitalised key is held), but keystate_changed_after_read does not learn of it: caps-word's shift is among the keys "
                     "already sent, is_idle sees caps_word.is_none() and the loop blocks with LShift down until the next input event")
    sb, stt = snap
    rb = reads[0]
    # calls between keycodes() and the snapshot that can touch the layout (take &mut of it / of self)
    between = f.reach_from(f.term(rb)["t"], avoid=[sb]) if f.term(rb).get("t") is not None else set()
    muts = []
    for b2, t2 in f.calls():
        if b2 in between and b2 != sb and b2 != rb and sb in f.reach_from(b2):
            for a in t2["args"]:
                if is_place(a) and (f.local_ty(a["l"]) or "").startswith("&mut") and not (callee_name(t2) or "").split("::")[-1] in ("extend", "deref_mut", "bm"):
                    muts.append(((callee_name(t2) or "").split("::")[-1], t2.get("ln")))
    ok = f.dominates(rb, sb) and not muts
    res.inst("snapshot", where="%s:%s" % (f.file, stt.get("ln")), calls_between_read_and_snapshot=muts[:5], ok=ok)
    res.oblige(ok)
    if not ok:
        res.viol("snapshot", "%s:%s" % (f.file, stt.get("ln")),
                 "the states.len() snapshot that keystate_changed_after_read is compared with is not taken right after layout.keycodes(): "
                 "%s run(s) in between and can remove key states (override-release-on-activation erases the overridden key), so a "
                 "removal that still has to reach the OS is not noticed and kanata blocks as idle with the key down"
                 % ([m[0] for m in muts[:4]] or "the key read no longer precedes it;"))
    return res


def run_idle_counter(prog):
    """R-IDLE-COUNTER (C15, C18): whoever waits for `ticks_since_idle` to reach a value also makes it count.

    `ticks_since_idle` only advances in can_block_update_idle_waiting, and only while some consumer is waiting for it
    (otherwise the loop blocks and nothing counts). The consumers are the places that compare the counter with a
    threshold: the on-idle virtual-key actions (guarded by `waiting_for_idle`) and the one-idle-second fallback of a
    requested live reload (guarded by `live_reload_requested`). If a consumer's own "I am waiting" field does not take
    part in the condition under which the counter is incremented, its threshold is never reached: with a stuck key
    the requested reload is never applied.

    Rule: the consumers' guard fields are discovered from the comparisons of ticks_since_idle (the Kanata fields in the
    dependence slice - control and data - of the comparison); each must be in the dependence slice of the increment."""
    from kq.analysis import dependence_slice
    from kq.core import proj_fields, rvalue_operands
    res = RuleResult("R-IDLE-COUNTER", "the idle counter counts whenever one of its consumers is waiting", floor=2)
    KAN = "kanata_state_machine::kanata::Kanata"
    g = prog.fn_opt(K + "can_block_update_idle_waiting")
    if g is None:
        res.viol("anchor", "src/kanata/mod.rs", "can_block_update_idle_waiting not found")
        return res
    res.fn(g)
    inc = None
    for bi in g.reachable():
        t = g.term(bi)
        # k.ticks_since_idle = k.ticks_since_idle.saturating_add(..)
        if t["k"] == "call" and (callee_name(t) or "").split("::")[-1] in ("saturating_add", "wrapping_add", "checked_add") and proj(t["dest"]):
            pf = proj_fields(t["dest"])
            if pf and pf[-1][2] == "ticks_since_idle":
                inc = bi
        for si, st in enumerate(g.stmts(bi)):
            if st["k"] != "assign" or not proj(st["p"]):
                continue
            pf = proj_fields(st["p"])
            if not pf or pf[-1][2] != "ticks_since_idle":
                continue
            rv = st["rv"]
            if rv["k"] in ("bin", "checked") and rv.get("op") == "Add":
                inc = bi
            elif rv["k"] == "use" and is_place(rv["a"]) and not proj(rv["a"]):
                d = g.single_def(rv["a"]["l"])
                if d is not None and d[2] == "call" and (callee_name(d[3]) or "").split("::")[-1] in ("saturating_add", "wrapping_add", "checked_add"):
                    inc = bi
    if inc is None:
        res.viol("anchor/increment", g.loc, "the increment of ticks_since_idle was not found in can_block_update_idle_waiting")
        return res
    inc_fields = {f_ for (a, f_) in dependence_slice(g, inc)[0] if a == KAN}
    res.inst("increment", where="%s:%s" % (g.file, g.line_of(inc)), depends_on=sorted(inc_fields), ok=True)
    # consumers: comparisons of ticks_since_idle with something, outside the counting function
    consumers = []
    for f in prog.fns.values():
        if f.crate != "kanata_state_machine" or f.derive or f is g:
            continue
        for bi, si, st in f.all_rvalues():
            rv = st["rv"]
            if rv["k"] == "ref" and not rv.get("mut") and proj(rv["p"]):
                # captured by a closure that compares it (tick_idle_timeout's retain closure)
                pf = proj_fields(rv["p"])
                if pf and pf[-1][2] == "ticks_since_idle" and pf[-1][0] == KAN:
                    consumers.append((f, bi, si))
                continue
            if rv["k"] == "use" and is_place(rv["a"]) and proj(rv["a"]) and not proj(st["p"]):
                # `let idle_ticks = self.ticks_since_idle;` handed to a closure that compares it
                pf = proj_fields(rv["a"])
                if pf and pf[-1][2] == "ticks_since_idle" and pf[-1][0] == KAN:
                    l = st["p"]["l"]
                    refs = {l} | {s2["p"]["l"] for _b, _s, s2 in f.all_rvalues() if s2["rv"]["k"] == "ref" and not proj(s2["rv"]["p"])
                                  and s2["rv"]["p"]["l"] == l and not proj(s2["p"])}
                    captured = any(s2["rv"]["k"] == "agg" and "clo" in s2["rv"] and any(is_place(o) and not proj(o) and o["l"] in refs for o in s2["rv"]["ops"])
                                   for _b, _s, s2 in f.all_rvalues())
                    if captured:
                        consumers.append((f, bi, si))
                continue
            if rv["k"] != "bin" or rv.get("op") not in ("Gt", "Ge", "Lt", "Le"):
                continue
            ops = rvalue_operands(rv)
            reads = False
            for o in ops:
                fl, _c, _k = backward_slice_fields(f, o)
                if (KAN, "ticks_since_idle") in fl:
                    reads = True
            if not reads:
                continue
            consumers.append((f, bi, si))
    if len(consumers) < 2:
        res.viol("anchor/consumers", "src/kanata/mod.rs", "the comparisons of ticks_since_idle (on-idle actions, reload fallback) were not found (%d)" % len(consumers))
        return res
    GUARDS = ("waiting_for_idle", "live_reload_requested")
    # each guard alone makes the counter count: with kanata idle and only this consumer waiting, the increment is reached
    from kq.analysis import reach_with_oracle
    from kq.gf2 import root_desc

    def oracle_for(guard):
        def oracle(kind, x):
            if kind == "field":
                pf = proj_fields(x)
                if pf and pf[-1][0] == KAN and pf[-1][2] == "live_reload_requested":
                    return 1 if guard == "live_reload_requested" else 0
                return None
            cn = (callee_name(x) or "")
            if cn.endswith("Kanata::is_idle"):
                return 1
            if cn.split("::")[-1] == "is_empty" and x["args"] and (root_desc(g, x["args"][0]) or "").endswith(".waiting_for_idle"):
                return 0 if guard == "waiting_for_idle" else 1
            return None
        return oracle
    for guard in GUARDS:
        reach = reach_with_oracle(g, oracle_for(guard))
        ok = inc in reach
        res.inst("counts-for/" + guard, where="%s:%s" % (g.file, g.line_of(inc)), ok=ok)
        res.oblige(ok)
        if not ok:
            res.viol("counts-for/" + guard, "%s:%s" % (g.file, g.line_of(inc)),
                     "with kanata idle and only `%s` set (the other consumer of the idle counter not waiting), the increment of "
                     "ticks_since_idle is not reached: the condition combines the consumers so that one of them alone no longer makes the "
                     "counter advance (`&&` for `||`?) - a requested live reload with a key stuck down is never applied, or an on-idle "
                     "action never fires" % guard)
    for f, bi, si in consumers:
        res.fn(f)
        dep = {f_ for (a, f_) in dependence_slice(f, bi)[0] if a == KAN}
        # the comparison happens in a closure that runs once per entry of a waiting list (`self.waiting_for_idle.retain(|w| ..)`):
        # it only happens while that list has entries
        st0 = f.stmts(bi)[si] if isinstance(si, int) else None
        if st0 is not None and st0["k"] == "assign" and not proj(st0["p"]):
            l0 = st0["p"]["l"]
            refs = {l0} | {s2["p"]["l"] for _b, _s, s2 in f.all_rvalues() if s2["rv"]["k"] in ("ref", "use") and not proj(s2["p"])
                           and is_place(s2["rv"].get("p") or s2["rv"].get("a")) and not proj(s2["rv"].get("p") or s2["rv"].get("a"))
                           and (s2["rv"].get("p") or s2["rv"].get("a"))["l"] == l0}
            clos = {s2["p"]["l"] for _b, _s, s2 in f.all_rvalues() if s2["rv"]["k"] == "agg" and "clo" in s2["rv"] and not proj(s2["p"])
                    and any(is_place(o) and not proj(o) and o["l"] in refs for o in s2["rv"]["ops"])}
            from rules.r_doaction import receiver_fields
            for cb, ct in f.calls():
                if any(is_place(a) and not proj(a) and (a["l"] in clos or ((f.single_def(a["l"]) or (0, 0, "", {}))[2] == "assign"
                       and is_place((f.single_def(a["l"])[3]).get("a")) and (f.single_def(a["l"])[3]).get("a", {}).get("l") in clos)) for a in ct["args"][1:]):
                    fl = receiver_fields(f, ct)
                    if fl and fl[-1] in GUARDS:
                        dep.add(fl[-1])
        guards = sorted(x for x in dep if x in GUARDS)
        missing = [x for x in guards if x not in inc_fields]
        key = "consumer/%s" % f.norm.split("::")[-1]
        ok = bool(guards) and not missing
        res.inst(key, where="%s:%s" % (f.file, f.line_of(bi, si)), waits_under=guards, counted=not missing, ok=ok)
        res.oblige(ok)
        if not guards:
            res.viol(key + "/guard", "%s:%s" % (f.file, f.line_of(bi, si)),
                     "%s compares ticks_since_idle with a threshold, but none of the known waiting fields %s decides whether it does: "
                     "the rule cannot tell what makes the counter advance for this consumer" % (f.norm.split("::")[-1], list(GUARDS)))
        elif missing:
            res.viol(key, "%s:%s" % (f.file, f.line_of(bi, si)),
                     "%s waits for ticks_since_idle to pass a threshold while `%s` is set, but `%s` takes no part in the condition under "
                     "which can_block_update_idle_waiting increments the counter (it depends on %s): the counter stays at 0 for this "
                     "consumer and the threshold is never reached - e.g. a requested live reload is never applied while a key is "
                     "stuck down" % (f.norm.split("::")[-1], missing[0], missing[0], sorted(inc_fields)))
    return res


def backward_slice_fields(f, o):
    from kq.analysis import backward_slice
    return backward_slice(f, o, maxdepth=12)


def run_only(*adt_suffixes):
    """R-IDLE restricted to the time-driven state of some structs: the properties about one-shot keys, macros, virtual keys
    ... rely on the idle predicate seeing *their* pending state (the loop sleeps otherwise and their timers stop)."""
    def rule(prog):
        full = run(prog)
        res = RuleResult("R-IDLE", full.clause + " (restricted to %s)" % ", ".join(adt_suffixes), floor=1)
        res.functions = full.functions
        res.notes = list(full.notes)
        for i in full.instances:
            if any(("::" + s + ".") in i["key"] or i["key"].startswith(s + ".") for s in adt_suffixes):
                res.instances.append(i)
                res.oblige(bool(i.get("covered") or i.get("exempt")))
        for v in full.violations:
            k = v["key"].split("|", 1)[-1]
            if any(("::" + s + ".") in k or k.startswith(s + ".") for s in adt_suffixes):
                res.violations.append(v)
        return res
    rule.__name__ = "run_only_" + "_".join(adt_suffixes)
    return rule


def run_zch_variant(prog):
    """R-ZCH-IDLE (C07): zippychord reports idle only in the states in which its tick does nothing unconditionally.

    `zchd_tick` matches on the enabled-state: in `WaitEnable` it counts `zchd_ticks_until_enabled` down on every tick and
    re-enables zippychord at zero. `zchd_is_idle` must therefore be false in that state - otherwise the loop blocks, the
    countdown stands still while nothing is typed, and after a pause longer than idle-reactivate-time the next chord is
    still typed as plain keys. Rule: for every variant V of ZchEnabledState whose arm in zchd_tick stores to a field of
    the state on every path through the arm, zchd_is_idle evaluated under V cannot reach anything but `false`
    (reach_under_variant on both functions)."""
    from kq.analysis import discr_switches, reach_under_variant
    res = RuleResult("R-ZCH-IDLE", "zchd_is_idle is false in every state in which zchd_tick counts unconditionally", floor=1)
    Z = "kanata_state_machine::kanata::output_logic::zippychord::"
    tick = prog.fn_opt(Z + "ZchDynamicState::zchd_tick")
    idle = prog.fn_opt(Z + "ZchDynamicState::zchd_is_idle")
    ADT = Z + "ZchEnabledState"
    if tick is None and idle is None and not any(n.startswith(Z) for n in prog.by_norm):
        # the `zippychord` cargo feature is off in this build configuration: nothing to decide
        res.inst("not-compiled", where="src/kanata/output_logic/zippychord.rs", ok=True)
        return res
    if tick is None or idle is None:
        res.viol("anchor", "src/kanata/output_logic/zippychord.rs", "zchd_tick / zchd_is_idle not found")
        return res
    res.fn(tick)
    res.fn(idle)
    sws = [sw for sw in discr_switches(prog, tick, ADT)]
    if not sws:
        res.viol("anchor/match", tick.loc, "zchd_tick no longer matches on ZchEnabledState")
        return res
    sw = sws[0]
    for v in prog.enum_variants(ADT).values():
        tgt = sw.target(v)
        region = sw.arm_region(v) if tgt is not None else set()
        # the blocks every path through the arm passes: those of the region that dominate every exit edge of the region
        exits = {b for b in region for s_ in tick.succs(b) if s_ not in region}
        always = {b for b in region if exits and all(tick.dominates(b, e) for e in exits)}
        stores = []
        for b in sorted(always):
            for si, st in enumerate(tick.stmts(b)):
                if st["k"] == "assign" and proj(st["p"]) and any(isinstance(e, dict) and "f" in e for e in proj(st["p"])):
                    stores.append(tick.line_of(b, si))
        counts = bool(stores)
        # can zchd_is_idle yield anything but a constant false under V?
        r = reach_under_variant(prog, idle, ADT, v)
        may_true = False
        for b in r:
            t = idle.term(b)
            if t["k"] == "call" and not t.get("mac") and not (callee_name(t) or "").startswith("core::cmp::PartialEq") and "log" not in (callee_name(t) or "") \
                    and "fmt" not in (callee_name(t) or "") and "::Arguments" not in (callee_name(t) or ""):
                if (idle.local_ty(t["dest"]["l"]) or "") == "bool" and not proj(t["dest"]):
                    may_true = True
            for st in idle.stmts(b):
                if st["k"] == "assign" and st["rv"]["k"] == "use" and isinstance(st["rv"]["a"], dict) and "c" in st["rv"]["a"] \
                        and st["rv"]["a"]["c"].get("ty") == "bool" and st["rv"]["a"]["c"].get("v") == 1 and "mac" not in st:
                    may_true = True
        ok = not (counts and may_true)
        res.inst("state/" + v, where=idle.loc, tick_counts_unconditionally=counts, idle_can_be_true=may_true, ok=ok)
        res.oblige(ok)
        if not ok:
            res.viol("state/" + v, idle.loc,
                     "in state %s zchd_tick updates the zippychord state on every tick (lines %s), but zchd_is_idle can be true in that state: "
                     "kanata blocks, the countdown stands still until the next key event, and zippychord is not re-enabled after the "
                     "configured idle time - the next chord is typed as plain keys" % (v, stores[:3]))
    return res
