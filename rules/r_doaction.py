"""Rules over keyberon::layout::Layout::do_action's arms.

R-OSH-ARMS  (C06): every Action arm notifies one-shot (handle_press), delegates (recursive do_action)
                   or defers (stores into waiting / extra_waiting / action_queue).
R-STATE-PUSH (C01, C04): arms that make a coordinate-keyed state push it unconditionally; the Custom
                   arm reports CustomEvent::Press only when the state was really stored.
"""
from kq.analysis import blocks_calling, discr_switches
from kq.core import Resolver, callee_name, is_place, norm_name, proj, proj_fields
from kq.report import RuleResult

LAYOUT = "kanata_keyberon::layout::Layout"
ACTION = "kanata_keyberon::action::Action"
STATE = "kanata_keyberon::layout::State"
DO_ACTION = "kanata_keyberon::layout::Layout::do_action"
HANDLE_PRESS = "kanata_keyberon::layout::OneShotState::handle_press"


def main_switch(prog, f):
    sws = discr_switches(prog, f, ACTION)
    if not sws:
        return None
    return max(sws, key=lambda s: len(s.arms))


def receiver_fields(f, t):
    """field names (innermost last) through which the receiver (arg 0) of a call is reached"""
    if not t["args"]:
        return []
    r = Resolver(f).root(t["args"][0])
    return [x[2] for x in r[2]]


def region_effects(f, region):
    """classify what happens in a set of blocks"""
    eff = {"handle_press": 0, "do_action": 0, "defer": [], "pushes": [], "event": 0}
    for b in sorted(region):
        t = f.term(b)
        if t["k"] == "call":
            cn = callee_name(t) or ""
            if cn == HANDLE_PRESS:
                eff["handle_press"] += 1
            elif cn == DO_ACTION:
                eff["do_action"] += 1
            elif cn == "kanata_keyberon::layout::Layout::event":
                eff["event"] += 1
            elif cn.endswith("ArrayDeque::push_back"):
                fl = receiver_fields(f, t)
                if fl and fl[-1] in ("extra_waiting", "action_queue"):
                    eff["defer"].append(fl[-1])
            elif cn == "heapless::vec::Vec::push":
                fl = receiver_fields(f, t)
                if fl and fl[-1] == "states":
                    eff["pushes"].append(b)
        for st in f.stmts(b):
            if st["k"] == "assign":
                pf = proj_fields(st["p"])
                if pf and pf[-1][0] == LAYOUT and pf[-1][2] == "waiting":
                    rv = st["rv"]
                    is_none = rv["k"] == "agg" and rv.get("v") == "None"
                    if rv["k"] == "use" and is_place(rv["a"]):
                        r = Resolver(f).root(rv["a"])
                        is_none = r[0] == "agg" and r[1][2].get("v") == "None"
                    if not is_none:
                        eff["defer"].append("waiting")
    return eff


ALLPATH_EXEMPT = {
    "NoOp": "the notification is additionally skipped for the fake TRIGGER_TAPHOLD_COORD coordinate",
}


def _paths_without_notify(f, region, start):
    """blocks from which the arm is left without passing a handle_press call, following only the
    is_oneshot == false edge of tests on the is_oneshot parameter"""
    pl = [l for l in range(1, f.nargs + 1) if f.local_name(l) == "is_oneshot"]
    # the same flag as a two-variant enum (`origin: ActionOrigin { Key, OneShotInner }`): the variant that the OneShot arm hands
    # to its recursive call is "inner", the other one is "not a one-shot"
    enum_p, key_variant = None, None
    if not pl:
        prog_ = f.prog
        for l in range(1, f.nargs + 1):
            a = prog_.adts.get(f.local_adt(l) or "")
            if a and a.get("kind") == "enum" and len(a["variants"]) == 2 and not any(v["fields"] for v in a["variants"]) \
                    and (f.local_adt(l) or "").startswith("kanata_keyberon::layout::"):
                inner = set()
                for bi, t in f.calls():
                    if norm_name(callee_name(t) or "") == f.norm and len(t["args"]) >= l:
                        r = Resolver(f).root(t["args"][l - 1])
                        if r[0] == "agg" and r[1][2].get("adt") == f.local_adt(l):
                            inner.add(r[1][2]["v"])
                names = {v["name"] for v in a["variants"]}
                # most recursive calls pass the "plain key" variant; the other one is passed by the OneShot arm only
                if inner == names:
                    cnt = {}
                    for bi, t in f.calls():
                        if norm_name(callee_name(t) or "") == f.norm and len(t["args"]) >= l:
                            r = Resolver(f).root(t["args"][l - 1])
                            if r[0] == "agg":
                                cnt[r[1][2]["v"]] = cnt.get(r[1][2]["v"], 0) + 1
                    key_variant = max(cnt, key=cnt.get)
                    enum_p = l

    def polarity(op):
        pol, cur = 0, op
        for _ in range(8):
            if not is_place(cur) or proj(cur):
                return None
            if cur["l"] in pl:
                return pol
            d = f.single_def(cur["l"])
            if enum_p is not None and d and d[2] == "call" and (callee_name(d[3]) or "").split("::")[-1] in ("eq", "ne") and len(d[3]["args"]) == 2:
                from kq.analysis import _promoted_variant
                side, other = None, None
                for a_ in d[3]["args"]:
                    r = Resolver(f).root(a_)
                    if r[0] == "param" and r[1] == enum_p:
                        side = True
                    elif r[0] == "const":
                        other = _promoted_variant(f, r[1], f.local_adt(enum_p))
                    elif r[0] == "agg" and r[1][2].get("adt") == f.local_adt(enum_p):
                        other = r[1][2]["v"]
                if side and other is not None:
                    is_eq = (callee_name(d[3]) or "").endswith("eq")
                    val_when_key = 1 if ((other == key_variant) == is_eq) else 0      # value of the test when the flag is "plain key"
                    return val_when_key ^ pol
                return None
            if not d or d[2] != "assign":
                return None
            rv = d[3]
            if rv["k"] == "un" and rv["op"] == "Not":
                pol ^= 1
                cur = rv["a"]
            elif rv["k"] == "use":
                cur = rv["a"]
            else:
                return None
        return None
    passb = {b for b in region if f.term(b)["k"] == "call" and callee_name(f.term(b)) == HANDLE_PRESS}
    seen, stack, leak = set(), [start], []
    while stack:
        b = stack.pop()
        if b in seen or b in passb:
            continue
        seen.add(b)
        t = f.term(b)
        succ = [x for x in f.succs(b) if f.term(x)["k"] != "unreachable"]
        if t["k"] == "switch":
            pol = polarity(t["d"])
            if pol is not None:
                succ = [tb for val, tb in t["ts"] if val == pol] or [t["o"]]
        if t["k"] == "return":
            leak.append(b)
            continue
        for x in succ:
            if x not in region:
                leak.append(b)
            else:
                stack.append(x)
    return leak


def rule_osh_arms(prog):
    res = RuleResult("R-OSH-ARMS", "every action arm tells the one-shot machinery a key was pressed, delegates, or defers", floor=21)
    f = prog.fn(DO_ACTION)
    res.fn(f)
    sw = main_switch(prog, f)
    if sw is None:
        res.viol("shape", f.loc, "do_action no longer matches on the Action variant")
        return res
    exempt = {
        "OneShotIgnoreEventsTicks": "configures the one-shot machinery itself",
        "Trans": "resolved before the match; arm is unreachable!()",
    }
    for v in sw.all_variants:
        region = sw.arm_region(v)
        eff = region_effects(f, region)
        how = []
        if eff["handle_press"]:
            how.append("notifies")
        if eff["do_action"]:
            how.append("delegates")
        if eff["defer"]:
            how.append("defers:" + ",".join(sorted(set(eff["defer"]))))
        res.inst("arm/" + v, how=how, blocks=len(region), explicit=v in sw.arms)
        ok = bool(how) or v in exempt
        res.oblige(ok)
        # arms whose only way of consuming a one-shot is the notification must notify on every path on which the
        # key is not itself a one-shot key (is_oneshot == false)
        if how == ["notifies"] and v not in ALLPATH_EXEMPT and sw.target(v) is not None:
            leak = _paths_without_notify(f, region, sw.target(v))
            res.inst("arm/%s/every-path" % v, ok=not leak)
            res.oblige(not leak)
            if leak:
                res.viol("arm/%s/every-path" % v, "%s:%s" % (f.file, f.line_of(leak[0])),
                         "Action::%s leaves do_action on some path (is_oneshot == false) without calling OneShotState::handle_press: "
                         "an active one-shot is not consumed by this key on that path" % v)
        if v not in sw.arms and sw.otherwise is not None and v not in exempt:
            res.viol("arm/%s/wildcard" % v, f.loc, "Action::%s is handled by a wildcard arm of do_action" % v)
        if not ok:
            res.viol("arm/" + v, "%s:%s" % (f.file, f.line_of(sw.target(v)) if sw.target(v) is not None else f.lo),
                     "Action::%s neither calls OneShotState::handle_press, nor recurses into do_action, nor defers into "
                     "waiting/extra_waiting/action_queue: an active one-shot would not be consumed by this key" % v)
    # macro keys end a one-shot too: process_sequences Press/Tap arms notify
    ps = prog.fn("kanata_keyberon::layout::Layout::process_sequences")
    res.fn(ps)
    sws = discr_switches(prog, ps, "kanata_keyberon::action::SequenceEvent")
    if sws:
        s2 = max(sws, key=lambda s: len(s.arms))
        for v in ("Press", "Tap"):
            eff = region_effects(ps, s2.arm_region(v))
            res.inst("seq-arm/" + v, notifies=eff["handle_press"])
            if not eff["handle_press"]:
                res.viol("seq-arm/" + v, ps.loc, "macro %s event no longer notifies the one-shot machinery" % v)
    else:
        res.viol("seq/shape", ps.loc, "process_sequences no longer matches on SequenceEvent")
    return res


def _must_pass(f, start, region, pass_blocks):
    """True if every path from `start` that leaves `region` (or returns) goes through pass_blocks"""
    seen = f.reach_from(start, avoid=pass_blocks)
    for b in seen:
        if b not in region:
            return False
        ss = f.succs(b)
        if not ss and f.term(b)["k"] == "return":
            return False
        for s_ in ss:
            if s_ not in region and s_ not in pass_blocks:
                return False
    return True


ACTION_ADT = "kanata_keyberon::action::Action"


def rule_state_push(prog):
    res = RuleResult("R-STATE-PUSH", "coordinate-keyed states are pushed on every path of their arm; Custom press only if stored", floor=4)
    f = prog.fn(DO_ACTION)
    res.fn(f)
    sw = main_switch(prog, f)
    if sw is None:
        res.viol("shape", f.loc, "do_action no longer matches on the Action variant")
        return res
    expect = {"KeyCode": "NormalKey", "Layer": "LayerModifier", "RepeatableSequence": "RepeatingSequence", "Custom": "Custom"}
    for v, sv in expect.items():
        region = sw.arm_region(v)
        tgt = sw.target(v)
        # blocks that push a State::sv built with the coord parameter
        pass_blocks = []
        for b in region:
            t = f.term(b)
            if t["k"] == "call" and callee_name(t) == "heapless::vec::Vec::push":
                fl = receiver_fields(f, t)
                if not (fl and fl[-1] == "states"):
                    continue
                r = Resolver(f).root(t["args"][1]) if len(t["args"]) > 1 else None
                if r and r[0] == "agg" and r[1][2].get("adt") == STATE and r[1][2].get("v") == sv:
                    pass_blocks.append(b)
        ok = bool(pass_blocks) and tgt is not None and _must_pass(f, tgt, region | set(pass_blocks), pass_blocks)
        if not ok and pass_blocks and tgt is not None:
            # an arm shared by two variants (`Sequence { .. } | RepeatableSequence { .. } => { ..; if matches!(action,
            # RepeatableSequence { .. }) { push } }`): only the paths that are possible for *this* variant count
            from kq.analysis import reach_under_variant
            feasible = reach_under_variant(prog, f, ACTION_ADT, v, start=tgt)
            infeasible = region - feasible
            seen = f.reach_from(tgt, avoid=list(pass_blocks) + list(infeasible))
            ok = True
            for b in seen:
                if b not in region:
                    ok = False
                ss = [x for x in f.succs(b) if x not in infeasible]
                if not ss and f.term(b)["k"] == "return":
                    ok = False
                if any(x not in region and x not in pass_blocks for x in ss):
                    ok = False
        res.inst("push/" + v, state=sv, push_blocks=len(pass_blocks), unconditional=ok)
        res.oblige(ok)
        if not ok:
            res.viol("push/" + v, "%s:%s" % (f.file, f.line_of(tgt) if tgt is not None else f.lo),
                     "the Action::%s arm can finish without pushing State::%s at the key's coordinate: the later Release "
                     "at that coordinate has nothing to undo (two holders of one layer, stuck or lost state)" % (v, sv))
    # Custom: CustomEvent::Press(value) is returned only on the Ok edge of the push
    region = sw.arm_region("Custom")
    press_blocks = []
    for b in region:
        for st in f.stmts(b):
            if st["k"] == "assign" and st["rv"]["k"] == "agg" and st["rv"].get("adt") == "kanata_keyberon::layout::CustomEvent" and st["rv"].get("v") == "Press":
                press_blocks.append(b)
    push_blocks = [b for b in region if f.term(b)["k"] == "call" and callee_name(f.term(b)) == "heapless::vec::Vec::push"]
    isok_blocks = [b for b in region if f.term(b)["k"] == "call" and (callee_name(f.term(b)) or "").endswith("Result::is_ok")]
    gated = False
    for pb in press_blocks:
        for ib in isok_blocks:
            # the switch after is_ok: exactly one successor reaches the Press aggregate
            nb = f.term(ib)["t"]
            if nb is None or f.term(nb)["k"] != "switch":
                continue
            succ = f.succs(nb)
            reach = [s_ for s_ in succ if pb in f.reach_from(s_, avoid=[nb])]
            if len(reach) == 1 and len(succ) == 2 and f.dominates(ib, pb) and any(f.dominates(p, ib) for p in push_blocks):
                # the is_ok receiver is the push result
                r = Resolver(f).root(f.term(ib)["args"][0])
                if r[0] == "call" and callee_name(r[1][1]) == "heapless::vec::Vec::push":
                    gated = True
    res.inst("custom/press-gated", press_blocks=len(press_blocks), gated=gated)
    res.oblige(gated)
    if not gated:
        res.viol("custom/press-gated", f.loc,
                 "do_action reports CustomEvent::Press for a custom action without checking that State::Custom was stored: "
                 "with the state vector full, the press handler runs but the release handler never will (stuck mouse button / endless scroll)")
    return res


def rule_fork_keys(prog):
    """R-FORK-KEYS (C10): fork's trigger scan sees every state that carries an active key code."""
    from kq.analysis import blocks_with_agg
    from kq.core import const_val, is_const, norm_name
    res = RuleResult("R-FORK-KEYS", "fork looks for its trigger keys in every state that holds a key code", floor=2)
    kc = prog.fn("kanata_keyberon::layout::State::keycode")
    res.fn(kc)
    some = set()
    for sw in discr_switches(prog, kc, STATE)[:1]:
        for v in sw.all_variants:
            if blocks_with_agg(kc, sw.arm_reach(v), "core::option::Option", "Some", to_local=0):
                some.add(v)
    f = prog.fn(DO_ACTION)
    res.fn(f)
    sw = main_switch(prog, f)
    region = sw.arm_region("Fork") if sw else set()
    clos = []
    for b in region:
        for st in f.stmts(b):
            if st["k"] == "assign" and st["rv"]["k"] == "agg" and "clo" in st["rv"]:
                c = prog.fn_opt(norm_name(st["rv"]["clo"]))
                if c is not None and discr_switches(prog, c, STATE):
                    clos.append(c)
    res.inst("keycode-variants", variants=sorted(some))
    if not clos:
        # the scan goes through Layout::keycodes(), which is `states.iter().filter_map(State::keycode)`: it sees exactly the
        # states that State::keycode answers for
        via = [b for b in region if f.term(b)["k"] == "call" and norm_name(callee_name(f.term(b)) or "") == "kanata_keyberon::layout::Layout::keycodes"]
        kcs = prog.fn_opt("kanata_keyberon::layout::Layout::keycodes")
        uses_keycode = False
        if kcs is not None:
            for g in [kcs] + list(prog.closures_of(kcs)):
                for b in g.reachable():
                    blob = str(g.stmts(b)) + str(g.term(b))
                    if "layout::State" in blob and "::keycode" in blob:
                        uses_keycode = True
        if via and uses_keycode:
            res.fn(kcs)
            for v in sorted(some):
                res.inst("fork-sees/" + v, keycode=True, fork=True, via="Layout::keycodes")
                res.oblige(True)
            return res
    if len(clos) != 1:
        res.viol("shape", f.loc, "expected one State-matching closure in the Fork arm, found %d" % len(clos))
        return res
    c = clos[0]
    seen = set()
    for s2 in discr_switches(prog, c, STATE)[:1]:
        for v in s2.all_variants:
            if v in s2.arms:
                # an explicit arm that can yield something other than constant false
                for b in s2.arm_reach(v):
                    t = c.term(b)
                    if t["k"] == "call" and t["dest"]["l"] == 0:
                        seen.add(v)
                    for st in c.stmts(b):
                        if st["k"] == "assign" and st["p"]["l"] == 0 and not (st["rv"]["k"] == "use" and is_const(st["rv"]["a"]) and const_val(st["rv"]["a"]) == 0):
                            seen.add(v)
    for v in sorted(some | seen):
        ok = v in some and v in seen
        res.inst("fork-sees/" + v, keycode=v in some, fork=v in seen)
        res.oblige(ok)
        if not ok:
            res.viol("fork-sees/" + v, c.loc,
                     "State::%s: carries an active key code=%s, inspected by fork's trigger scan=%s — fork would not take its right "
                     "branch for a trigger key held this way (switch and the output do see it)" % (v, v in some, v in seen))
    return res


def rule_osh_repress(prog):
    """R-OSH-REPRESS (C06): re-pressing an active one-shot key always withdraws its pending release."""
    res = RuleResult("R-OSH-REPRESS", "a re-pressed one-shot key is taken out of the deferred-release list on every path", floor=1)
    f = prog.fn("kanata_keyberon::layout::OneShotState::handle_press")
    res.fn(f)
    sws = discr_switches(prog, f, "kanata_keyberon::layout::OneShotHandlePressKey")
    if not sws:
        res.viol("shape", f.loc, "handle_press no longer matches on OneShotHandlePressKey")
        return res
    sw = sws[0]
    region = sw.arm_region("OneShotKey")
    tgt = sw.target("OneShotKey")
    rets = []
    for b in region:
        t = f.term(b)
        if t["k"] == "call" and (callee_name(t) or "").endswith("ArrayDeque::retain"):
            fl = receiver_fields(f, t)
            if fl and fl[-1] == "released_keys":
                rets.append(b)
    ok = bool(rets) and tgt is not None and _must_pass(f, tgt, region | set(rets), rets)
    res.inst("released_keys.retain", sites=len(rets), on_every_path=ok)
    res.oblige(ok)
    if not ok:
        res.viol("released_keys.retain", "%s:%s" % (f.file, f.line_of(tgt) if tgt is not None else f.lo),
                 "the OneShotKey arm of handle_press can finish without removing the re-pressed key from released_keys: when the "
                 "one-shot ends, the key is released although it is physically held")
    # ... and the caller reports every press of a one-shot key: the OneShot arm of do_action reaches
    # handle_press(OneShotKey(..)) on every path
    g = prog.fn(DO_ACTION)
    res.fn(g)
    swd = main_switch(prog, g)
    if swd is not None and swd.target("OneShot") is not None:
        reg = swd.arm_region("OneShot")
        calls = []
        for b in reg:
            t = g.term(b)
            if t["k"] == "call" and callee_name(t) == HANDLE_PRESS and len(t["args"]) > 1:
                r = Resolver(g).root(t["args"][1])
                if r[0] == "agg" and r[1][2].get("v") == "OneShotKey":
                    calls.append(b)
        ok2 = bool(calls) and _must_pass(g, swd.target("OneShot"), reg | set(calls), calls)
        res.inst("do_action/OneShot-arm-reports-key", sites=len(calls), on_every_path=ok2)
        res.oblige(ok2)
        if not ok2:
            res.viol("do_action/OneShot-arm-reports-key", "%s:%s" % (g.file, g.line_of(swd.target("OneShot"))),
                     "the OneShot arm of do_action can finish without calling handle_press(OneShotKey(coord)): a re-pressed one-shot "
                     "key stays in released_keys and is released while it is physically held")
    else:
        res.viol("do_action/OneShot-arm", g.loc, "do_action has no OneShot arm")
    return res


def rule_state_clear(prog):
    """R-STATE-CLEAR (C04): keys of an output chord that are flagged "clear on next action" are removed when *any* next
    action runs: the retain that drops them dominates the match on the action, it is not conditional on the action."""
    res = RuleResult("R-STATE-CLEAR", "clear-on-next-action keys are dropped before every action", floor=1)
    f = prog.fn(DO_ACTION)
    res.fn(f)
    sw = main_switch(prog, f)
    if sw is None:
        res.viol("shape", f.loc, "do_action no longer matches on the Action variant")
        return res
    n = 0
    for bi, t in f.calls():
        if (callee_name(t) or "") != "heapless::vec::Vec::retain":
            continue
        fl = receiver_fields(f, t)
        if not (fl and fl[-1] == "states"):
            continue
        from rules.r_cancel import closure_arg
        c = closure_arg(prog, f, t["args"][1]) if len(t["args"]) > 1 else None
        if c is None or not any((callee_name(t2) or "").endswith("nkf_clear_on_next_action") for _, t2 in c.calls()):
            continue
        n += 1
        ok = f.dominates(bi, sw.bb)
        res.inst("retain#%d" % n, where="%s:%s" % (f.file, t.get("ln")), before_every_action=ok)
        res.oblige(ok)
        if not ok:
            res.viol("retain#%d" % n, "%s:%s" % (f.file, t.get("ln")),
                     "the removal of clear-on-next-action keys no longer runs before every action (it does not dominate the match on "
                     "the action): the modifiers of an output chord stay down while e.g. a layer key is pressed")
    if n == 0:
        res.viol("anchors", f.loc, "do_action no longer removes clear-on-next-action keys")
    return res


def rule_osh_end(prog):
    """R-OSH-END (C06): when a one-shot ends, every per-activation list of the one-shot state is emptied."""
    res = RuleResult("R-OSH-END", "the block of tick_osh that ends the one-shot empties every list of OneShotState", floor=4)
    f = prog.fn("kanata_keyberon::layout::OneShotState::tick_osh")
    res.fn(f)
    adt = prog.adt("kanata_keyberon::layout::OneShotState")
    lists = [fl["name"] for fl in adt["variants"][0]["fields"] if "ArrayDeque" in fl["ty"] or "Vec<" in fl["ty"]]
    # the three lists hold (subsets of) the same one-shot coordinates: same element type, same capacity, same overflow behaviour.
    # A deferred-release list smaller than the list of active one-shot keys pushes a still active key out when it fills up.
    tys = {fl["name"]: fl["ty"] for fl in adt["variants"][0]["fields"] if fl["name"] in lists}
    same = len(set(tys.values())) == 1
    res.inst("lists-same-capacity", where=f.loc, types=sorted(set(tys.values())), ok=same)
    res.oblige(same)
    if not same:
        res.viol("lists-same-capacity", f.loc,
                 "the lists of OneShotState no longer have the same type / capacity (%s): with more stacked one-shot keys than the smaller "
                 "list holds, the release of a still active one-shot key is pushed out and performed at once, before the next key"
                 % ", ".join("%s: %s" % (k, v.split("<", 1)[-1][:60]) for k, v in sorted(tys.items())))
    empt = {}
    for bi, t in f.calls():
        short = (callee_name(t) or "").split("::")[-1]
        if short in ("clear", "drain"):
            fl = receiver_fields(f, t)
            if fl:
                empt.setdefault(fl[-1], []).append(bi)
    # `while let Some(x) = self.list.pop_front() { .. }` empties the list as well: a loop that is only left through the None
    # arm of a pop on the list; the list is empty from the exit target on
    from rules.r_loopvar import loops_of
    for lp in loops_of(f):
        exits = [(b, s_) for b in lp.body for s_ in f.succs(b) if s_ not in lp.body and not f.is_cleanup(s_)]
        if len(exits) != 1:
            continue
        eb, et = exits[0]
        sw = f.term(eb)
        if sw["k"] != "switch" or not is_place(sw["d"]):
            continue
        d = f.single_def(sw["d"]["l"])
        if not (d and d[2] == "assign" and d[3]["k"] == "discr"):
            continue
        src = f.single_def(d[3]["p"]["l"])
        if not (src and src[2] == "call" and (callee_name(src[3]) or "").split("::")[-1] in ("pop_front", "pop_back", "pop") and src[0] in lp.body):
            continue
        none_arm = [v for v, tb in sw["ts"] if tb == et] == [0] or (sw.get("o") == et and [v for v, _ in sw["ts"]] == [1])
        if not none_arm:
            continue              # the exit edge is the `None` arm (discriminant 0)
        fl = receiver_fields(f, src[3])
        if fl:
            empt.setdefault(fl[-1], []).append(et)
    rets = set(f.return_blocks())
    anchor = empt.get("keys", [])
    if len(anchor) != 1 or len(lists) < 3:
        res.viol("anchor", f.loc, "tick_osh: the `keys.clear()` that ends the one-shot (%d found) or the list fields of OneShotState "
                                  "(%s) were not found" % (len(anchor), lists))
        return res
    bk = anchor[0]
    for name in lists:
        if name == "keys":
            res.inst("ends/keys", where="%s:%s" % (f.file, f.line_of(bk)), ok=True)
            continue
        ok = False
        for b in empt.get(name, []):
            if f.dominates(b, bk):
                ok = True      # emptied on the way to the end block (after the end condition or before it: both empty it at the end)
            elif f.dominates(bk, b) and not (rets & f.reach_from(f.term(bk).get("t"), avoid=[b])):
                ok = True
        res.inst("ends/" + name, where="%s:%s" % (f.file, f.line_of(bk)), ok=ok)
        res.oblige(ok)
        if not ok:
            res.viol("ends/" + name, "%s:%s" % (f.file, f.line_of(bk)),
                     "tick_osh ends the one-shot (keys.clear()) without emptying `%s` on the same path. The one-shot can end by timeout or "
                     "by a re-press as well as by the next key, and what is left in the list belongs to the activation that is over: the "
                     "next activation starts with stale entries (a key that was down before the one-shot key ends it at once; a stale "
                     "deferred release lets go of a key that is held)" % name)
    return res
