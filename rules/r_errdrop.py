"""R-ERRDROP (C03): an error value that the parser constructs is handed on, never built and discarded.

The parser's argument-count / shape checks have the form `if bad { bail_expr!(..) }`. `bail_expr!` is
`return Err(anyhow_expr!(..))`; writing `anyhow_expr!(..);` instead builds the ParseError and drops it, so
the check no longer leaves the function and the indexing that follows it is unguarded (this is exactly
how `(defzippy f output-character-mappings (a (no-erase)))` used to panic).

Rule: for every call in the kanata crates whose destination is a whole local of an *error type*
(ParseError, anyhow::Error, miette::Report), that local must be read by something other than its drop:
moved into an aggregate / call / return place. A destination that is only dropped is a violation."""
from collections import defaultdict

from kq.core import callee_name, proj
from kq.report import RuleResult

ERR_TYPES = (
    "kanata_parser::cfg::error::ParseError",
    "anyhow::Error",
    "miette::eyreish::Report",
)


def _walk_locals(x, out):
    if isinstance(x, dict):
        if "l" in x and isinstance(x["l"], int):
            out.add(x["l"])
        for k, v in x.items():
            if k not in ("ty",):
                _walk_locals(v, out)
    elif isinstance(x, list):
        for v in x:
            _walk_locals(v, out)


def used_locals(f):
    """locals read anywhere in the body (operands of rvalues, call arguments/callee, switch/assert
    operands, projected stores through them); drops and whole-local definitions do not count."""
    used = set()
    for bi in f.reachable():
        for st in f.stmts(bi):
            if st["k"] == "assign":
                _walk_locals(st["rv"], used)
                if proj(st["p"]):
                    _walk_locals(st["p"], used)
            elif st["k"] not in ("storagelive", "storagedead", "nop"):
                _walk_locals({k: v for k, v in st.items() if k != "k"}, used)
        t = f.term(bi)
        if t["k"] == "drop":
            continue
        if t["k"] == "call":
            _walk_locals(t.get("args"), used)
            _walk_locals(t.get("fop"), used)
            if proj(t["dest"]):
                _walk_locals(t["dest"], used)
        elif t["k"] == "return":
            used.add(0)
        else:
            _walk_locals({k: v for k, v in t.items() if k not in ("k", "t", "ts", "targets")}, used)
    return used


def run(prog):
    res = RuleResult("R-ERRDROP", "every error value the parser constructs is returned or stored, never built and dropped", floor=300)
    per_fn = defaultdict(int)
    for f in prog.fns.values():
        if not f.crate.startswith("kanata") or f.derive:
            continue
        sites = []
        for bi, t in f.calls():
            d = t["dest"]
            if proj(d):
                continue
            ty = f.local_ty(d["l"]) or ""
            if ty in ERR_TYPES:
                sites.append((bi, t, d["l"], ty))
        # `Err(e);` as a statement: the Result is built and dropped
        errs = []
        for bi, si, st in f.all_rvalues():
            rv = st["rv"]
            if rv["k"] == "agg" and rv.get("adt") == "core::result::Result" and rv.get("v") == "Err" and not proj(st["p"]):
                errs.append((bi, si, st))
        if not sites and not errs:
            continue
        res.fn(f)
        used = used_locals(f)
        for n, (bi, si, st) in enumerate(errs):
            l = st["p"]["l"]
            ok = l in used or l == 0
            key = "%s/Err#%d" % (f.norm, n)
            res.inst(key, where="%s:%s" % (f.file, f.line_of(bi, si)), ty="Result::Err", ok=ok)
            res.oblige(ok)
            if not ok:
                res.viol(key, "%s:%s" % (f.file, f.line_of(bi, si)),
                         "an Err(..) value is built and then only dropped: the error never leaves the function")
        for bi, t, l, ty in sites:
            cn = (callee_name(t) or "?")
            short = cn.split("::")[-1]
            n = per_fn[(f.norm, short)]
            per_fn[(f.norm, short)] += 1
            key = "%s/%s%s" % (f.norm, short, "#%d" % n if n else "")
            ok = l in used
            res.inst(key, where="%s:%s" % (f.file, t.get("ln")), ty=ty.split("::")[-1], ok=ok)
            res.oblige(ok)
            if not ok:
                res.viol(key, "%s:%s" % (f.file, t.get("ln")),
                         "a %s is constructed by %s and then only dropped: the error is never returned, so the check "
                         "it belongs to does not stop the parser (use bail!/bail_expr!/return Err(..))" % (ty.split("::")[-1], cn))
    return res
